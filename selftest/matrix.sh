#!/bin/bash
# runs every seeded change against ALL registered quick checks; prints one line per change: which checks fired.
# usage: selftest/matrix.sh [id ...]   (developer tool; applies each patch to /repo and restores it)
PROPS="C01 C02 C03 C04 C05 C06 C07 C08 C09 C10 C11 C12 C13 C14 C15 C16 C17 C18 C19 C20"
mkdir -p /verif/selftest/results
for d in /verif/seeded/C*/; do
  id=$(basename $d)
  [ -n "$1" ] && [[ ! " $* " =~ " $id " ]] && continue
  cd /repo; git diff --quiet || { echo "/repo dirty"; exit 2; }
  git apply $d/patch.diff || { echo "$id: patch does not apply"; continue; }
  fired=""
  cd /verif
  for p in $PROPS; do
    (timeout 900 bin/check $p --tier quick > /tmp/matrix_$p.out 2>&1; echo $? > /tmp/matrix_$p.rc) &
  done
  wait
  for p in $PROPS; do
    rc=$(cat /tmp/matrix_$p.rc)
    if [ "$rc" = "1" ]; then
      if grep -q "no-failing-input-found" /tmp/matrix_$p.out; then fired="$fired $p(proof-only)"; else fired="$fired $p"; fi
    elif [ "$rc" != "0" ]; then fired="$fired $p(rc=$rc)"; fi
  done
  git -C /repo checkout -- .
  own=${id%_*}
  hit="MISSED"; [[ " $fired " =~ " $own" ]] && hit="caught"
  echo "$id own=$own $hit | fired:$fired"
  echo "$id own=$own $hit | fired:$fired" >> /verif/selftest/results/matrix.txt
done
