#!/bin/bash
# For each patch directory given (containing patch.diff): apply it to a scratch worktree, run ALL twenty quick checks against it,
# print which report something.  Usage: all_on.sh <lane-dir> <patch-dir>...
WT=$1; shift
[ -d "$WT" ] || git -C /repo worktree add -q --detach "$WT" HEAD || exit 2
for d in "$@"; do
  id=$(basename $d)
  (cd $WT && git checkout -q -- . && git clean -fdq && git apply $d/patch.diff) || { echo "$id APPLY-FAIL"; continue; }
  fired=""
  for p in $(seq -w 1 20); do
    out=$(cd /verif && NSG_REPO=$WT timeout 1200 bin/check C$p --tier quick 2>&1); rc=$?
    if [ $rc -ne 0 ]; then
      kind=$(echo "$out" | grep "^VIOLATION" | head -1 | grep -q "no-failing-input-found" && echo "nfi" || echo "viol")
      first=$(echo "$out" | grep "^VIOLATION" | head -1 | sed 's/.*replay=//' | xargs -n1 basename 2>/dev/null)
      fired="$fired C$p($kind:$first)"
    fi
  done
  echo "$id fired:$fired"
  (cd $WT && git checkout -q -- . && git clean -fdq)
done
