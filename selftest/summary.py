#!/usr/bin/env python3
"""Builds seeded/README.md: one line per seeded change - what was changed, what it needs, which checks report it.
Inputs: seeded/<id>/meta.json, selftest/results/own.txt (own-property runs), selftest/results/matrix.txt (all 20 checks)."""
import json, os, re, glob
root = os.path.dirname(os.path.dirname(os.path.abspath(__file__)))
own = {}
for l in open(os.path.join(root, "selftest/results/own.txt")):
    m = re.match(r"(C\d\d_\w) own=(C\d\d) (caught|MISSED)(?: \((\d+)\))?\s*(.*)", l.strip())
    if m:
        own[m.group(1)] = (m.group(3), m.group(4), m.group(5))
matrix = {}
if os.path.exists(os.path.join(root, "selftest/results/matrix.txt")):
    for l in open(os.path.join(root, "selftest/results/matrix.txt")):
        m = re.match(r"(C\d\d_\w) own=C\d\d \w+ \| fired: (.*)", l.strip())
        if m:
            matrix[m.group(1)] = m.group(2).strip()
rows = []
for d in sorted(glob.glob(os.path.join(root, "seeded", "C*_*"))):
    i = os.path.basename(d)
    meta = json.load(open(os.path.join(d, "meta.json")))
    summ = re.sub(r"\s+", " ", meta.get("summary", "")).strip()
    needs = re.sub(r"\s+", " ", meta.get("needs", "")).strip()
    st = own.get(i, ("not run", None, ""))
    rows.append((i, summ[:230] + ("…" if len(summ) > 230 else ""), needs[:200] + ("…" if len(needs) > 200 else ""), st, matrix.get(i, "")))
out = ["# Seeded changes", "",
       "Each directory holds `patch.diff` (applies to /repo HEAD with `git apply`), `demo.py` (exits 1 with the change, 0 without;",
       "run with `PYTHONPATH=seeded/_tools:/repo /venv/bin/python demo.py`), `meta.json` (what the sub-agent changed and what it needs),",
       "`verified.json` (my confirmation in a scratch worktree: applies, existing suite still 67 passed, demo fails with / passes without).",
       "Round 1 = `_a _b`, round 2 = `_c _d`, round 3 = `_e _f _g`, round 4 = `_h _i _j`, round 5 = `_k _l _m`, round 6 = `_n _o _p`, round 7 = `_q _r _s`, round 8 = `_t _u _v`; every round by fresh sub-agents that saw only the property text.", "",
       "`own check` = `bin/check <its property> --tier quick` with the change applied (signatures of the first replays);",
       "`all checks` = which of the twenty quick checks report it (rounds 1-2, `selftest/matrix.sh`).", "",
       "| id | change | needs | own check | all checks |", "|---|---|---|---|---|"]
for i, summ, needs, st, mx in rows:
    o = f"{st[0]}" + (f" ({st[1]}): {st[2]}" if st[1] else "")
    out.append(f"| {i} | {summ.replace('|', '/')} | {needs.replace('|', '/')} | {o.replace('|', '/')} | {mx.replace('|', '/')} |")
caught = sum(1 for r in rows if r[3][0] == "caught")
out += ["", f"{caught} of {len(rows)} seeded changes are reported by the check of their own property."]
open(os.path.join(root, "seeded", "README.md"), "w").write("\n".join(out) + "\n")
print(f"{caught}/{len(rows)} caught by own check; missed: {[r[0] for r in rows if r[3][0] != 'caught']}")
