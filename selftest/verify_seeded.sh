#!/bin/bash
# Confirms every seeded change: applies to a scratch worktree of /repo HEAD, existing suite still 67 passed,
# its demo FAILs with the change and PASSes without. Writes seeded/<id>/verified.json.
WT=/tmp/wt_verify
git -C /repo worktree remove --force $WT 2>/dev/null
git -C /repo worktree add -q --detach $WT HEAD || exit 2
trap "git -C /repo worktree remove --force $WT" EXIT
for d in /verif/seeded/C*/; do
  id=$(basename $d)
  [ -n "$1" ] && [[ ! " $* " =~ " $id " ]] && continue
  cd $WT && git checkout -q -- . && git clean -fdq
  clean=$(PYTHONPATH=/verif/seeded/_tools:$WT timeout 300 /venv/bin/python $d/demo.py >/dev/null 2>&1; echo $?)
  if ! git apply $d/patch.diff 2>/dev/null; then echo "$id APPLY-FAIL"; echo "{\"applies\": false}" > $d/verified.json; continue; fi
  tests=$(/venv/bin/python -m pytest -q -p no:cacheprovider --timeout=900 --continue-on-collection-errors 2>&1 | tail -1)
  passed=$(echo "$tests" | grep -o "[0-9]* passed" | grep -o "[0-9]*")
  if [ "$passed" != "67" ]; then tests=$(/venv/bin/python -m pytest -q -p no:cacheprovider --timeout=900 --continue-on-collection-errors 2>&1 | tail -1); passed=$(echo "$tests" | grep -o "[0-9]* passed" | grep -o "[0-9]*"); fi
  mut=$(PYTHONPATH=/verif/seeded/_tools:$WT timeout 300 /venv/bin/python $d/demo.py >/dev/null 2>&1; echo $?)
  echo "$id clean_demo_exit=$clean mutant_demo_exit=$mut tests_passed=$passed"
  echo "{\"applies\": true, \"clean_demo_exit\": $clean, \"mutant_demo_exit\": $mut, \"tests_passed\": ${passed:-0}, \"head\": \"$(git -C /repo rev-parse --short HEAD)\"}" > $d/verified.json
done
