#!/bin/bash
# all 20 quick checks on the unchanged /repo for the given seeds; prints failures; exit 0 iff none
cd /verif
fail=0
for s in "$@"; do
  for p in $(seq -w 1 20); do
    ( out=$(VERIF_SEED=$s timeout 1800 bin/check C$p --tier quick 2>&1); rc=$?; if [ $rc -ne 0 ] || echo "$out" | grep -q "VIOLATION\|Traceback"; then echo "seed=$s C$p rc=$rc"; echo "$out" | tail -5; fi ) &
    while [ $(jobs -r | wc -l) -ge 6 ]; do sleep 0.5; done
  done
  wait
done
echo "clean-run done"
