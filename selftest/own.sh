#!/bin/bash
# For each seeded change given: apply it to a scratch worktree of /repo HEAD, run the check of its OWN property
# (quick tier) against that worktree (NSG_REPO), record caught / MISSED, restore.  Usage: own.sh <lane-dir> <ids...>
WT=$1; shift
[ -d "$WT" ] || git -C /repo worktree add -q --detach "$WT" HEAD || exit 2
for id in "$@"; do
  d=/verif/seeded/$id; p=${id%_*}
  (cd $WT && git checkout -q -- . && git clean -fdq && git apply $d/patch.diff) || { echo "$id APPLY-FAIL"; continue; }
  out=$(cd /verif && NSG_REPO=$WT timeout 1200 bin/check $p --tier quick 2>&1); rc=$?
  nv=$(echo "$out" | grep -c "^VIOLATION")
  first=$(echo "$out" | grep "^VIOLATION" | head -2 | sed 's/.*replay=//' | xargs -n1 basename 2>/dev/null | tr '\n' ' ')
  if [ $rc -eq 1 ] && [ $nv -gt 0 ]; then echo "$id own=$p caught ($nv) $first"; else echo "$id own=$p MISSED rc=$rc"; fi
  (cd $WT && git checkout -q -- . && git clean -fdq)
done
