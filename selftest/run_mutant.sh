#!/bin/bash
# usage: selftest/run_mutant.sh <patch.diff> <tier> <prop> [<prop>...]
# applies the patch to /repo, runs the given checks, restores /repo. Developer tool, not a registered command.
PATCH="$1"; TIER="$2"; shift 2
cd /repo || exit 2
if ! git diff --quiet; then echo "/repo is dirty" >&2; exit 2; fi
git apply "$PATCH" || { echo "patch does not apply" >&2; exit 2; }
trap 'git -C /repo checkout -- . ' EXIT
cd /verif
for p in "$@"; do
  out=$(timeout 1800 bin/check "$p" --tier "$TIER" 2>&1); rc=$?
  echo "== $p exit=$rc"
  echo "$out" | grep -E "VIOLATION|KNOWN-FINDING|^  " | head -6
done
