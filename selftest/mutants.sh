#!/bin/bash
# usage: selftest/mutants.sh <dir-with-mutant-subdirs>... ; runs each mutant's own property check (and prints which checks fire)
for d in "$@"; do
  for m in "$d"/*/; do
    [ -f "$m/patch.diff" ] || continue
    prop=$(python3 -c "import json;print(json.load(open('$m/meta.json'))['property'])")
    echo "#### $(basename $m) [$prop]: $(python3 -c "import json;print(json.load(open('$m/meta.json'))['summary'][:110])")"
    /verif/selftest/run_mutant.sh "$m/patch.diff" quick $prop $EXTRA 2>&1 | grep -E "^==|VIOLATION" | head -${LINES_PER:-4}
  done
done
