"""Concrete replays of the defects found on the pinned tree (DESIGN.md section 7).
Each function returns (ok, detail): ok=True means the property-relevant behaviour is correct.
Run:  PYTHONPATH=/verif/harness:/repo /venv/bin/python harness/repro_findings.py [F01 ...]
"""
import json, os, sys, tempfile, subprocess
from nsgverif.sim import Sim, default_config, parse_reply
from AIDojoCoordinator.game_components import Action, ActionType, AgentInfo, IP, Network, Service, Data, GameState

def J(t, **p): return Action(t, parameters=p).to_json()
JOIN = lambda n="a", r="Attacker": J(ActionType.JoinGame, agent_info=AgentInfo(n, r))
SCAN = J(ActionType.ScanNetwork, source_host=IP("192.168.2.2"), target_network=Network("192.168.1.0", 24))
FS = lambda t: J(ActionType.FindServices, source_host=IP("192.168.2.2"), target_host=IP(t))
RESET = J(ActionType.ResetGame, request_trajectory=False)
QUIT = J(ActionType.QuitGame)

def replies(s):
    out = []
    for cid, k, p in s.outputs():
        if k == "reply":
            ok, j = parse_reply(p)
            out.append((cid, j.get("status") if j else None, j))
        else:
            out.append((cid, k, None))
    return out

def F01():
    s = Sim(default_config()); s.connect(0)
    s.send(0, b"this is not json"); r = replies(s)
    alive = "run_game" in s.background_alive()
    s.close()
    return (alive and len(r) == 1 and r[0][1] == "GameStatus.BAD_REQUEST", f"replies={[(c,st) for c,st,_ in r]} dispatcher_alive={alive}")

def F01b():
    s = Sim(default_config()); s.connect(0); s.send(0, JOIN()); replies(s)
    s.send(0, SCAN); replies(s)
    steps0 = s.coord._agent_steps[("127.0.0.1", 40000)]
    s.send(0, b"{bad json"); r = replies(s)
    steps1 = s.coord._agent_steps[("127.0.0.1", 40000)]
    s.close()
    return (len(r) == 1 and r[0][1] == "GameStatus.BAD_REQUEST" and steps0 == steps1, f"replies={[(c,st) for c,st,_ in r]} steps {steps0}->{steps1}")

def F02():
    s = Sim(default_config()); s.connect(0); s.send(0, JOIN()); replies(s)
    s.send(0, J(ActionType.BlockIP, source_host=IP("192.168.2.2"), target_host=IP("192.168.2.2"), blocked_host=IP("192.168.1.2")))
    r = replies(s); s.close()
    return (len(r) == 1 and r[0][1] == "GameStatus.OK", f"replies={[(c,st) for c,st,_ in r]}")

def F03():
    s = Sim(default_config()); s.connect(0); s.send(0, JOIN()); replies(s)
    s.send(0, QUIT); r = replies(s)
    done = s.handler_done(0); slots = s.server_cb.current_connections
    s.connect(1); s.send(1, JOIN("b")); r2 = replies(s)
    s.close()
    return (done and slots == 0 and ("closed" in [k for _, k, _ in r]) and any(st == "GameStatus.CREATED" for _, st, _ in r2),
            f"after quit: {[(c,st) for c,st,_ in r]} handler_done={done} slots={slots}; second: {[(c,st) for c,st,_ in r2]}")

def F04():
    res = []
    for msg in (SCAN, RESET):
        s = Sim(default_config()); s.connect(0)
        s.send(0, msg); r = replies(s)
        res.append([(c, st) for c, st, _ in r]); phantom = dict(s.coord._reset_requests)
        s.close()
    ok = all(len(x) == 1 and x[0][1] in ("GameStatus.BAD_REQUEST", "GameStatus.FORBIDDEN") for x in res) and not phantom
    return (ok, f"game-before-join={res[0]} reset-before-join={res[1]} phantom_reset_requests={phantom}")

def F05():
    s = Sim(default_config()); s.connect(0); s.send(0, JOIN()); replies(s)
    s.send(0, J(ActionType.ScanNetwork, source_host=IP("192.168.2.2"))); r = replies(s)
    steps = s.coord._agent_steps[("127.0.0.1", 40000)]
    s.send(0, SCAN); r2 = replies(s)
    s.close()
    return (len(r) == 1 and r[0][1] == "GameStatus.BAD_REQUEST" and steps == 0 and len(r2) == 1, f"missing-param replies={[(c,st) for c,st,_ in r]} steps={steps} next={[(c,st) for c,st,_ in r2]}")

def F05b():
    s = Sim(default_config()); s.connect(0)
    s.send(0, J(ActionType.JoinGame)); r = replies(s); s.close()
    return (len(r) == 1 and r[0][1] == "GameStatus.BAD_REQUEST", f"join w/o agent_info: {[(c,st) for c,st,_ in r]}")

def _three(max_steps=1):
    cfg = default_config(env={"required_players": 3}, coordinator={"agents": {"Attacker": {"max_steps": max_steps}}})
    s = Sim(cfg)
    for i in range(3):
        s.connect(i); s.send(i, JOIN("n%d" % i))
    replies(s)
    return s

def F06():
    s = _three()
    for i in range(3): s.send(i, SCAN)
    replies(s)                      # all three ended (max_steps=1) and were paid
    s.send(0, RESET); r0 = replies(s)   # A asks
    views_before = dict(s.coord._episode_ends)
    s.send(2, QUIT) if False else s.eof(2)   # C leaves
    r = replies(s)
    ends_after = dict(s.coord._episode_ends)
    b = ("127.0.0.1", 40001)
    ok = ends_after.get(b) is True   # B never asked: its episode must still be ended
    s.close()
    return (ok, f"after C left: episode_ends={ends_after} replies={[(c,st) for c,st,_ in r]}")

def F07():
    cfg = default_config(env={"required_players": 2}, coordinator={"agents": {"Attacker": {"max_steps": 1}}})
    s = Sim(cfg)
    for i in range(2): s.connect(i); s.send(i, JOIN("n%d" % i))
    replies(s)
    s.send(0, SCAN); s.send(1, SCAN); r = replies(s)
    rew0 = [j["observation"]["reward"] for c, st, j in r if c == 0]
    s.eof(1); replies(s)
    s.send(0, SCAN); r2 = replies(s)
    rew1 = [j["observation"]["reward"] for c, st, j in r2 if c == 0]
    s.close()
    return (rew0 == rew1 and len(rew0) == 1, f"final reward {rew0}, after other left and a refused action {rew1}")

def F07b():
    # late joiner: A,B finish and are paid; B leaves; C joins and finishes -> A must not be paid again
    cfg = default_config(env={"required_players": 2}, coordinator={"agents": {"Attacker": {"max_steps": 1}}})
    s = Sim(cfg)
    for i in range(2): s.connect(i); s.send(i, JOIN("n%d" % i))
    replies(s)
    s.send(0, SCAN); s.send(1, SCAN); r = replies(s)
    rew0 = [j["observation"]["reward"] for c, st, j in r if c == 0]
    s.eof(1); replies(s)
    s.connect(2); s.send(2, JOIN("c")); s.send(2, SCAN); replies(s)
    s.send(0, SCAN); r2 = replies(s)
    rew1 = [j["observation"]["reward"] for c, st, j in r2 if c == 0]
    s.close()
    return (rew0 == rew1 and len(rew0) == 1, f"final reward {rew0}, after late joiner finished {rew1}")

def F08():
    out = {}
    for kind in ("badbytes", "readerr", "writeerr"):
        cfg = default_config(env={"required_players": 2}, coordinator={"agents": {"Attacker": {"max_steps": 1}}})
        s = Sim(cfg)
        for i in range(2): s.connect(i); s.send(i, JOIN("n%d" % i))
        replies(s)
        if kind == "badbytes": s.send(1, b"\xff\xfe\xfd")
        elif kind == "readerr": s.read_error(1)
        else:
            s.arm_write_error(1); s.send(1, SCAN)
        r = replies(s)
        ghost = ("127.0.0.1", 40001) in s.coord.agents and s.handler_done(1)
        out[kind] = (ghost, [(c, st) for c, st, _ in r])
        s.close()
    ok = not any(g for g, _ in out.values())
    return (ok, f"ghost agent left behind: {out}")

def _world(cfg=None):
    s = Sim(cfg or default_config()); s.connect(0); s.send(0, JOIN()); replies(s)
    return s

def F09():
    s = _world()
    w = s.coord
    s.send(0, J(ActionType.BlockIP, source_host=IP("192.168.2.2"), target_host=IP("192.168.2.2"), blocked_host=IP("192.168.1.2")))
    replies(s)
    # world-level, independent of F02
    st = w._agent_states[("127.0.0.1", 40000)]
    w._execute_action(st, Action(ActionType.BlockIP, parameters={"source_host": IP("192.168.2.2"), "target_host": IP("192.168.2.2"), "blocked_host": IP("192.168.1.2")}))
    blocked = IP("192.168.1.2") not in w._firewall[IP("192.168.2.2")]
    s.loop.run_until_complete(w.reset())
    restored = IP("192.168.1.2") in w._firewall[IP("192.168.2.2")]
    s.close()
    return (blocked and restored, f"blocked_after_action={blocked} allowed_again_after_reset={restored}")

def F10():
    s = _world(); w = s.coord
    st = w._agent_states[("127.0.0.1", 40000)]
    A = lambda t, **p: Action(t, parameters=p)
    src = IP("192.168.2.2")
    st = w._execute_action(st, A(ActionType.FindServices, source_host=src, target_host=IP("192.168.1.2")))
    svc = [x for x in st.known_services[IP("192.168.1.2")]][0]
    st = w._execute_action(st, A(ActionType.ExploitService, source_host=src, target_host=IP("192.168.1.2"), target_service=svc))
    st1 = w._execute_action(st, A(ActionType.FindData, source_host=src, target_host=IP("192.168.1.2")))
    alias = any(v is w._data.get(w._ip_to_hostname[k]) for k, v in st1.known_data.items())
    s.close()
    return (not alias, f"view data set is the world's own set object: {alias}")

def F11():
    s = _world(); w = s.coord
    n = len(w._data.get("smb_server", ()))
    s.close()
    return (n == 3, f"smb_server defines 3 datapoints, world loaded {n}")

def F12():
    st = GameState(controlled_hosts={IP("1.1.1.1")}, known_hosts={IP("1.1.1.1")}, known_services={}, known_networks=set(),
                   known_data={IP("1.1.1.1"): {Data("u", "d", 7, "txt")}}, known_blocks={IP("1.1.1.1"): {IP("2.2.2.2")}})
    a = GameState.from_dict(st.as_dict) == st
    try:
        b = GameState.from_json(st.as_json()) == st
    except Exception as e:
        b = repr(e)
    return (a is True and b is True, f"from_dict roundtrip={a} from_json roundtrip={b}")

def F13():
    cfg = default_config(env={"save_trajectories": True})
    s = Sim(cfg); s.connect(0); s.send(0, JOIN()); replies(s)
    s.send(0, RESET); r = replies(s)
    alive = "_reset_game" in s.background_alive()
    s.close()
    return (alive and len(r) == 1 and r[0][1] == "GameStatus.RESET_DONE", f"reset task alive={alive} replies={[(c,st) for c,st,_ in r]}")

def F14():
    out = {}
    cfg = default_config(coordinator={"agents": {"Attacker": {"goal": {"known_services": {"192.168.1.3": ["postgresql", "passive", "14.3.0", False]}}}}})
    s = Sim(cfg); out["services_goal_startup"] = repr(s.startup_error)
    ok1 = s.startup_error is None and s.server_cb is not None
    if ok1:
        s.connect(0); s.send(0, JOIN()); s.send(0, SCAN); r = replies(s); ok1 = len(r) == 2
        out["services_goal_session"] = [(c, st) for c, st, _ in r]
    s.close()
    cfg = default_config(coordinator={"agents": {"Attacker": {"goal": {"known_blocks": {"192.168.2.2": ["192.168.1.3"]}}}}})
    s = Sim(cfg)
    wc = s.coord._win_conditions_per_role["Attacker"]["known_blocks"]
    ok2 = all(isinstance(v, (set, frozenset)) for v in wc.values()); out["blocks_goal_types"] = {str(k): type(v).__name__ for k, v in wc.items()}
    s.close()
    cfg = default_config(coordinator={"agents": {"Attacker": {"start_position": {"known_data": {"192.168.2.2": [["User1", "X"]]}}}}})
    s = Sim(cfg); s.connect(0); s.send(0, JOIN()); r = replies(s)
    ok3 = len(r) == 1 and r[0][1] == "GameStatus.CREATED" and r[0][2]["observation"]["state"]["known_data"] != {}
    out["start_known_data"] = [(c, st) for c, st, _ in r]
    s.close()
    return (ok1 and ok2 and ok3, str(out))

def F15():
    code = "import nsgverif.cyst_compat\nfrom nsgverif.sim import Sim, default_config\ns=Sim(default_config());print(s.coord._CONFIG_FILE_HASH);s.close()"
    hs = [subprocess.run([sys.executable, "-c", code], capture_output=True, text=True, env=dict(os.environ)).stdout.strip() for _ in range(2)]
    return (hs[0] == hs[1] and hs[0] != "", f"config hash in two processes: {hs}")

def F16():
    cfg = default_config(env={"use_dynamic_addresses": True})
    s = Sim(cfg); s.connect(0); s.send(0, JOIN()); replies(s)
    s.send(0, RESET); replies(s)
    types = {type(v).__name__ for v in s.coord._networks.values()}
    s.close()
    return (types == {"list"}, f"network host containers after a re-labelling: {types}")

def F17():
    cfg = default_config(env={"use_dynamic_addresses": True, "required_players": 1})
    cfg["coordinator"]["agents"]["Defender"]["start_position"]["controlled_hosts"] = ["all_local"]
    s = Sim(cfg); s.connect(0); s.send(0, JOIN("d", "Defender")); replies(s)
    s.send(0, RESET); r = replies(s)
    alive = "_reset_game" in s.background_alive()
    s.close()
    return (alive and len(r) == 1, f"reset task alive={alive} replies={[(c,st) for c,st,_ in r]}")

ALL = [F01, F01b, F02, F03, F04, F05, F05b, F06, F07, F07b, F08, F09, F10, F11, F12, F13, F14, F15, F16, F17]
if __name__ == "__main__":
    want = sys.argv[1:]
    bad = 0
    for f in ALL:
        if want and f.__name__ not in want: continue
        try:
            ok, d = f()
        except Exception as e:
            import traceback; ok, d = False, "EXC " + repr(e) + traceback.format_exc()[-400:]
        print(("PASS " if ok else "FAIL ") + f.__name__ + ": " + d)
        bad += (not ok)
    sys.exit(1 if bad else 0)
