"""Entry point of the world-level properties C02 C03 C08 C11 C12."""
from __future__ import annotations

import random
import sys

from .common import Driver, Timer, Verdict, lean_gate, write_evidence, seed, TRUSTED_BASE
from . import check_world as CW

MODULES = {
    "C02": ["NSG.Properties.C02", "NSG.Properties.SystemInv", "NSG.Properties.SystemMono"],
    "C03": ["NSG.Properties.C03", "NSG.Properties.C03Loader", "NSG.Properties.SystemInv", "NSG.Properties.SystemLoaded"],
    "C08": ["NSG.Properties.C08", "NSG.Properties.SystemInv", "NSG.Properties.SystemLoaded"],
    "C11": ["NSG.Properties.C11", "NSG.Properties.SystemInv", "NSG.Properties.SystemMono"],
    "C12": ["NSG.Properties.C12", "NSG.Properties.C12Coord", "NSG.Properties.SystemInv"],
}
RULES = {
    "C02": "random walks of 1-3 agents on shipped and generated worlds; evaluations = world steps with pre=false compared with the model; non-trivial = exactly one guard of the precondition false (distinct by action type, guard, view, action)",
    "C03": "same walks; evaluations = steps with pre=true compared with the proved effect, plus scenario loads compared with an independent reading of the scenario objects; non-trivial = the step changed the view or the world (distinct by view+action)",
    "C08": "episodes of random actions (incl. exfiltrations and BlockIP) followed by the real reset(); compared with the model's reset and the initial tables, then the same script replayed; non-trivial = the episode had changed data, firewall or blocks before the reset",
    "C11": "walks from well-formed start views; Inv and monotonicity (Lean predicates evaluated by the driver) on every real result; every earlier returned view re-compared after every step; container identity vs world and earlier views; non-trivial = step that grew the view",
    "C12": "2-3 agents interleaved on a shared world; every view held by another agent re-compared after each step; each agent's next view compared with the model's function of (own view, action, world tables); non-trivial = effective step in a multi-agent walk",
}


def _walk_worker(args):
    """thorough tier: one worker = its own driver, PRNG stream and share of the generated worlds"""
    prop, wseed, ngen, walks, steps, shipped = args
    rng = random.Random(wseed)
    CW.SYNC_ON_DIFF = prop not in ("C02", "C12")      # C12: data or blocks that turn up where nobody put them show in what OTHER agents then find there
    S = CW.Stats()
    fails = []
    drv = Driver()
    try:
        specs = CW.world_specs(rng, ngen, shipped=shipped)
        CW.run_walks(drv, rng, S, lambda p, sig, desc, rep: fails.append((p, sig, desc, rep)), specs, walks, steps,
                     reachable_only=(prop in ("C11", "C12")))
    finally:
        drv.close()
    return fails, S


def _merge_stats(A, B):
    for k, v in vars(B).items():
        a = getattr(A, k, None)
        if isinstance(v, set):
            a |= v
        elif isinstance(v, dict):
            for kk, vv in v.items():
                a[kk] = a.get(kk, 0) + vv
        elif isinstance(v, list):
            a += v
        elif isinstance(v, (int, float)):
            setattr(A, k, (a or 0) + v)


def main(prop, tier, replay=None):
    T = Timer()
    V = Verdict(prop)
    ok, info = lean_gate(MODULES[prop])
    if not ok:
        for f in info["failures"]:
            V.proof_fail(f)
    S = CW.Stats()
    fails_other = {}
    coord_stats = {"focus": prop}

    def on_fail(p, sig, desc, rep):
        if p == prop:
            V.fail(sig, desc, rep)
        else:
            fails_other[p] = fails_other.get(p, 0) + 1

    CW.SYNC_ON_DIFF = prop not in ("C02", "C12")      # C12: data or blocks that turn up where nobody put them show in what OTHER agents then find there
    if info.get("build_ok"):
        rng = random.Random(1000003 * seed() + {"C02": 2, "C03": 3, "C08": 8, "C11": 11, "C12": 12}[prop])
        drv = Driver()
        try:
            quick = tier == "quick"
            ngen = 20 if quick else 100
            walks = 5 if quick else 10
            steps = 60 if quick else 100
            if prop == "C08":
                steps = 30 if quick else 60
            if quick:
                specs = CW.world_specs(rng, ngen)
                CW.run_walks(drv, rng, S, on_fail, specs, walks, steps, reachable_only=(prop in ("C11", "C12")))
            else:
                from concurrent.futures import ProcessPoolExecutor
                workers = 12
                base = rng.randrange(1 << 40)
                jobs = [(prop, base + w, 40, walks, steps, w == 0) for w in range(workers)]
                with ProcessPoolExecutor(max_workers=workers) as ex:
                    for fails, S2 in ex.map(_walk_worker, jobs):
                        _merge_stats(S, S2)
                        for p_, sig, desc, rep in fails:
                            on_fail(p_, sig, desc, rep)
            if prop == "C08" and info.get("tables"):
                # coordinator level: whatever completes a reset (the last request, a departure), the world is restored
                from . import check_coord as CC

                def cfail8(tags, sig, desc, rep):
                    if "C08" in tags:
                        V.fail("coord:" + sig, desc, rep)
                    else:
                        for t in tags:
                            fails_other[t] = fails_other.get(t, 0) + 1
                CC.run_sessions(drv, rng, info["tables"]["defender"], cfail8, coord_stats, 60 if quick else 600, 45,
                                {"burst": 0.15, "leave": 0.10, "bad": 0.02, "early_reset": 0.08})
                CC.directed_sessions(drv, rng, info["tables"]["defender"], cfail8, coord_stats, 24 if quick else 400)
                CC.directed_empty_game(drv, rng, info["tables"]["defender"], cfail8, coord_stats, 6 if quick else 60)
            if prop in ("C02", "C03") and info.get("tables"):
                # coordinator level: the same comparison on the path the agents really use (message -> coordinator -> world):
                # the view the coordinator holds after a game action = the proved effect on (held view, action, shared tables)
                from . import check_coord as CC

                def cfail23(tags, sig, desc, rep):
                    if prop in tags:
                        V.fail("coord:" + sig, desc, rep)
                    else:
                        for t in tags:
                            fails_other[t] = fails_other.get(t, 0) + 1
                CC.run_sessions(drv, rng, info["tables"]["defender"], cfail23, coord_stats, 40 if quick else 400, 45,
                                {"burst": 0.0, "leave": 0.03, "bad": 0.01, "roles": ["Attacker", "Attacker", "Defender"]})
                CC.directed_sessions(drv, rng, info["tables"]["defender"], cfail23, coord_stats, 24 if quick else 300)
            if prop == "C11" and info.get("tables"):
                # coordinator level: the views agents are actually SENT (start of every episode, static and dynamic addresses,
                # 'all_local' / 'random' start positions) list only hosts that exist and everything the start position lists
                from . import check_coord as CC

                def cfail11(tags, sig, desc, rep):
                    if "C11" in tags:
                        V.fail("coord:" + sig, desc, rep)
                    else:
                        for t in tags:
                            fails_other[t] = fails_other.get(t, 0) + 1
                CC.run_sessions(drv, rng, info["tables"]["defender"], cfail11, coord_stats, 50 if quick else 500, 40,
                                {"burst": 0.1, "leave": 0.05, "bad": 0.02, "early_reset": 0.15, "roles": ["Attacker", "Defender", "Defender"]})
                # wildcard start positions under re-labelling: what 'all_local' resolves to must exist in every episode
                CC.directed_sessions(drv, rng, info["tables"]["defender"], cfail11, coord_stats, 16 if quick else 200)
                CC.directed_empty_game(drv, rng, info["tables"]["defender"], cfail11, coord_stats, 6 if quick else 60)
                CC.run_sessions(drv, rng, info["tables"]["defender"], cfail11, coord_stats, 16 if quick else 200, 30,
                                {"burst": 0.0, "leave": 0.03, "bad": 0.0, "early_reset": 0.25, "roles": ["Defender", "Attacker"],
                                 "force_env": {"use_dynamic_addresses": True}, "defender_start": ["all_local"]})
            if prop == "C12" and info.get("tables"):
                # coordinator level: nothing an agent holds (view, counters, status, reward beyond the documented
                # barrier outcome) may change because ANOTHER connection sent something
                from . import check_coord as CC

                def cfail(tags, sig, desc, rep):
                    if "C12" in tags:
                        V.fail("coord:" + sig, desc, rep)
                    else:
                        for t in tags:
                            fails_other[t] = fails_other.get(t, 0) + 1
                CC.run_sessions(drv, rng, info["tables"]["defender"], cfail, coord_stats, 60 if quick else 600, 40,
                                {"burst": 0.2, "leave": 0.05, "bad": 0.03, "outcome_mix": True})
        finally:
            drv.close()
    nontriv = {"C02": len(S.one_guard_false), "C03": len(S.effective), "C08": S.reset_nontrivial,
               "C11": len(S.grew), "C12": len(S.cross_agent)}[prop]
    evals = {"C02": S.pre_false, "C03": S.pre_true + S.loads, "C08": S.resets, "C11": S.steps, "C12": S.steps}[prop]
    code, nviol = V.finish()
    cov = {"obligations": info.get("obligations", 0), "discharged": info.get("discharged", 0),
           "checker_cmd": "lake build " + " ".join(MODULES[prop]) + " && lake env lean <#print axioms of every theorem>",
           "trusted_base": TRUSTED_BASE, "theorems": info.get("theorems", []), "axioms_seen": info.get("axioms_seen", []),
           "evaluations": evals, "distinct_nontrivial": nontriv, "rule": RULES[prop], "samples": S.samples[:3],
           "traces_validated_against_impl": S.steps, "steps_by_action_type": S.by_type,
           "pre_true": S.pre_true, "pre_false": S.pre_false, "raised": S.raised, "scenario_loads": S.loads, "resets": S.resets,
           "single_false_guard_histogram": {f"{k[0]}#{k[1]}": v for k, v in sorted(S.guard_only_false.items())},
           "earlier_view_recomparisons": S.snap_checks, "directed_interference_probes": S.directed_interference, "post_reset_readonly_probes": S.post_reset_probes,
           "coordinator_session_events": coord_stats.get("events", 0), "directed_coordinator_sessions": coord_stats.get("directed_sessions", 0), "coordinator_world_bridge_steps": coord_stats.get("world_bridge_steps", 0),
           "out_of_scope_disagreements": fails_other, "proof_failures": V.proof_failures}
    write_evidence(prop, tier, "proof", cov, T.s(), nviol,
                   ["one read = one client message is irrelevant here: world-level check calls _execute_action directly",
                    "IPv4 addresses and masks 0..32 only; invalid networks are covered at coordinator level (C09)"])
    return code


if __name__ == "__main__":
    from .common import guarded
    sys.exit(guarded(sys.argv[1], sys.argv[2] if len(sys.argv) > 2 else "quick", lambda: main(sys.argv[1], sys.argv[2] if len(sys.argv) > 2 else "quick")))
