"""Scenario generation (real cyst classes), stand-alone instantiation of the real world, and an
independent reading of scenario objects used as the oracle for loader completeness (C03)."""
from __future__ import annotations

import asyncio
import copy
import ipaddress
import os
import random
import tempfile

import yaml

from . import cyst_compat  # noqa: F401
import cyst.api.configuration as cc
from cyst.api.configuration import NodeConfig, RouterConfig, FirewallPolicy

from AIDojoCoordinator.game_components import IP, Network, Service, Data, GameState, Action, ActionType
from AIDojoCoordinator.worlds.NSEGameCoordinator import NSGCoordinator
from .sim import default_config

SVC_NAMES = ["ssh", "http", "postgresql", "bash", "smb", "rdp", "ftp", "powershell"]
OWNERS = ["User1", "User2", "admin", "www", "", "ünï", " lead", "trail "]
DATA_IDS = ["DatabaseData", "DataFromServer1", "secret", "", "Data x", "üñí", " DatabaseData", "secret ", "report_EOF_2024"]

PRIVATE_BASES = ["192.168.%d.0/24", "10.%d.0.0/24", "172.%d.8.0/24", "192.168.%d.0/26", "10.0.%d.0/25", "192.168.%d.0/23", "10.%d.0.0/16"]
PUBLIC_NETS = ["213.47.23.192/26", "8.8.8.0/24", "130.149.7.0/28", "100.64.3.0/24", "203.0.113.0/24", "198.51.100.0/25", "192.0.2.0/24", "198.18.4.0/24"]


def gen_scenario(rng: random.Random, max_nodes=6, one_spelling=False):
    """Returns the list of scenario objects. All address choices come from rng.
    one_spelling: every network is written in its canonical form only (no host bits)."""
    nnets = rng.choice([1, 2, 2, 3, 3, 4])
    nets = []
    used = set()
    for i in range(nnets):
        if rng.random() < 0.7 or i == 0:
            b = rng.choice(PRIVATE_BASES)
            if b.startswith("172."):
                cidr = b % rng.randint(16, 31)
            else:
                cidr = b % rng.randint(0, 6)
        else:
            cidr = rng.choice(PUBLIC_NETS)
        if cidr in used:
            continue
        used.add(cidr)
        n_ = ipaddress.IPv4Network(cidr, strict=False)
        if one_spelling and any(n_.overlaps(o) for o in nets):
            continue
        nets.append(n_)
    nets.sort(key=lambda n: rng.random())
    taken = set()

    def fresh_ip(net):
        hosts = list(net.hosts())
        for _ in range(50):
            h = hosts[rng.randrange(min(len(hosts), 14))]
            if h not in taken:
                taken.add(h)
                return h
        return None

    objects = []
    nnodes = rng.randint(1, max_nodes)
    for i in range(nnodes):
        nif = 1 if rng.random() < 0.8 else 2
        ifs = []
        for net in rng.sample(nets, min(nif, len(nets))):
            ip = fresh_ip(net)
            if ip is not None:
                # sometimes write the network with host bits set, like the tiny scenario does
                netstr = f"{ip}/{net.prefixlen}" if (rng.random() < 0.15 and not one_spelling) else str(net)
                ifs.append(cc.InterfaceConfig(cc.IPAddress(str(ip)), cc.IPNetwork(netstr)))
        if not ifs:
            continue
        svcs = []
        for name in rng.sample(SVC_NAMES, rng.choice([0, 1, 1, 2, 3])):
            data = [cc.DataConfig(owner=rng.choice(OWNERS), description=rng.choice(DATA_IDS))
                    for _ in range(rng.choice([0, 0, 1, 2, 3]))]
            kw = dict(name=name, owner=rng.choice(OWNERS), version=rng.choice(["1.0", "8.1.0", "", "14.3.0 ", " 2", "1.0"]),
                      local=rng.random() < 0.4, access_level=cc.AccessLevel.LIMITED)
            if data or rng.random() < 0.5:
                kw["private_data"] = data
            svcs.append(cc.PassiveServiceConfig(**kw))
        if rng.random() < 0.3:
            svcs.insert(rng.randrange(len(svcs) + 1), cc.PassiveServiceConfig(
                name="can_attack_start_here", owner="x", version="1", local=True, access_level=cc.AccessLevel.LIMITED))
        active = []
        if rng.random() < 0.2:
            active = [cc.ActiveServiceConfig(type="netsecenv_agent", name="attacker", owner="attacker",
                                            access_level=cc.AccessLevel.LIMITED)]
        objects.append(NodeConfig(active_services=active, passive_services=svcs, traffic_processors=[],
                                  interfaces=ifs, shell="bash", id=f"node{i}"))
    all_ips = sorted(taken)
    nrouters = rng.choice([0, 1, 1, 2])
    for r in range(nrouters):
        ifs = []
        for net in rng.sample(nets, rng.randint(1, len(nets))):
            ip = fresh_ip(net)
            if ip is not None:
                ifs.append(cc.InterfaceConfig(cc.IPAddress(str(ip)), cc.IPNetwork(str(net)), index=len(ifs)))
        rules = []
        for _ in range(rng.choice([0, 1, 2, 4, 6])):
            def pick():
                k = rng.random()
                if k < 0.5 and taken:
                    return f"{rng.choice(sorted(taken))}/32"
                if k < 0.85:
                    return str(rng.choice(nets))
                return rng.choice(["0.0.0.0/0", "192.168.0.0/16", "10.0.0.0/8"])
            pol = FirewallPolicy.ALLOW if rng.random() < 0.8 else FirewallPolicy.DENY
            rules.append(cc.FirewallRule(cc.IPNetwork(pick()), cc.IPNetwork(pick()), "*", pol))
        tp = [cc.FirewallConfig(default_policy=FirewallPolicy.DENY, chains=[
            cc.FirewallChainConfig(type=cc.FirewallChainType.FORWARD, policy=FirewallPolicy.DENY, rules=rules)])]
        rid = "internet" if (r == nrouters - 1 and rng.random() < 0.25) else f"router{r}"
        objects.append(RouterConfig(interfaces=ifs, traffic_processors=tp, id=rid))
    rng.shuffle(objects)
    return objects


def make_world(objects=None, scenario="scenario1_small", use_firewall=True, seed=42, dynamic=False):
    """A real NSGCoordinator with its world initialised, without any server."""
    cfg = default_config(env={"scenario": scenario, "use_firewall": use_firewall, "use_dynamic_addresses": dynamic})
    tmp = tempfile.NamedTemporaryFile("w", suffix=".yaml", delete=False)
    yaml.safe_dump(cfg, tmp)
    tmp.close()
    try:
        w = NSGCoordinator("127.0.0.1", 0, tmp.name, seed=seed)
        w._load_initialization_objects()
    finally:
        os.unlink(tmp.name)
    if objects is not None:
        w._cyst_objects = objects
    w._use_dynamic_ips = w.task_config.get_use_dynamic_addresses()
    w._initialize()
    return w


def world_step(w, view, action, agent=0):
    """One action through the world's public entry point `step(agent_id, view, action)` (what the coordinator calls),
    not through the private `_execute_action`: bookkeeping that step() does around the action is part of what is checked."""
    coro = w.step(("127.0.0.1", 40000 + agent), view, action)
    try:
        coro.send(None)
    except StopIteration as e:      # the usual case: nothing inside really waits
        return e.value
    coro.close()
    loop = asyncio.new_event_loop()
    try:
        return loop.run_until_complete(w.step(("127.0.0.1", 40000 + agent), view, action))
    finally:
        loop.close()


def world_reset(w):
    loop = asyncio.new_event_loop()
    try:
        loop.run_until_complete(w.reset())
    finally:
        loop.close()


# ----------------------------------------------------------------- independent scenario reading
def read_scenario(objects, use_firewall):
    """A deliberately plain traversal of the CYST objects: what the scenario *defines*.
    Returns dict(hosts={ip:node id}, nets={(ip,mask):[ips]}, services={id:set}, data={id:set}, fw={ip:set})."""
    hosts, nets, services, data = {}, {}, {}, {}
    rules = []
    for o in objects:
        if isinstance(o, RouterConfig) and str(o.id).lower() == "internet":
            continue
        if isinstance(o, (NodeConfig, RouterConfig)):
            for itf in o.interfaces:
                ip = str(itf.ip)
                net = str(itf.net)
                nip, nmask = net.split("/")
                hosts[ip] = o.id
                nets.setdefault((nip, int(nmask)), [])
                nets[(nip, int(nmask))].append(ip)
        if isinstance(o, NodeConfig):
            for s in o.passive_services:
                if s.name == "can_attack_start_here":
                    continue
                services.setdefault(o.id, set()).add((s.name, "passive", s.version, bool(s.local)))
                for d in (getattr(s, "private_data", None) or []):
                    data.setdefault(o.id, set()).add((d.owner, d.description, 0, ""))
        if isinstance(o, RouterConfig):
            for tp in o.traffic_processors:
                for ch in tp.chains:
                    rules.extend(ch.rules)
    all_ips = set(hosts)
    fw = {ip: set() for ip in all_ips}

    def private(netkey):
        a = ipaddress.IPv4Address(netkey[0])
        return (a in ipaddress.IPv4Network("10.0.0.0/8") or a in ipaddress.IPv4Network("172.16.0.0/12")
                or a in ipaddress.IPv4Network("192.168.0.0/16"))
    if use_firewall:
        for nk, ips in nets.items():
            if private(nk):
                for s in ips:
                    for d in ips:
                        fw[s].add(d)
                for pk, pips in nets.items():
                    if not private(pk):
                        for s in ips:
                            for d in pips:
                                fw[s].add(d)
                                fw[d].add(d)
        for r in rules:
            if r.policy == FirewallPolicy.ALLOW:
                sn = ipaddress.IPv4Network(str(r.src_net), strict=False)
                dn = ipaddress.IPv4Network(str(r.dst_net), strict=False)
                for s in all_ips:
                    if ipaddress.IPv4Address(s) in sn:
                        for d in all_ips:
                            if ipaddress.IPv4Address(d) in dn:
                                fw[s].add(d)
    else:
        for s in all_ips:
            fw[s] = set(all_ips)
    return {"hosts": hosts, "nets": nets, "services": services, "data": data, "fw": fw}


def world_tables_plain(w):
    """The real world's tables in the same plain shape as read_scenario."""
    return {
        "hosts": {str(k): v for k, v in w._ip_to_hostname.items()},
        "nets": {(k.ip, k.mask): [str(x) for x in v] for k, v in w._networks.items()},
        "services": {k: {(s.name, s.type, s.version, bool(s.is_local)) for s in v} for k, v in w._services.items()},
        "data": {k: {(d.owner, d.id, d.size, d.type) for d in v} for k, v in w._data.items()},
        "fw": {str(k): {str(x) for x in v} for k, v in w._firewall.items()},
    }


def compare_loader(objects, w, use_firewall):
    """list of human-readable differences between what the scenario defines and what the world loaded"""
    exp = read_scenario(objects, use_firewall)
    got = world_tables_plain(w)
    diffs = []
    if exp["hosts"] != got["hosts"]:
        diffs.append(f"hosts: defined {exp['hosts']} loaded {got['hosts']}")
    en = {k: sorted(v) for k, v in exp["nets"].items()}
    gn = {k: sorted(v) for k, v in got["nets"].items()}
    if en != gn:
        diffs.append(f"networks: defined {en} loaded {gn}")
    for what in ("services", "data"):
        e = {k: v for k, v in exp[what].items() if v}
        g = {k: v for k, v in got[what].items() if v}
        if e != g:
            missing = {k: sorted(v - g.get(k, set())) for k, v in e.items() if v - g.get(k, set())}
            extra = {k: sorted(v - e.get(k, set())) for k, v in g.items() if v - e.get(k, set())}
            diffs.append(f"{what}: missing {missing} extra {extra}")
    if exp["fw"] != got["fw"]:
        bad = {s: (sorted(exp["fw"].get(s, set()) - got["fw"].get(s, set())), sorted(got["fw"].get(s, set()) - exp["fw"].get(s, set())))
               for s in set(exp["fw"]) | set(got["fw"]) if exp["fw"].get(s, set()) != got["fw"].get(s, set())}
        diffs.append(f"firewall (missing, extra) per source: {bad}")
    return diffs
