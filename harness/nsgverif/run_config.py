"""C19 - task configuration: the real ConfigParser + start-up code + initial-view construction vs
the Lean model NSG.Config (theorems C19_*_listed, C19_initial_view, C19_wildcards_valid, C19_values,
C19_defaults), plus behaviour-level sessions whose model settings come from the configuration
*file* (through the model's reader), not from what the running coordinator parsed."""
from __future__ import annotations

import ipaddress
import copy
import json
import random
import sys

from . import cyst_compat  # noqa: F401
import netaddr
from AIDojoCoordinator.game_components import Action, ActionType, AgentInfo, IP, Network, Data, GameState
from .common import Driver, Timer, Verdict, lean_gate, write_evidence, seed, TRUSTED_BASE
from .sim import Sim
from . import canon as C
from . import check_coord as CC

HOSTS = {"scenario1_small": ["192.168.1.2", "192.168.1.3", "192.168.1.4", "192.168.1.5", "192.168.1.6", "192.168.2.2", "213.47.23.195", "192.168.1.1", "192.168.2.1"],
         "scenario1": ["192.168.1.2", "192.168.1.3", "192.168.2.2", "192.168.2.3", "192.168.2.4", "213.47.23.195", "192.168.2.6"],
         "three_nets": ["192.168.1.2", "192.168.3.2", "192.168.3.3", "192.168.2.2", "192.168.2.5", "213.47.23.195", "192.168.4.1"]}
NETS = {"scenario1_small": ["192.168.1.0/24", "192.168.2.0/24", "213.47.23.192/26"],
        "scenario1": ["192.168.1.0/24", "192.168.2.0/24", "213.47.23.192/26"],
        "three_nets": ["192.168.1.0/24", "192.168.2.0/24", "192.168.3.0/24", "192.168.4.0/24", "213.47.23.192/26"]}
USERS = ["User1", "User2", "admin", "x y"]
DATAS = ["DataFromServer1", "DatabaseData", "secret", "D 1"]


def gen_section(rng, sc, start, role):
    hosts, nets = HOSTS[sc], NETS[sc]
    sub = lambda pool, m: rng.sample(pool, rng.randint(0, min(m, len(pool))))
    ctrl = sub(hosts, 3)
    if start:
        if rng.random() < 0.4:
            ctrl.append("random")
        if role == "Defender" and rng.random() < 0.4:
            ctrl.append("all_local")
        if not ctrl:
            ctrl = [rng.choice(hosts)]
    data = {}
    for h in sub(hosts, 2):
        data[h] = [[rng.choice(USERS), rng.choice(DATAS)] for _ in range(rng.randint(1, 3))]
    sec = {"known_networks": sub(nets, 3), "known_hosts": sub(hosts, 3), "controlled_hosts": ctrl,
           "known_services": {}, "known_data": data, "known_blocks": {}}
    if start and rng.random() < 0.2:
        # the documented format lists six parts for a start position; firewall blocks are not part of what an agent knows at
        # the start and the game never reads that key.  A file without it may be rejected when the game starts (not judged);
        # if the game starts with it, it must use what the file states
        del sec["known_blocks"]
    if not start:
        sec["description"] = "goal text"
        if rng.random() < 0.3:
            sec["known_services"] = {rng.choice(hosts): ["ssh", "passive", "8.1.0", False]}
        if rng.random() < 0.3:
            sec["known_blocks"] = {rng.choice(hosts): [rng.choice(hosts)]}
    return sec


def gen_cfg(rng):
    sc = rng.choice(["scenario1_small", "scenario1_small", "scenario1", "three_nets"])
    agents = {}
    for role in ("Attacker", "Defender"):
        r = {"goal": gen_section(rng, sc, False, role), "start_position": gen_section(rng, sc, True, role)}
        if rng.random() < 0.6:
            r["max_steps"] = rng.choice([1, 2, 5, 25, 100])
        agents[role] = r
    env = {"scenario": sc, "random_seed": 42}
    if rng.random() < 0.7:
        rew = {}
        for k in ("step", "success", "fail"):
            if rng.random() < 0.7:
                rew[k] = rng.choice([-1, 0, 3, 100, -10])
        env["rewards"] = rew
    if rng.random() < 0.6:
        env["required_players"] = rng.choice([1, 2, 3])
    for sw in ("use_firewall", "use_global_defender", "save_trajectories", "use_dynamic_addresses"):
        if rng.random() < 0.6:
            env[sw] = rng.random() < 0.5 if sw != "use_dynamic_addresses" else rng.random() < 0.5
    return {"coordinator": {"agents": agents}, "env": env}, sc


def validity(cfg):
    ips, nets = set(), {}

    def walk(x):
        if isinstance(x, dict):
            for k, v in x.items():
                walk(k)
                walk(v)
        elif isinstance(x, list):
            for v in x:
                walk(v)
        elif isinstance(x, str):
            try:
                netaddr.IPAddress(x)
                ips.add(x)
            except Exception:
                pass
            if "/" in x:
                try:
                    netaddr.IPNetwork(x)
                    a, m = x.split("/")
                    nets[x] = [a, int(m)]
                except Exception:
                    pass
    walk(cfg)
    return {"valid_ips": sorted(ips), "valid_nets": [[k, v] for k, v in sorted(nets.items())]}


def real_section(sec):
    def item(x):
        return str(x)
    return {"nets": sorted([n.ip, n.mask] for n in sec.get("known_networks", [])),
            "known": sorted(item(x) for x in sec.get("known_hosts", [])),
            "controlled": sorted(item(x) for x in sec.get("controlled_hosts", [])),
            "data": sorted([str(k), sorted({(d.owner, d.id) for d in v})] for k, v in sec.get("known_data", {}).items())}


def model_section(m):
    return {"nets": sorted(m["nets"]), "known": sorted(m["known"]), "controlled": sorted(m["controlled"]),
            "data": sorted([h, sorted(set(map(tuple, ds)))] for h, ds in m["data"])}


def world_info(w):
    priv = []
    nb = []
    for n in w._networks:
        o = netaddr.IPNetwork(str(n))
        if o.ip.is_ipv4_private_use():
            priv.append([n.ip, n.mask])
            out = []
            for delta in (256, -256):
                try:
                    o2 = netaddr.IPNetwork(str(n))
                    o2.value += delta
                    if o2.ip.is_ipv4_private_use():
                        out.append([str(o2.ip), o2.prefixlen])
                except Exception:
                    pass
            nb.append([[n.ip, n.mask], out])
    return {"startHosts": [str(x) for x in w.hosts_to_start], "localHosts": sorted(str(x) for x in w._get_all_local_ips()),
            "netsOf": [[str(ip), [[n.ip, n.mask] for n in w._get_networks_from_host(ip)]] for ip in w._ip_to_hostname],
            "private": priv, "neighbours": nb}


def main(tier):
    T = Timer()
    V = Verdict("C19")
    mods = ["NSG.Properties.C19"]
    ok, info = lean_gate(mods)
    if not ok:
        for f in info["failures"]:
            V.proof_fail(f)
    stats = {"configs": 0, "nontrivial": set(), "samples": [], "joins": 0, "wildcards": 0, "absent_keys": 0}
    cstats, other = {"focus": "C19"}, {}
    if info.get("build_ok"):
        rng = random.Random(7919 * seed() + 19)
        drv = Driver()
        try:
            n = 120 if tier == "quick" else 2500
            for i in range(n):
                cfg, sc = gen_cfg(rng)
                stats["configs"] += 1
                val = validity(cfg)
                m = drv.ask({"op": "config", "cfg": cfg, **val})
                sim = Sim(cfg)
                try:
                    if (sim.startup_error is not None or sim.server_cb is None) and any("known_blocks" not in cfg["coordinator"]["agents"][r]["start_position"] for r in ("Attacker", "Defender")):
                        stats["incomplete_rejected"] = stats.get("incomplete_rejected", 0) + 1
                        continue
                    if sim.startup_error is not None or sim.server_cb is None:
                        V.fail("startup", f"a configuration built from the documented keys is not accepted: {sim.startup_error!r}", {"config": cfg})
                        continue
                    co = sim.coord
                    # (a) sections
                    for role in ("Attacker", "Defender"):
                        for kind, real in (("start_position", co._starting_positions_per_role[role]), ("goal", co._win_conditions_per_role[role])):
                            rs, ms = real_section(real), model_section(m[role][kind])
                            if rs != ms:
                                diff = [k for k in rs if rs[k] != ms[k]]
                                V.fail(f"section:{kind}:{','.join(diff)}", f"{role} {kind}: parsed {diff} = { {k: rs[k] for k in diff} } but the file lists { {k: ms[k] for k in diff} }",
                                       {"config": cfg, "role": role, "kind": kind})
                            if any(rs[k] for k in rs):
                                stats["nontrivial"].add(json.dumps([role, kind, rs], sort_keys=True))
                    # (b) scalars
                    S = m["settings"]
                    real = {"maxStepsAttacker": co._steps_limit_per_role["Attacker"], "maxStepsDefender": co._steps_limit_per_role["Defender"],
                            "rStep": co._rewards["step"], "rSuccess": co._rewards["success"], "rFail": co._rewards["fail"],
                            "required": co._min_required_players, "firewall": bool(co.task_config.get_use_firewall()),
                            "dynamic": bool(co._use_dynamic_ips), "defender": co._global_defender is not None,
                            "saveTraj": bool(co.task_config.get_store_trajectories())}
                    stats["absent_keys"] += sum(1 for k in ("required_players", "rewards", "use_firewall", "use_global_defender", "save_trajectories") if k not in cfg["env"])
                    for k in real:
                        if real[k] != S[k]:
                            V.fail(f"setting:{k}", f"setting {k}: the game uses {real[k]!r}, the configuration (or its documented default) says {S[k]!r}", {"config": cfg})
                    if sim.server_cb.max_connections != S["required"]:
                        V.fail("setting:max_connections", f"server limit {sim.server_cb.max_connections} vs required players {S['required']}", {"config": cfg})
                    # (c) initial views, wildcards
                    import random as pyrandom
                    roles_order = ("Attacker", "Defender") if rng.random() < 0.5 else ("Defender", "Attacker")
                    for cid, role in enumerate(roles_order):
                        if cid >= S["required"]:
                            break
                        picks = []
                        orig = pyrandom.choice

                        def rec(seq, _o=orig):
                            x = _o(seq)
                            picks.append(str(x))
                            return x
                        pyrandom.choice = rec
                        try:
                            sim.connect(cid)
                            sim.send(cid, CC.J(ActionType.JoinGame, agent_info=AgentInfo(f"a{cid}", role)))
                        finally:
                            pyrandom.choice = orig
                        addr = ("127.0.0.1", 40000 + cid)
                        st = co._agent_states.get(addr)
                        stats["joins"] += 1
                        if st is None:
                            V.fail("join-failed:" + role, f"{role} could not join with a configuration built from the documented keys: {[repr(u.get('exception')) for u in sim.loop.unhandled][-1:]}", {"config": cfg, "role": role})
                            continue
                        wi = world_info(co)
                        mv = drv.ask({"op": "initview", "cfg": cfg, "world": wi, "role": role, "picks": picks, **val})["view"]
                        rv = {"nets": sorted({(n.ip, n.mask) for n in st.known_networks}), "known": sorted({str(x) for x in st.known_hosts}),
                              "controlled": sorted({str(x) for x in st.controlled_hosts}),
                              "data": sorted((str(k), tuple(sorted({(d.owner, d.id) for d in v}))) for k, v in st.known_data.items())}
                        mvc = {"nets": sorted({tuple(x) for x in mv["nets"]}), "known": sorted(set(mv["known"])), "controlled": sorted(set(mv["controlled"])),
                               "data": sorted((h, tuple(sorted({tuple(d) for d in ds}))) for h, ds in mv["data"])}
                        for k in rv:
                            if rv[k] != mvc[k]:
                                V.fail(f"initview:{k}", f"{role} initial view {k} = {rv[k]} but the start position gives {mvc[k]}", {"config": cfg, "role": role, "picks": picks})
                        if picks or "all_local" in cfg["coordinator"]["agents"][role]["start_position"]["controlled_hosts"]:
                            stats["wildcards"] += 1
                            if not set(rv["controlled"]) <= {str(x) for x in co._ip_to_hostname}:
                                V.fail("wildcard-invalid", "a wildcard resolved to a host that is not in the scenario", {"config": cfg, "role": role})
                            if any(p not in wi["startHosts"] for p in picks):
                                V.fail("random-invalid", "'random' resolved to a host that is not a start host of the scenario", {"config": cfg, "picks": picks})
                    if not real["firewall"] and co._ip_to_hostname:
                        # firewall switched off (or absent: the documented default): every host may connect to every host, itself included
                        hosts = list(co._ip_to_hostname)
                        closed = [(str(a), str(b)) for a in hosts for b in hosts if b not in co._firewall.get(a, ())]
                        if closed:
                            V.fail("setting:firewall-off-not-open", f"use_firewall is {cfg['env'].get('use_firewall', 'absent')} but {len(closed)} connections are not allowed, e.g. {closed[:3]}", {"config": cfg})
                    # (d) second episode: the start positions (wildcards included) still resolve to hosts that exist - also
                    # after the addresses were re-labelled by the reset
                    joined = [cid for cid in range(2) if ("127.0.0.1", 40000 + cid) in co._agent_states]
                    if joined and len(joined) == min(2, S["required"]) and S["required"] <= 2:
                        sim.outputs()
                        for cid in joined:
                            sim.send(cid, CC.J(ActionType.ResetGame, request_trajectory=False))
                        stats["second_episodes"] = stats.get("second_episodes", 0) + 1
                        for cid in joined:
                            role = roles_order[cid]
                            st = co._agent_states.get(("127.0.0.1", 40000 + cid))
                            if st is None:
                                continue
                            ghosts = sorted(str(x) for x in (set(st.known_hosts) | set(st.controlled_hosts)) if x not in co._ip_to_hostname)
                            sp = cfg["coordinator"]["agents"][role]["start_position"]
                            listed_invalid = [x for k in ("known_hosts", "controlled_hosts") for x in sp.get(k, []) if x not in ("random", "all_local") and IP(x) not in (getattr(co, "_ip_mapping", None) or {IP(x): 1}) and IP(x) not in co._ip_to_hostname]
                            if ghosts and not listed_invalid:
                                V.fail("second-episode-ghosts", f"after a reset the {role} start position resolves to hosts {ghosts[:6]} that do not exist in the network (dynamic addresses: {S['dynamic']})",
                                       {"config": cfg, "role": role})
                    if len(stats["samples"]) < 2:
                        stats["samples"].append({"config": cfg, "parsed_settings": real})
                finally:
                    sim.close()
            # (c2) the built-in start position of the Benign role (three 'random' hosts): on every shipped scenario - also one with
            # a single start host - a Benign agent joins and controls start hosts of the scenario
            for sc in ("scenario1_small", "scenario1", "three_nets"):
                bcfg, _ = gen_cfg(rng)
                bcfg["env"].update({"scenario": sc, "required_players": 1, "use_dynamic_addresses": False})
                sim = Sim(bcfg)
                try:
                    if sim.startup_error is not None or sim.server_cb is None:
                        continue
                    sim.connect(0)
                    sim.send(0, CC.J(ActionType.JoinGame, agent_info=AgentInfo("b0", "Benign")))
                    st = sim.coord._agent_states.get(("127.0.0.1", 40000))
                    stats["joins"] += 1
                    starts = {str(x) for x in sim.coord.hosts_to_start}
                    if st is None or not st.controlled_hosts or not {str(x) for x in st.controlled_hosts} <= starts:
                        V.fail("benign-join:" + sc, f"a Benign agent (built-in start position: three 'random' hosts) joining {sc} (start hosts {sorted(starts)}) "
                               f"{'got no initial view' if st is None else 'controls ' + str(sorted(map(str, st.controlled_hosts)))}: {[repr(u.get('exception'))[:100] for u in sim.loop.unhandled][-1:]}",
                               {"config": bcfg, "role": "Benign"})
                finally:
                    sim.close()
            # (c3) the global-defender switch, in what the game does
            CC.probe_defender_switch(lambda tags, sig, desc, rep: V.fail(sig, desc, rep) if "C19" in tags else None, cstats)
            # (d2) the documented 'all_attackers' keyword of the Defender goal
            CC.probe_all_attackers_goal(lambda tags, sig, desc, rep: V.fail(sig, desc, rep) if "C19" in tags else None, cstats)
            # (e) behaviour: sessions whose model settings come from the file through the model's reader
            tabs = info["tables"]["defender"]

            pending = []

            def on_fail(tags, sig, desc, rep):
                pending.append((tags, sig, desc, rep))

            def cfg_gen(r):
                return CC.gen_config(r)
            cfg_gen.variants = True
            orig_settings_of = CC.settings_of

            def settings_from_file(coord):
                s = orig_settings_of(coord)
                fcfg = copy.deepcopy(coord.task_config.config)
                rw = (fcfg.get("env") or {}).get("rewards")
                if isinstance(rw, dict):     # the model's reader works on integers: hand it the rewards in units of 1/REWARD_SCALE
                    for k in list(rw):
                        rw[k] = CC.scaled(rw[k])
                m = drv.ask({"op": "config", "cfg": fcfg, **validity(fcfg)})["settings"]
                s.update({"required": m["required"], "maxSteps": {"Attacker": m["maxStepsAttacker"], "Defender": m["maxStepsDefender"], "Benign": None},
                          "rStep": m["rStep"], "rSuccess": m["rSuccess"], "rFail": m["rFail"], "defender": m["defender"], "storeTraj": m["saveTraj"]})
                return s
            CC.settings_of = settings_from_file
            try:
                CC.run_sessions(drv, rng, tabs, on_fail, cstats, 70 if tier == "quick" else 700, 40, {"outcome_mix": True, "leave": 0.03, "bad": 0.02, "early_reset": 0.08, "roles": ["Attacker", "Attacker", "Defender"]})
                CC.directed_late_joiner(drv, rng, tabs, on_fail, cstats, 10 if tier == "quick" else 150)
            finally:
                CC.settings_of = orig_settings_of
            # a disagreement belongs to C19 only if it disappears when the model takes its settings from what
            # the running coordinator says it uses (then the game does not honour the file); otherwise it is
            # some other property's business
            seen = {}
            for tags, sig, desc, rep in pending:
                about_setting = ("TimeoutReached" in desc or sig.startswith(("reward:", "maxsteps", "state:startEv", "files-", "agent:reward")))
                if "events" not in rep:          # a statement about the configuration itself
                    if "C19" in tags:
                        V.fail("behaviour:" + sig, desc, rep)
                    continue
                if "C19" in tags or about_setting:
                    V.fail("behaviour:" + sig, "the game does not behave as the configuration file says: " + desc, rep)
                    continue
                key = json.dumps(rep.get("events", []), sort_keys=True)[:2000]
                if key not in seen:
                    again = []
                    sess = CC.Session(drv, random.Random(0), rep["config"], tabs, lambda t, s_, d, r: again.append(s_), {}, "recheck")
                    try:
                        CC.replay_events(sess, rep["events"])
                    finally:
                        sess.close()
                    seen[key] = bool(again)
                if not seen[key]:
                    V.fail("behaviour:" + sig, "the game does not behave as the configuration file says: " + desc, rep)
        finally:
            drv.close()
    code, nviol = V.finish()
    cov = {"obligations": info.get("obligations", 0), "discharged": info.get("discharged", 0),
           "checker_cmd": "lake build NSG.Properties.C19 && lake env lean <#print axioms of every theorem>",
           "trusted_base": TRUSTED_BASE + ["yaml.safe_load; validity of address strings taken from netaddr and passed to the model"],
           "theorems": info.get("theorems", []), "axioms_seen": info.get("axioms_seen", []),
           "evaluations": stats["configs"] + cstats.get("events", 0), "distinct_nontrivial": len(stats["nontrivial"]),
           "rule": "random configurations over the documented keys (every subset of the optional settings; start positions and goals with networks, hosts, controlled hosts incl. 'random'/'all_local', datapoints) on three scenarios: parsed sections, scalar settings, server limit and the initial view of a joining Attacker/Defender compared with the model; then sessions with the model's settings read from the file; non-trivial = a non-empty parsed section (distinct by content)",
           "samples": stats["samples"][:1], "joins": stats["joins"], "wildcard_resolutions": stats["wildcards"], "absent_optional_keys": stats["absent_keys"],
           "session_events": cstats.get("events", 0), "proof_failures": V.proof_failures}
    write_evidence("C19", tier, "proof", cov, T.s(), nviol,
                   ["sections list the documented keys; the only omission generated is known_blocks of a start position (never read by the game): a file without it may be refused at start-up, "
                    "but once the game runs with it the listed hosts, networks and data must be in the initial view",
                    "known_services / known_blocks of a start position or goal are only required to be accepted (they are not in the property's list)",
                    "values of the documented types only (integers for max_steps/rewards/required_players, booleans for switches)"])
    return code


if __name__ == "__main__":
    from .common import guarded
    sys.exit(guarded("C19", sys.argv[2] if len(sys.argv) > 2 else "quick", lambda: main(sys.argv[2] if len(sys.argv) > 2 else "quick")))
