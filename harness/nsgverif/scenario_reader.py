"""Independent, deliberately plain reading of CYST configuration objects into the scenario
description the Lean loader model (`NSG.load`) takes.  Nothing of the world's loader is reused."""
from __future__ import annotations

import ipaddress

from . import cyst_compat  # noqa: F401
from cyst.api.configuration import NodeConfig, RouterConfig, FirewallPolicy


def _n(ip):
    return int(ipaddress.IPv4Address(str(ip)))


def _net(s):
    a, m = str(s).split("/")
    return [int(ipaddress.IPv4Address(a)), int(m)]


def _ifaces(o):
    return [{"ip": _n(i.ip), "net": _net(i.net)} for i in o.interfaces]


def scenario_json(objects):
    nodes, routers = [], []
    for o in objects:
        if isinstance(o, NodeConfig):
            svcs = []
            for s in o.passive_services:
                data = [[d.owner, d.description] for d in (getattr(s, "private_data", None) or [])]
                svcs.append({"name": s.name, "version": s.version, "local": bool(s.local), "data": data})
            nodes.append({"id": o.id, "ifaces": _ifaces(o), "services": svcs})
        elif isinstance(o, RouterConfig):
            rules = []
            for tp in o.traffic_processors:
                for ch in tp.chains:
                    for r in ch.rules:
                        rules.append({"src": _net(r.src_net), "dst": _net(r.dst_net), "allow": r.policy == FirewallPolicy.ALLOW})
            routers.append({"id": o.id, "internet": str(o.id).lower() == "internet", "ifaces": _ifaces(o), "rules": rules})
    return {"nodes": nodes, "routers": routers}
