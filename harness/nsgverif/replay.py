"""bin/check Cxx --replay FILE : re-executes a stored failing input against the current /repo tree and
the model, and says whether it still fails (exit 1 + VIOLATION line) or not (exit 0)."""
from __future__ import annotations

import json
import random
import sys

from . import cyst_compat  # noqa: F401
from .common import Driver, regenerate_tables
from . import canon as C


def main(prop, path):
    doc = json.load(open(path))
    rep = doc.get("replay", doc)
    kind = rep.get("kind")
    print(f"replaying {kind or 'record'} for {prop}: {doc.get('what', '')[:300]}")
    fails = []
    drv = Driver()
    try:
        if kind == "world-step":
            from . import check_world as CW
            w = CW.world_from_tables(rep["world"])
            drv.ask({"op": "world", "world": rep["world"]})
            view, act = C.j2view(rep["view"]), C.j2action(rep["action"])
            try:
                from .worldgen import world_step
                new = world_step(w, view, act)
                raised = None
            except Exception as e:
                new, raised = None, repr(e)
            m = drv.ask({"op": "step", "view": rep["view"], "action": rep["action"]})
            print("  precondition (model):", m["pre"], "guards:", m["guards"], "| real raised:", raised, "| model raised:", m["raised"])
            if bool(raised) != bool(m["raised"]):
                fails.append("raise behaviour differs")
            elif new is not None:
                rv, mv = C.canon_view(C.view2j(new)), C.canon_view(m["view"])
                d = C.diff_canon(rv, mv) + ["world." + k for k in C.diff_canon(C.canon_worlddyn(C.worlddyn2j(w)), C.canon_worlddyn(m["world"]))]
                if d:
                    fails.append(f"real result differs from the proved effect in {d}")
                    for k in d:
                        if not k.startswith("world."):
                            print(f"    {k}: real {rv[k]}\n    {' ' * len(k)}  model {mv[k]}")
        elif kind == "coord-session":
            from . import check_coord as CC
            tabs, err = regenerate_tables()
            stats = {}
            def fail(tags, sig, desc, r):
                fails.append(f"[{','.join(sorted(tags))}] {desc}")
            sess = CC.Session(drv, random.Random(0), rep["config"], tabs["defender"], fail, stats, "replay")
            try:
                CC.replay_events(sess, rep["events"])
                # the trajectory files written during the session are part of what is judged
                if sess.settings.get("storeTraj") and not sess.diverged and not sess.broken:
                    CC.check_files(sess, fail, stats)
            finally:
                sess.close()
        elif kind == "goal":
            from . import check_coord as CC
            from .sim import Sim, default_config
            m = drv.ask({"op": "goal", "goal": rep["goal"], "view": rep["view"]})
            print("  stored real verdict:", rep.get("real"), "| model now:", m["goal"])
            if rep.get("real") != m["goal"]:
                fails.append("goal verdict differs (re-run the check for a fresh real verdict)")
        elif kind in ("action-decode", "action-roundtrip"):
            from AIDojoCoordinator.game_components import Action
            from .run_codec import validity, norm
            j = rep["json"]
            try:
                b = Action.from_json(json.dumps(j)); ok = True
            except Exception as e:
                b, ok = repr(e), False
            m = drv.ask({"op": "decode", "j": j, **validity(j)})
            print("  real decoder:", "accepts -> " + str(b.as_dict) if ok else "refuses (" + str(b) + ")", "| model:", m)
            if ok != m["ok"] or (ok and norm(b.as_dict) != norm(m["action"])):
                fails.append("decoder and model disagree")
        else:
            # no dedicated re-executor for this kind of record: the check that produced it is deterministic for a given seed,
            # so it is run again (same tier and seed) and the same signature is looked for
            import os
            import re
            import subprocess
            print(json.dumps(rep, indent=1, default=str)[:1500])
            sig = doc.get("signature")
            env = dict(os.environ, VERIF_SEED=str(doc.get("seed", 0)))
            here = os.path.dirname(os.path.dirname(os.path.dirname(os.path.abspath(__file__))))
            r = subprocess.run([os.path.join(here, "bin", "check"), prop, "--tier", str(doc.get("tier", "quick"))], capture_output=True, text=True, env=env, timeout=7200)
            name = re.sub(r"[^A-Za-z0-9_.-]+", "_", sig or "")[:80]
            again = [ln for ln in r.stdout.splitlines() if ln.startswith("VIOLATION") and (name and name + ".json" in ln)]
            print(f"  re-ran bin/check {prop} --tier {doc.get('tier', 'quick')} with VERIF_SEED={doc.get('seed', 0)}: exit {r.returncode}, signature {'reported again' if again else 'not reported'}")
            if again:
                fails.append(f"the check reports the same signature again: {sig}")
    finally:
        drv.close()
    if fails:
        print(f"VIOLATION property={prop} replay={path}")
        for f in fails[:5]:
            print("  " + f[:400])
        return 1
    print("  does not fail on the current tree")
    return 0


if __name__ == "__main__":
    sys.exit(main(sys.argv[1], sys.argv[2]))
