"""C13 - dynamic addresses re-label the network without changing it.

After every real reset with use_dynamic_addresses the published maps are read and
 (1) the draw is validated: one-to-one, private stays private and keeps its distance to the lowest
     private network, public stays public, masks kept, every address inside its network and not the
     network address;
 (2) every world table equals the initial table pushed through the maps (node identity, services,
     data, network membership, allowed connections, start hosts);
 (3) start positions, win conditions and the goal description follow the same maps;
 (4) a fixed action script, translated through the maps, yields the translated observations of the
     static game, and the world behaves like the model on the re-labelled tables (walks).
The Lean side (Properties/C13) proves that the model's step is equivariant under such a re-labelling.
"""
from __future__ import annotations

import copy
import ipaddress
import json
import random
import re
import sys

from . import cyst_compat  # noqa: F401
import netaddr
from AIDojoCoordinator.game_components import Action, ActionType, AgentInfo, IP, Network, Service, Data, GameState
from .common import Driver, Timer, Verdict, lean_gate, write_evidence, seed, TRUSTED_BASE
from .sim import Sim, default_config, parse_reply
from . import canon as C
from . import check_coord as CC
from . import check_world as CW
from .worldgen import world_step

SCEN_START = {"scenario1_small": ["213.47.23.195", "192.168.2.2"], "scenario1": ["213.47.23.195", "192.168.2.2", "192.168.2.4"],
              "three_nets": ["213.47.23.195", "192.168.2.2", "192.168.3.2"]}


def private(addr: str):
    return netaddr.IPAddress(addr).is_ipv4_private_use()


def dyn_config(rng, scenario, role_start=None):
    cfg = default_config(env={"scenario": scenario, "use_dynamic_addresses": True, "required_players": 1, "use_firewall": True})
    att = cfg["coordinator"]["agents"]["Attacker"]
    start = list(SCEN_START[scenario])
    att["start_position"]["controlled_hosts"] = start
    att["start_position"]["known_hosts"] = [start[-1]]
    att["start_position"]["known_networks"] = ["192.168.1.0/24"]
    att["goal"] = {"description": f"Exfiltrate data from 192.168.1.2 to '213.47.23.195' via {start[1]} (not 192.168.1.22)",
                   "known_networks": rng.choice([[], ["192.168.1.0/24"], ["213.47.23.192/26"], ["192.168.1.0/24", "213.47.23.192/26"]]), "known_hosts": rng.choice([[], ["192.168.1.2"]]),
                   "controlled_hosts": rng.choice([[], ["192.168.1.2"]]),
                   "known_services": {}, "known_data": {"213.47.23.195": [["User1", "DataFromServer1"]]}, "known_blocks": rng.choice([{}, {"192.168.2.2": ["192.168.1.4"]}])}
    att["max_steps"] = 100
    dfd = cfg["coordinator"]["agents"]["Defender"]
    dfd["start_position"]["controlled_hosts"] = rng.choice([["192.168.1.2"], ["all_local"]])
    return cfg


from .canon import tables, push  # noqa: E402,F401


def validate_draw(t0, sig, tau):
    errs = []
    if len(set(sig.values())) != len(sig):
        errs.append("address map is not one-to-one")
    if len(set(tau.values())) != len(tau):
        errs.append("network map is not one-to-one")
    priv = sorted((k for k in tau if private(k.split("/")[0])), key=lambda n: netaddr.IPNetwork(n))
    for k, v in tau.items():
        if k.split("/")[1] != v.split("/")[1]:
            errs.append(f"mask of {k} changed: {v}")
        if private(k.split("/")[0]) != private(v.split("/")[0]):
            errs.append(f"{k} ({'private' if private(k.split('/')[0]) else 'public'}) mapped to {v}")
    if priv:
        b0, b1 = int(netaddr.IPNetwork(priv[0]).ip), int(netaddr.IPNetwork(tau[priv[0]]).ip)
        for k in priv[1:]:
            d0 = int(netaddr.IPNetwork(k).ip) - b0
            d1 = int(netaddr.IPNetwork(tau[k]).ip) - b1
            if d0 != d1:
                errs.append(f"distance of {k} to the lowest private network changed: {d0} -> {d1}")
    for net, hosts in t0["nets"].items():
        n1 = netaddr.IPNetwork(tau[net])
        for h in hosts:
            a = netaddr.IPAddress(sig[h])
            if a not in n1:
                errs.append(f"{h} -> {sig[h]} lies outside {tau[net]}")
            if int(a) == int(n1.network) and n1.prefixlen < 31:
                errs.append(f"{h} -> {sig[h]} is the network address of {tau[net]}")
    return errs


def map_view(v: GameState, sig, delta):
    """translate a static-game view: addresses through sig, private networks shifted by delta, public through tau"""
    def ip(x):
        return IP(sig[str(x)])
    def net(n):
        s = str(n)
        if s in delta["tau"]:
            t = delta["tau"][s]
            return Network(t.split("/")[0], int(t.split("/")[1]))
        # synthetic neighbour network: all private networks move by the same offset
        a = int(netaddr.IPAddress(n.ip)) + delta["offset"]
        return Network(str(netaddr.IPAddress(a)), n.mask)
    return GameState(controlled_hosts={ip(x) for x in v.controlled_hosts}, known_hosts={ip(x) for x in v.known_hosts},
                     known_services={ip(k): set(s) for k, s in v.known_services.items()},
                     known_data={ip(k): set(s) for k, s in v.known_data.items()},
                     known_networks={net(n) for n in v.known_networks},
                     known_blocks={ip(k): {ip(x) for x in s} for k, s in v.known_blocks.items()})


def map_action(a: Action, sig, delta):
    p = {}
    for k, v in a.parameters.items():
        if isinstance(v, IP):
            p[k] = IP(sig.get(str(v), str(v)))
        elif isinstance(v, Network):
            s = str(v)
            if s in delta["tau"]:
                t = delta["tau"][s]
                p[k] = Network(t.split("/")[0], int(t.split("/")[1]))
            else:
                p[k] = v
        else:
            p[k] = v
    return Action(a.type, p)


SCRIPT_TEMPLATES = [
    ("ScanNetwork", {"source_host": "192.168.2.2", "target_network": "192.168.1.0/24"}),
    ("FindServices", {"source_host": "192.168.2.2", "target_host": "192.168.1.2"}),
    ("FindServices", {"source_host": "192.168.2.2", "target_host": "192.168.1.4"}),
    ("ExploitFirst", {"source_host": "192.168.2.2", "target_host": "192.168.1.2"}),
    ("FindData", {"source_host": "192.168.2.2", "target_host": "192.168.1.2"}),
    ("ExfilFirst", {"source_host": "192.168.1.2", "target_host": "213.47.23.195"}),
    ("BlockIP", {"source_host": "192.168.2.2", "target_host": "192.168.2.2", "blocked_host": "192.168.1.4"}),
    ("FindServices", {"source_host": "192.168.2.2", "target_host": "192.168.1.4"}),
    ("FindData", {"source_host": "192.168.2.2", "target_host": "192.168.2.2"}),
]


def build_action(tpl, view: GameState, sig):
    kind, p = tpl
    ip = lambda s: IP(sig[s])
    if kind == "ScanNetwork":
        return None  # built by caller (needs tau)
    if kind in ("FindServices", "FindData"):
        return Action(ActionType.FindServices if kind == "FindServices" else ActionType.FindData, {"source_host": ip(p["source_host"]), "target_host": ip(p["target_host"])})
    if kind == "ExploitFirst":
        svcs = sorted(view.known_services.get(ip(p["target_host"]), []), key=repr)
        if not svcs:
            return Action(ActionType.FindServices, {"source_host": ip(p["source_host"]), "target_host": ip(p["target_host"])})
        return Action(ActionType.ExploitService, {"source_host": ip(p["source_host"]), "target_host": ip(p["target_host"]), "target_service": svcs[0]})
    if kind == "ExfilFirst":
        ds = sorted(view.known_data.get(ip(p["source_host"]), []), key=repr)
        if not ds:
            return Action(ActionType.FindData, {"source_host": ip(p["source_host"]), "target_host": ip(p["source_host"])})
        return Action(ActionType.ExfiltrateData, {"source_host": ip(p["source_host"]), "target_host": ip(p["target_host"]), "data": ds[0]})
    if kind == "BlockIP":
        return Action(ActionType.BlockIP, {k: ip(v) for k, v in p.items()})
    raise ValueError(kind)


def play_script(sim, cid, sig, tau):
    """plays the fixed script through the protocol; returns list of canonical views (addresses translated BACK to the static ones is done by the caller)"""
    views = []
    co = sim.coord
    addr = ("127.0.0.1", 40000 + cid)
    for tpl in SCRIPT_TEMPLATES:
        view = co._agent_states[addr]
        if tpl[0] == "ScanNetwork":
            t = tau[tpl[1]["target_network"]]
            a = Action(ActionType.ScanNetwork, {"source_host": IP(sig[tpl[1]["source_host"]]), "target_network": Network(t.split("/")[0], int(t.split("/")[1]))})
        else:
            a = build_action(tpl, view, sig)
        sim.send(cid, a.to_json().encode())
        outs = sim.outputs()
        rep = [parse_reply(p)[1] for c, k, p in outs if k == "reply"]
        if len(rep) != 1 or rep[0].get("status") != "GameStatus.OK":
            views.append(("no-ok", [r.get("status") for r in rep]))
            break
        views.append(GameState.from_dict(rep[0]["observation"]["state"]))
        if rep[0]["observation"]["end"]:
            break
    return views


def run_one(drv, rng, V, stats, scenario, n_resets, wseed):
    cfg = dyn_config(rng, scenario)
    static_cfg = copy.deepcopy(cfg)
    static_cfg["env"]["use_dynamic_addresses"] = False
    # reference: the static game
    s0 = Sim(static_cfg, seed=wseed)
    try:
        s0.connect(0)
        s0.send(0, CC.J(ActionType.JoinGame, agent_info=AgentInfo("a", "Attacker")))
        s0.outputs()
        ident_ip = {str(k): str(k) for k in s0.coord._ip_to_hostname}
        ident_net = {str(k): str(k) for k in s0.coord._networks}
        init_static = copy.deepcopy(s0.coord._agent_states[("127.0.0.1", 40000)])
        ref_views = play_script(s0, 0, ident_ip, ident_net)
        win0 = copy.deepcopy(s0.coord._win_conditions_per_role["Attacker"])
        desc0 = s0.coord._goal_description_per_role["Attacker"]
    finally:
        s0.close()
    sim = Sim(cfg, seed=wseed)
    try:
        sim.connect(0)
        sim.send(0, CC.J(ActionType.JoinGame, agent_info=AgentInfo("a", "Attacker")))
        sim.outputs()
        co = sim.coord
        t0 = tables(co)
        tie = GenTie(drv, co)
        for r in range(n_resets):
            tie.before()
            sim.send(0, CC.J(ActionType.ResetGame, request_trajectory=False))
            outs = [parse_reply(p)[1] for c, k, p in sim.outputs() if k == "reply"]
            stats["resets"] += 1
            rep = {"scenario": scenario, "seed": wseed, "config": cfg, "reset_index": r + 1}
            if len(outs) != 1 or outs[0].get("status") != "GameStatus.RESET_DONE":
                alive = sim.background_alive()
                V.fail("reset-failed", f"reset {r + 1} with dynamic addresses in {scenario} was not confirmed (reset task alive: {'_reset_game' in alive})", rep)
                return
            sig = {str(k): str(v) for k, v in co._ip_mapping.items() if k != "random"}
            tau = {str(k): str(v) for k, v in co._network_mapping.items()}
            rep["ip_map"], rep["net_map"] = sig, tau
            tie.after({"scenario": scenario, "seed": wseed, "reset_index": r + 1})
            if len([k for k in tau if private(k.split("/")[0])]) >= 2:
                stats["nontrivial"].add(json.dumps([scenario, wseed, r, sorted(tau.items())]))
            if len(stats["samples"]) < 2:
                stats["samples"].append({"scenario": scenario, "net_map": tau, "ip_map_size": len(sig)})
            for e in validate_draw(t0, sig, tau):
                V.fail("draw:" + e.split(":")[0].split(" ")[0], f"re-labelling {r + 1} in {scenario}: {e}", rep)
            exp, got = push(t0, sig, tau), tables(co)
            for k in exp:
                if exp[k] != got[k]:
                    V.fail("table:" + k, f"after re-labelling {r + 1} in {scenario} the table '{k}' is not the initial table pushed through the published maps", dict(rep, table=k, expected=exp[k], got=got[k]))
            # start position / initial view follow the maps
            priv = sorted((k for k in tau if private(k.split("/")[0])), key=lambda n: netaddr.IPNetwork(n))
            offset = int(netaddr.IPNetwork(tau[priv[0]]).ip) - int(netaddr.IPNetwork(priv[0]).ip) if priv else 0
            delta = {"tau": tau, "offset": offset}
            fresh = GameState.from_dict(outs[0]["observation"]["state"])
            want = map_view(init_static, sig, delta)
            if fresh != want:
                d = [f for f in ("controlled_hosts", "known_hosts", "known_networks", "known_data", "known_services", "known_blocks") if getattr(fresh, f) != getattr(want, f)]
                V.fail("start-view:" + ",".join(d), f"after re-labelling {r + 1} the fresh initial view differs from the translated start position in {d}", dict(rep, got=C.view2j(fresh), want=C.view2j(want)))
            # win conditions and goal text follow the maps
            win = co._win_conditions_per_role["Attacker"]
            wexp = {"known_networks": {Network(delta["tau"][str(n)].split("/")[0], int(delta["tau"][str(n)].split("/")[1])) for n in win0["known_networks"]},
                    "known_hosts": {IP(sig[str(x)]) for x in win0["known_hosts"]}, "controlled_hosts": {IP(sig[str(x)]) for x in win0["controlled_hosts"]},
                    "known_data": {IP(sig[str(k)]): set(v) for k, v in win0["known_data"].items()},
                    "known_blocks": {IP(sig[str(k)]): {IP(sig[str(x)]) for x in v} for k, v in win0["known_blocks"].items()}}
            for k, e in wexp.items():
                g = win[k]
                g = {kk: set(vv) for kk, vv in g.items()} if isinstance(g, dict) else set(g)
                if g != e:
                    V.fail("goal:" + k, f"after re-labelling {r + 1} the win condition part {k} = {g} is not the translated goal {e}", rep)
            dexp = re.sub(r"\b(?:[0-9]{1,3}\.){3}[0-9]{1,3}\b", lambda mm: sig.get(mm.group(0), mm.group(0)), desc0)
            if co._goal_description_per_role["Attacker"] != dexp:
                V.fail("goal-description", f"goal description after re-labelling {r + 1}: {co._goal_description_per_role['Attacker']!r}, translated original: {dexp!r}", rep)
            # the translated script yields the translated observations
            if r % 2 == 0:
                views = play_script(sim, 0, sig, tau)
                stats["scripts"] += 1
                if len(views) != len(ref_views):
                    V.fail("script-length", f"translated script stopped after {len(views)} steps, the static game after {len(ref_views)}", rep)
                for i, (a, b) in enumerate(zip(ref_views, views)):
                    if isinstance(a, tuple) or isinstance(b, tuple):
                        if a != b:
                            V.fail("script-status", f"step {i}: static {a} vs re-labelled {b}", rep)
                        break
                    if map_view(a, sig, delta) != b:
                        d = [f for f in ("controlled_hosts", "known_hosts", "known_networks", "known_data", "known_services", "known_blocks") if getattr(map_view(a, sig, delta), f) != getattr(b, f)]
                        V.fail("script-view:" + ",".join(d), f"step {i} of the translated script after re-labelling {r + 1}: observation differs from the translated static observation in {d}", rep)
                        break
            # every network scanned from every start host on the new addresses: what the scan reveals is what the model reveals on the
            # re-labelled tables (a host may sit on ANY address of its new network, the last one included)
            drv.ask({"op": "world", "world": C.world2j(co)})
            v_now = co._agent_states[("127.0.0.1", 40000)]
            for net in sorted(co._networks, key=str):
                for src in sorted(v_now.controlled_hosts, key=str)[:2]:
                    act = Action(ActionType.ScanNetwork, {"source_host": src, "target_network": net})
                    m = drv.ask({"op": "step", "view": C.view2j(v_now), "action": C.action2j(act)})
                    stats["walk_steps"] += 1
                    try:
                        nv = world_step(co, v_now, Action.from_json(act.to_json()))
                    except Exception as e:
                        if not m["raised"]:
                            V.fail("scan-after-relabel-refused", f"after re-labelling {r + 1} in {scenario}, scanning the network {net} exactly as it is labelled now (from {src}) cannot be processed: {e!r}",
                                   dict(rep, view=C.view2j(v_now), action=C.action2j(act)))
                        break
                    if m["raised"] or C.canon_view(m["view"]) != C.canon_view(C.view2j(nv)):
                        lost = sorted(set(map(str, C.canon_view(m["view"])["known"])) ^ set(map(str, C.canon_view(C.view2j(nv))["known"]))) if not m["raised"] else []
                        V.fail("scan-after-relabel", f"after re-labelling {r + 1} in {scenario}, scanning {net} from {src} does not reveal what the model reveals on the re-labelled tables (hosts in one result only: {[str(C.n2ip(int(x))) for x in lost][:4]})",
                               dict(rep, view=C.view2j(v_now), action=C.action2j(act)))
                        break
            # the world on the new addresses behaves like the model on the re-labelled tables
            if r % 3 == 1:
                drv.ask({"op": "world", "world": C.world2j(co)})
                g = CW.Gen(rng, co)
                v = co._agent_states[("127.0.0.1", 40000)]
                for _ in range(12):
                    act = g.action(v, singling=0.2)
                    try:
                        nv = world_step(co, v, act)
                    except Exception:
                        break
                    m = drv.ask({"op": "step", "view": C.view2j(v), "action": C.action2j(act)})
                    stats["walk_steps"] += 1
                    if m["raised"] or C.canon_view(m["view"]) != C.canon_view(C.view2j(nv)) or C.canon_worlddyn(m["world"]) != C.canon_worlddyn(C.worlddyn2j(co)):
                        V.fail("walk:" + C.action2j(act)["t"], f"on the re-labelled network the world's result differs from the model's on the re-labelled tables", dict(rep, view=C.view2j(v), action=C.action2j(act)))
                        break
                    v = nv
    finally:
        sim.close()


class GenTie:
    """Correspondence of the generator's network arithmetic with the model function `NSG.relabelPrivate` (theorem
    `C13_generator`): the value drawn by `fake.ipv4_private()` is recorded, and after every re-labelling the new private
    networks must be what the model computes from (that value, the private networks before, lowest first)."""
    mismatches = []      # (description, replay) - a broken correspondence, reported if no concrete failing input is found
    compared = 0
    fallbacks = 0
    host_draws = 0
    draws_total = 0
    last_address_forced = 0
    coin = random.Random(20261001)

    def __init__(self, drv, world):
        self.drv, self.w = drv, world
        self.draws = []
        fk = world._faker_object
        orig = fk.ipv4_private

        def rec(*a, **k):
            x = orig(*a, **k)
            self.draws.append(str(x))
            return x
        try:
            fk.ipv4_private = rec
            self.ok = True
        except Exception:
            self.ok = False

    def before(self):
        import random as _random
        self._unpatch()
        self.cum_prev = {str(k): str(v) for k, v in getattr(self.w, "_network_mapping", {}).items()}
        self.cum_prev_ip = {str(k): str(v) for k, v in getattr(self.w, "_ip_mapping", {}).items() if k != "random"}
        self.nets_before = [(str(n), [str(x) for x in ips]) for n, ips in self.w._networks.items()]
        del self.draws[:]
        self.shuffles = []
        self._orig_shuffle = _random.shuffle

        def rec(lst, *a, **k):
            self._orig_shuffle(lst, *a, **k)
            # any permutation is a possible outcome of the shuffle: now and then the LAST address of the network is moved to the
            # front, so that a host receives it (the generator's own random stream is not touched)
            if len(lst) > 1 and GenTie.coin.random() < 0.25:
                try:
                    i = lst.index(max(lst))
                    lst[0], lst[i] = lst[i], lst[0]
                    GenTie.last_address_forced += 1
                except Exception:
                    pass
            self.shuffles.append([str(x) for x in lst[:64]])
        _random.shuffle = rec

    def _unpatch(self):
        import random as _random
        if getattr(self, "_orig_shuffle", None) is not None:
            _random.shuffle = self._orig_shuffle
            self._orig_shuffle = None

    def after(self, rep):
        self._unpatch()
        if not self.ok:
            return
        # host addresses: the hosts of every network get the first entries of the shuffled address list of its new network
        # (model function drawIPs, theorem C13_addresses_one_to_one)
        if len(self.shuffles) == len(self.nets_before) and all(len(ips) <= 64 for _, ips in self.nets_before):
            n2 = lambda a: int(netaddr.IPAddress(a))
            cum_ip = {str(k): str(v) for k, v in self.w._ip_mapping.items() if k != "random"}
            back = {v: k for k, v in self.cum_prev_ip.items()}      # current-before -> original
            m = self.drv.ask({"op": "draw_ips", "parts": [[[n2(x) for x in ips], [n2(x) for x in sh]] for (_, ips), sh in zip(self.nets_before, self.shuffles)]})
            model = {a: b for a, b in m.get("map", [])}
            real = {n2(x): n2(cum_ip[back.get(x, x)]) for _, ips in self.nets_before for x in ips if back.get(x, x) in cum_ip}
            GenTie.host_draws += 1
            if model != real:
                bad = sorted(k for k in set(model) | set(real) if model.get(k) != real.get(k))[:3]
                GenTie.mismatches.append((f"host addresses: the game maps {[str(netaddr.IPAddress(k)) for k in bad]} to {[str(netaddr.IPAddress(real[k])) if k in real else None for k in bad]}, "
                                          f"the model function drawIPs (hosts zipped with the shuffled address list) to {[str(netaddr.IPAddress(model[k])) if k in model else None for k in bad]}", dict(rep, hosts=bad)))
        cum = {str(k): str(v) for k, v in self.w._network_mapping.items()}
        step = {self.cum_prev.get(k, k): v for k, v in cum.items()}
        privs = [n for n in step if netaddr.IPNetwork(n).ip.is_ipv4_private_use()]      # in the order of the game's table: the model sorts them itself
        if not privs or not self.draws:
            return
        if all(step[p] == p for p in privs):
            GenTie.fallbacks += 1       # no placement found: the current private networks are kept
        j = lambda n: [int(netaddr.IPAddress(n.split("/")[0])), int(n.split("/")[1])]
        # the whole retry loop (theorems relabelLoop_spec / relabelLoop_private): all values drawn during this reset, in order
        m = self.drv.ask({"op": "relabel_loop", "draws": [int(netaddr.IPAddress(d)) for d in self.draws], "nets": [j(p) for p in privs]})
        GenTie.compared += 1
        GenTie.draws_total += len(self.draws)
        real = sorted([j(p), j(step[p])] for p in privs)
        if sorted(m.get("map", [])) != real:
            GenTie.mismatches.append((f"private networks {privs} with drawn values {self.draws[-12:]}: the game maps them to {[step[p] for p in privs]}, "
                                      f"the model of the retry loop (sortNets, relabelLoop) to {[str(netaddr.IPAddress(b[0])) + '/' + str(b[1]) for a, b in m.get('map', [])]}",
                                      dict(rep, drawn=self.draws[-12:], private_before=privs, private_after=[step[p] for p in privs])))


# generated scenarios on which a re-labelling once failed (kept as a corpus that runs first)
GENERATED_CORPUS = [(439108476, 1),      # 192.168.1.0/26 + 192.168.2.0/23: the /23 was moved to an address that is not a multiple of its size (fixed in 9086a03)
                    (439108476, 42), (439108476, 7)]


def run_generated(rng, V, stats, n_scenarios, n_resets, drv=None):
    """Generated topologies (1-4 networks, private ones of mixed prefix lengths, in one or several RFC 1918 blocks,
    public ones, routers and firewall rules): consecutive re-labellings of the bare world; every draw validated and
    every table compared with the initial table pushed through the published maps."""
    import builtins
    from .worldgen import gen_scenario, make_world, world_reset

    def no_exit(code=0):
        raise RuntimeError(f"exit({code}) called")
    orig_exit = builtins.exit
    builtins.exit = no_exit
    try:
        for i in range(len(GENERATED_CORPUS) + n_scenarios):
            # past failures first: (scenario seed, world seed)
            s, ws = GENERATED_CORPUS[i] if i < len(GENERATED_CORPUS) else (rng.randrange(1 << 30), rng.choice([42, 1, 7]))
            objs = gen_scenario(random.Random(s), one_spelling=True)
            rep = {"kind": "generated", "scenario_seed": s, "world_seed": ws}
            try:
                w = make_world(objects=objs, dynamic=True, seed=ws)
            except Exception as e:
                continue
            if not w._ip_to_hostname:
                continue
            t0 = tables(w)
            privs = [k for k in t0["nets"] if private(k.split("/")[0])]
            stats["generated_scenarios"] = stats.get("generated_scenarios", 0) + 1
            if len({k.split("/")[1] for k in privs}) > 1:
                stats["generated_mixed_prefix"] = stats.get("generated_mixed_prefix", 0) + 1
            tie = GenTie(drv, w) if drv is not None else None
            for r in range(n_resets):
                if tie:
                    tie.before()
                try:
                    world_reset(w)
                except BaseException as e:
                    V.fail("generated:reset-raises", f"re-labelling {r + 1} of a generated scenario (networks {sorted(t0['nets'])}) raised {e!r}", rep)
                    break
                stats["resets"] += 1
                sig = {str(k): str(v) for k, v in w._ip_mapping.items() if k != "random"}
                tau = {str(k): str(v) for k, v in w._network_mapping.items()}
                if tie:
                    tie.after(dict(rep, reset_index=r + 1))
                if len(privs) >= 2:
                    stats["nontrivial"].add(json.dumps(["generated", s, r, sorted(tau.items())]))
                try:
                    errs = validate_draw(t0, sig, tau)
                    exp, got = push(t0, sig, tau), tables(w)
                    errs += [f"table '{k}' is not the initial table pushed through the published maps" for k in exp if exp[k] != got[k]]
                except Exception as e:
                    errs = [f"published maps are incomplete: {e!r}"]
                if errs:
                    V.fail("generated:" + errs[0].split(":")[0].split(" ")[0], f"re-labelling {r + 1} of a generated scenario (networks {sorted(t0['nets'])}): {errs[0]}", dict(rep, net_map=tau, errors=errs[:5]))
                    break
    finally:
        builtins.exit = orig_exit


def main(tier):
    T = Timer()
    V = Verdict("C13")
    mods = ["NSG.Properties.C13", "NSG.Properties.C13Goal", "NSG.Properties.C13Gen"]
    ok, info = lean_gate(mods)
    if not ok:
        for f in info["failures"]:
            V.proof_fail(f)
    stats = {"resets": 0, "nontrivial": set(), "samples": [], "scripts": 0, "walk_steps": 0}
    if info.get("build_ok"):
        rng = random.Random(7919 * seed() + 13)
        drv = Driver()
        try:
            runs = [("scenario1_small", 40), ("scenario1", 25), ("three_nets", 40)] if tier == "quick" else [("scenario1_small", 60), ("scenario1", 40), ("three_nets", 60)] * 4
            for sc, n in runs:
                run_one(drv, rng, V, stats, sc, n, rng.choice([42, 1, 7, 1234]) + (seed() if tier != "quick" else 0))
            run_generated(rng, V, stats, 250 if tier == "quick" else 3000, 4, drv)
            # coordinator level: what agents are SENT under dynamic addresses (start views in the current labelling, also for
            # a player that joins while the re-labelling reset completes; tables after every completed reset)
            if info.get("tables"):
                def cfail(tags, sig, desc, rep):
                    if "C13" in tags:
                        V.fail("coord:" + sig, desc, rep)
                cstats = {"focus": "C13"}
                CC.directed_races(drv, rng, info["tables"]["defender"], cfail, cstats, 24 if tier == "quick" else 300)
                CC.directed_late_joiner(drv, rng, info["tables"]["defender"], cfail, cstats, 10 if tier == "quick" else 150)
                CC.run_sessions(drv, rng, info["tables"]["defender"], cfail, cstats, 30 if tier == "quick" else 400, 40,
                                {"burst": 0.25, "leave": 0.06, "bad": 0.01, "early_reset": 0.15, "force_env": {"use_dynamic_addresses": True}})
                stats["coordinator_events"] = cstats.get("events", 0)
                stats["coordinator_resets_dynamic"] = cstats.get("resets_done_dynamic", 0)
        finally:
            drv.close()
    if GenTie.mismatches and not V.failures:
        # the generator no longer corresponds to the model function the theorem is about, and no draw with a concrete defect
        # (collision, address outside its network, lost privacy or distance) was found in this run
        V.proof_fail("correspondence NSG.relabelPrivate (theorem C13_generator) <-> NSGCoordinator._create_new_network_mapping: " + GenTie.mismatches[0][0])
    code, nviol = V.finish()
    cov = {"obligations": info.get("obligations", 0), "discharged": info.get("discharged", 0),
           "generator_draws_compared": GenTie.compared, "generator_values_drawn": GenTie.draws_total, "generator_host_draws_compared": GenTie.host_draws, "shuffles_with_last_address_first": GenTie.last_address_forced, "generator_fallbacks": GenTie.fallbacks, "generator_mismatches": len(GenTie.mismatches),
           "checker_cmd": "lake build NSG.Properties.C13 NSG.Properties.C13Goal NSG.Properties.C13Gen && lake env lean <#print axioms of every theorem>",
           "trusted_base": TRUSTED_BASE + ["Faker / random as seeded oracles: the value drawn for the private networks is recorded and fed to the model generator (relabelPrivate); public networks and host addresses inside each network are validated on every reset rather than modelled"],
           "theorems": info.get("theorems", []), "axioms_seen": info.get("axioms_seen", []),
           "evaluations": stats["resets"], "distinct_nontrivial": len(stats["nontrivial"]),
           "rule": "consecutive resets with use_dynamic_addresses on the three shipped scenarios and on generated topologies (bare world: draws and tables only); per reset: draw validated, all tables compared with the initial tables pushed through the published maps, start view / win conditions / goal text compared with their translations, a translated 9-step script compared with the static game, model walks on the re-labelled tables; non-trivial = re-labelling with >= 2 private networks (distinct maps)",
           "samples": stats["samples"][:2], "scripts_replayed": stats["scripts"], "generated_scenarios": stats.get("generated_scenarios", 0), "coordinator_session_events": stats.get("coordinator_events", 0), "coordinator_resets_with_dynamic_addresses": stats.get("coordinator_resets_dynamic", 0), "generated_mixed_prefix": stats.get("generated_mixed_prefix", 0), "model_walk_steps": stats["walk_steps"], "proof_failures": V.proof_failures}
    write_evidence("C13", tier, "proof", cov, T.s(), nviol,
                   ["public draws come from Faker and are assumed public and non-overlapping; every real draw is checked",
                    "generated scenarios: every network is written in one spelling and networks do not overlap (two spellings of one block are two networks to the loader and may be mapped onto each other)"])
    return code


if __name__ == "__main__":
    from .common import guarded
    sys.exit(guarded("C13", sys.argv[2] if len(sys.argv) > 2 else "quick", lambda: main(sys.argv[2] if len(sys.argv) > 2 else "quick")))
