"""Translator: regenerates lean/NSG/Generated/Tables.lean from /repo's *current* source on every run.

Facts are obtained by probing the loaded code where they are observable (enum members, the
defender's tables, the coordinator's REQUIRED_PARAMETERS table) and by `ast` where they are not
(the dispatch arms of run_game, the parameters each _execute_* subscripts, awaits inside lock
scopes). If a construct cannot be read the corresponding table is emitted as `none`/empty and the
obligation stated over it in NSG/Properties/Generated.lean fails - it is never guessed.
"""
from __future__ import annotations

import ast
import inspect
import os
import textwrap
from fractions import Fraction

from . import cyst_compat  # noqa: F401
from .common import LEAN

ATY = {"ScanNetwork": "scanNetwork", "FindServices": "findServices", "FindData": "findData",
       "ExploitService": "exploitService", "ExfiltrateData": "exfiltrateData", "BlockIP": "blockIP",
       "JoinGame": "joinGame", "QuitGame": "quitGame", "ResetGame": "resetGame"}


def frac(x):
    f = Fraction(repr(x))
    return f.numerator, f.denominator


def defender_tables():
    from AIDojoCoordinator.global_defender import GlobalDefender
    g = GlobalDefender()
    def tab(d, conv):
        return [[k.value, conv(v)] for k, v in d.items()]
    # probabilities are compared with a float roll: keep the exact value of the float;
    # ratio thresholds are compared with count/tw: keep the decimal the source states (see DESIGN C17)
    return {"prob": tab(g._DEFAULT_DETECTION_PROBS, lambda v: list(float(v).as_integer_ratio())),
            "ratio": tab(g._TW_TYPE_RATIOS_THRESHOLD, lambda v: list(frac(v))),
            "consec": tab(g._TW_CONSECUTIVE_TYPE_THRESHOLD, int),
            "repeat": tab(g._EPISODE_REPEATED_ACTION_THRESHOLD, int)}


def action_types():
    from AIDojoCoordinator.game_components import ActionType
    return [a.value for a in ActionType]


def _src(obj):
    return ast.parse(textwrap.dedent(inspect.getsource(obj)))


def dispatch_table_ast():
    """ActionType name -> handler method name spawned by the dispatcher ('' = not routed): every `match` over ActionType
    members anywhere in GameCoordinator whose arms spawn a handler task."""
    from AIDojoCoordinator.coordinator import GameCoordinator
    tree = _src(GameCoordinator)
    table = {}
    default = None
    for node in ast.walk(tree):
        if isinstance(node, ast.Match):
            for case in node.cases:
                names = []
                def collect(p):
                    if isinstance(p, ast.MatchOr):
                        for q in p.patterns:
                            collect(q)
                    elif isinstance(p, ast.MatchValue) and isinstance(p.value, ast.Attribute):
                        names.append(p.value.attr)
                    elif isinstance(p, ast.MatchAs) and p.pattern is None:
                        names.append("_")
                collect(case.pattern)
                handler = ""
                for sub in ast.walk(ast.Module(body=case.body, type_ignores=[])):
                    if isinstance(sub, ast.Call) and isinstance(sub.func, ast.Attribute) and sub.func.attr == "_spawn_task" and sub.args:
                        a0 = sub.args[0]
                        if isinstance(a0, ast.Attribute):
                            handler = a0.attr
                for n in names:
                    if n == "_":
                        default = handler
                    else:
                        table[n] = handler
    return table, default


def params_read():
    """parameters subscripted (action.parameters['x']) per world _execute_* method and per coordinator handler"""
    from AIDojoCoordinator.worlds.NSEGameCoordinator import NSGCoordinator
    out = {}
    meths = {"ScanNetwork": "_execute_scan_network_action", "FindServices": "_execute_find_services_action",
             "FindData": "_execute_find_data_action", "ExploitService": "_execute_exploit_service_action",
             "ExfiltrateData": "_execute_exfiltrate_data_action", "BlockIP": "_execute_block_ip_action"}
    for t, m in meths.items():
        f = getattr(NSGCoordinator, m, None)
        if f is None:
            out[t] = None
            continue
        keys = set()
        for node in ast.walk(_src(f)):
            if isinstance(node, ast.Subscript) and isinstance(node.value, ast.Attribute) and node.value.attr == "parameters":
                sl = node.slice
                if isinstance(sl, ast.Constant) and isinstance(sl.value, str):
                    keys.add(sl.value)
        out[t] = sorted(keys)
    from AIDojoCoordinator.coordinator import GameCoordinator
    keys = set()
    for node in ast.walk(_src(GameCoordinator._process_join_game_action)):
        if isinstance(node, ast.Subscript) and isinstance(node.value, ast.Attribute) and node.value.attr == "parameters":
            if isinstance(node.slice, ast.Constant):
                keys.add(node.slice.value)
    out["JoinGame"] = sorted(keys)
    return out


def required_params():
    from AIDojoCoordinator.coordinator import GameCoordinator
    t = getattr(GameCoordinator, "REQUIRED_PARAMETERS", None)
    if t is None:
        return None
    return {k.value: sorted(v) for k, v in t.items()}


def awaits_in_locks():
    """(coroutine, lock attr, awaited call) for every await lexically inside `async with self.<lock>`
    other than the acquisition itself; Condition.wait on the same condition is the documented exception."""
    from AIDojoCoordinator.coordinator import GameCoordinator
    res = []
    for name, f in inspect.getmembers(GameCoordinator, inspect.iscoroutinefunction):
        tree = _src(f)
        for node in ast.walk(tree):
            if isinstance(node, ast.AsyncWith):
                locks = [it.context_expr.attr for it in node.items if isinstance(it.context_expr, ast.Attribute)]
                for sub in ast.walk(ast.Module(body=node.body, type_ignores=[])):
                    if isinstance(sub, ast.Await):
                        call = sub.value
                        txt = ast.unparse(call)
                        for lk in locks:
                            res.append((name, lk, txt))
    return res


def agent_tables_ast():
    """(initialised per agent on join, dropped on removal, read as a whole (all()/len()/iteration))"""
    from AIDojoCoordinator.coordinator import GameCoordinator

    def attr_of(node):      # self.X  -> "X"
        if isinstance(node, ast.Attribute) and isinstance(node.value, ast.Name) and node.value.id == "self":
            return node.attr
        return None
    init = set()
    for f in (GameCoordinator._initialize_new_player, GameCoordinator._process_join_game_action):
        for node in ast.walk(_src(f)):
            if isinstance(node, ast.Assign):
                for t in node.targets:
                    if isinstance(t, ast.Subscript) and attr_of(t.value) and isinstance(t.slice, ast.Name) and t.slice.id == "agent_addr":
                        init.add(attr_of(t.value))
    dropped = set()
    for node in ast.walk(_src(GameCoordinator._remove_agent_from_game)):
        if isinstance(node, ast.Call) and isinstance(node.func, ast.Attribute) and node.func.attr in ("pop", "discard") and attr_of(node.func.value):
            if node.args and isinstance(node.args[0], ast.Name) and node.args[0].id == "agent_addr":
                dropped.add(attr_of(node.func.value))
    aggregated = set()
    tree = ast.parse(textwrap.dedent(inspect.getsource(GameCoordinator)))
    for node in ast.walk(tree):
        if isinstance(node, ast.Call) and isinstance(node.func, ast.Attribute) and node.func.attr in ("values", "items", "keys") and attr_of(node.func.value):
            aggregated.add(attr_of(node.func.value))
        if isinstance(node, ast.Call) and isinstance(node.func, ast.Name) and node.func.id == "len" and node.args and attr_of(node.args[0]):
            aggregated.add(attr_of(node.args[0]))
        if isinstance(node, (ast.For, ast.comprehension)) and attr_of(node.iter):
            aggregated.add(attr_of(node.iter))
    return sorted(init), sorted(dropped), sorted(aggregated)



def _probe_live():
    """Facts about the CURRENT code obtained by running it (robust against moving code between methods): one agent joins a
    live in-process coordinator, plays every game action type, resets, and leaves mid-episode.
    Returns (dispatch: action type -> name of the handler coroutine that received it,
             tables holding the agent after joining / playing, tables still holding it after it left)."""
    import inspect as _inspect
    from .sim import Sim, default_config
    from AIDojoCoordinator.game_components import Action, ActionType, AgentInfo, IP, Network, Service, Data
    sim = Sim(default_config(env={"required_players": 1}))
    co = sim.coord
    seen = {}
    try:
        for name, f in _inspect.getmembers(co, _inspect.iscoroutinefunction):
            if not name.startswith("_process_"):
                continue

            def wrap(f=f, name=name):
                async def w(*args, **kw):
                    for a in list(args) + list(kw.values()):
                        if isinstance(a, Action):
                            seen.setdefault(a.type.name, name)
                    return await f(*args, **kw)
                return w
            setattr(co, name, wrap())
        addr = ("127.0.0.1", 40000)
        src, c2 = IP("192.168.2.2"), IP("213.47.23.195")
        msgs = [Action(ActionType.JoinGame, {"agent_info": AgentInfo("probe", "Attacker")}),
                Action(ActionType.ScanNetwork, {"source_host": src, "target_network": Network("192.168.1.0", 24)}),
                Action(ActionType.FindServices, {"source_host": src, "target_host": IP("192.168.1.2")}),
                Action(ActionType.FindData, {"source_host": src, "target_host": src}),
                Action(ActionType.ExploitService, {"source_host": src, "target_host": IP("192.168.1.2"), "target_service": Service("ssh", "passive", "8.1.0", False)}),
                Action(ActionType.ExfiltrateData, {"source_host": src, "target_host": c2, "data": Data("u", "d")}),
                Action(ActionType.BlockIP, {"source_host": src, "target_host": src, "blocked_host": IP("192.168.1.3")}),
                Action(ActionType.ResetGame, {"request_trajectory": False}),
                Action(ActionType.ScanNetwork, {"source_host": src, "target_network": Network("192.168.1.0", 24)})]
        sim.connect(0)
        held = set()

        def holders():
            out = set()
            for k, v in vars(co).items():
                try:
                    if isinstance(v, (dict, set, list)) and addr in v:
                        out.add(k)
                except TypeError:
                    pass
            return out
        for m in msgs:
            sim.send(0, m.to_json())
            held |= holders()
        sim.send(0, Action(ActionType.QuitGame, {}).to_json())
        left = holders()
        return seen, held, left
    finally:
        sim.close()


_LIVE = {}


def _live():
    if "v" not in _LIVE:
        try:
            _LIVE["v"] = _probe_live()
        except Exception as e:      # the probe itself could not run: the syntactic reading below is all there is
            _LIVE["v"] = ({}, set(), set())
            _LIVE["err"] = repr(e)
    return _LIVE["v"]


def _handler_kind(name):
    n = (name or "").lower()
    for k in ("join", "quit", "reset", "game"):
        if k in n:
            return k
    return None


def dispatch_table():
    """ActionType name -> handler: what really received a message of that type on a live coordinator, completed by the
    syntactic reading of the dispatcher for types the probe could not exercise."""
    table, default = dispatch_table_ast()
    seen, _, _ = _live()
    for t, h in seen.items():
        table[t] = h
    return table, default


def agent_tables():
    init_a, dropped_a, aggregated = agent_tables_ast()
    _, held, left = _live()
    connection_level = {"_agent_response_queues", "answers_queues"}      # per-connection, not per-agent
    init = (set(init_a) | held) - connection_level
    dropped = (set(dropped_a) | (held - left)) - connection_level if held else set(dropped_a)
    if held:
        dropped -= (left & set(dropped_a))      # a syntactic 'pop' that did not remove the agent does not count
    return sorted(init), sorted(dropped), aggregated

def lean_str_list(xs):
    return "[" + ", ".join('"' + x + '"' for x in xs) + "]"


HANDLERS = {"_process_join_game_action": "join", "_process_quit_game_action": "quit",
            "_process_reset_game_action": "reset", "_process_game_action": "game"}
PARAMS = {"source_host": "sourceHost", "target_host": "targetHost", "blocked_host": "blockedHost",
          "target_network": "targetNetwork", "target_service": "targetService", "data": "data",
          "agent_info": "agentInfo", "request_trajectory": "requestTrajectory"}


def lparams(xs):
    return "[" + ", ".join("." + PARAMS.get(x, "other") for x in xs) + "]"


def generate():
    dt = defender_tables()
    ats = action_types()
    disp, default = dispatch_table()
    pr = params_read()
    rq = required_params()
    aw = awaits_in_locks()

    def ftab(rows, val):
        arms = " ".join(f"| .{ATY[k]} => some {val(v)}" for k, v in rows if k in ATY)
        return f"fun t => match t with {arms} | _ => none" if len(rows) < len(ATY) else f"fun t => match t with {arms}"
    L = []
    L.append("/- GENERATED by harness/nsgverif/extract_tables.py from the current /repo source. Do not edit. -/")
    L.append("import NSG.Model.Defender")
    L.append("namespace NSG.Generated")
    L.append("open NSG.Defender")
    L.append("inductive Handler where | join | quit | reset | game | none | other deriving DecidableEq, Repr")
    L.append("inductive Param where | sourceHost | targetHost | blockedHost | targetNetwork | targetService | data | agentInfo | requestTrajectory | other deriving DecidableEq, Repr")
    L.append("/-- tables of GlobalDefender.__init__ (probed from a live instance; floats as decimal fractions) -/")
    L.append("def defenderTables : Tables :=")
    L.append("  { prob := " + ftab(dt["prob"], lambda v: f"⟨{v[0]}, {v[1]}⟩"))
    L.append("    ratio := " + ftab(dt["ratio"], lambda v: f"⟨{v[0]}, {v[1]}⟩"))
    L.append("    consec := " + ftab(dt["consec"], lambda v: str(v)))
    L.append("    repeat_ := " + ftab(dt["repeat"], lambda v: str(v)) + " }")
    L.append("/-- members of ActionType (a member the model does not know is dropped here and counted below) -/")
    L.append("def actionTypes : List ATy := [" + ", ".join("." + ATY[a] for a in ats if a in ATY) + "]")
    L.append(f"def unknownActionTypes : Nat := {sum(1 for a in ats if a not in ATY)}")
    L.append("/-- run_game: action type -> handler coroutine spawned (`none` = an arm that spawns nothing) -/")
    L.append("def dispatch : List (ATy × Handler) := [" + ", ".join(f"(.{ATY[k]}, .{HANDLERS.get(v) or _handler_kind(v) or ('none' if v == '' else 'other')})" for k, v in sorted(disp.items()) if k in ATY) + "]")
    L.append("/-- parameters subscripted without a guard by the implementation of each action type -/")
    L.append("def paramsRead : List (ATy × List Param) := [" + ", ".join(f"(.{ATY[k]}, {lparams(v or [])})" for k, v in sorted(pr.items()) if k in ATY) + "]")
    L.append(f"def paramsUnreadable : Nat := {sum(1 for v in pr.values() if v is None)}")
    L.append("/-- GameCoordinator.REQUIRED_PARAMETERS (validated before dispatch) -/")
    L.append("def requiredParams : List (ATy × List Param) := [" + ", ".join(f"(.{ATY[k]}, {lparams(v)})" for k, v in sorted((rq or {}).items()) if k in ATY) + "]")
    at_init, at_drop, at_aggr = agent_tables()
    L.append("/-- per-agent tables: filled on join / popped or discarded on removal / read as a whole (all(), len(), iteration) -/")
    L.append("def agentTablesInit : List String := " + lean_str_list(at_init))
    L.append("def agentTablesDropped : List String := " + lean_str_list(at_drop))
    L.append("def agentTablesAggregated : List String := " + lean_str_list(at_aggr))
    L.append("/-- awaits lexically inside an `async with self.<lock>` block that are NOT `<that lock>.wait()` -/")
    bad = [(a, b, c) for a, b, c in aw if c != f"self.{b}.wait()"]
    L.append(f"def foreignAwaitsInLocks : Nat := {len(bad)}")
    L.append("-- " + "; ".join(f"{a}:{b}:{c}" for a, b, c in aw))
    L.append("end NSG.Generated")
    text = "\n".join(L) + "\n"
    path = os.path.join(LEAN, "NSG", "Generated", "Tables.lean")
    old = open(path).read() if os.path.exists(path) else None
    if old != text:
        with open(path, "w") as f:
            f.write(text)
    return {"defender": dt, "action_types": ats, "dispatch": disp, "dispatch_default": default, "params_read": pr,
            "required": rq, "awaits_in_locks": aw, "agent_tables": {"init": at_init, "dropped": at_drop, "aggregated": at_aggr},
            "changed": old != text}


if __name__ == "__main__":
    import json
    print(json.dumps(generate(), indent=1))
