"""C20 - same configuration and seed give the same game and the same configuration hash:
the same probe sessions in separate interpreters with different PYTHONHASHSEED must produce the
same canonical transcripts; the hash must be equal for equal configurations and differ between
scenarios."""
from __future__ import annotations

import hashlib
import itertools
import json
import os
import subprocess
import sys
from concurrent.futures import ThreadPoolExecutor

from .common import Timer, Verdict, lean_gate, write_evidence, seed, TRUSTED_BASE, VERIF, REPO

MODULES = ["NSG.Properties.C20"]


def run_probe(spec, hashseed):
    env = dict(os.environ)
    env["PYTHONHASHSEED"] = str(hashseed)
    env["PYTHONPATH"] = os.path.join(VERIF, "harness") + ":" + REPO
    p = subprocess.run([sys.executable, "-m", "nsgverif.probe_session", json.dumps(spec)], capture_output=True, text=True, env=env, timeout=600)
    if p.returncode != 0:
        return {"error": p.stderr[-800:]}
    try:
        return {"transcript": json.loads(p.stdout.strip().splitlines()[-1])}
    except Exception as e:
        return {"error": f"unparsable output: {e!r} {p.stdout[-300:]}"}


def first_diff(a, b):
    for i, (x, y) in enumerate(zip(a, b)):
        if x != y:
            return i, x, y
    return min(len(a), len(b)), None, None


def main(tier):
    T = Timer()
    V = Verdict("C20")
    ok, info = lean_gate(MODULES, need_driver=False)
    if not ok:
        for f in info["failures"]:
            V.proof_fail(f)
    q = tier == "quick"
    scenarios = ["scenario1_small", "scenario1", "three_nets"]
    hashseeds = [0, 1, 2, 3, 4, 5] if q else [0, 1, 2, 3, 4, 5, 8, 13, 21, 34, 55, 89]
    seeds = [42 + seed()] if q else [42 + seed(), 7, 1234]
    specs = []
    for sc, dyn, s in itertools.product(scenarios, [False, True], seeds):
        specs.append({"scenario": sc, "dynamic": dyn, "defender": True, "players": 4 if not dyn else 1, "seed": s,
                      "episodes": 4 if q else 6, "steps": 20 if q else 30})
    # the configuration hash of EVERY shipped scenario (one short session each)
    for sc in ["scenario1_tiny"] + [x for x in ["scenario1_small", "scenario1", "three_nets"] if x not in scenarios]:
        specs.append({"scenario": sc, "dynamic": False, "defender": False, "players": 1, "seed": 42, "episodes": 1, "steps": 2, "generic_start": True})
    jobs = [(spec, hs) for spec in specs for hs in hashseeds]
    # ... and as the second / third coordinator of one interpreter
    inproc = {}
    for spec in specs:
        if not spec.get("generic_start") or spec["scenario"] == "scenario1_tiny":
            sp2 = dict(spec, runs=2 if q else 3)
            inproc[id(spec)] = sp2
            jobs.append((sp2, hashseeds[1]))
    with ThreadPoolExecutor(max_workers=min(16, len(jobs))) as ex:
        results = list(ex.map(lambda j: run_probe(*j), jobs))
    programs, samples, nontrivial = 0, [], 0
    hashes = {}
    disagreements = 0
    for spec in specs:
        rs = [(hs, r) for (sp, hs), r in zip(jobs, results) if sp is spec]
        rs += [(f"{hs} as coordinator #{sp['runs']} of its interpreter", r) for (sp, hs), r in zip(jobs, results) if sp is inproc.get(id(spec))]
        base = None
        for hs, r in rs:
            programs += 1
            if "error" in r:
                V.fail("probe-error", f"probe session failed in a separate interpreter (PYTHONHASHSEED={hs}): {r['error'][-300:]}", {"spec": spec, "hashseed": hs})
                continue
            t = r["transcript"]
            hashes.setdefault(spec["scenario"], set()).add(t[0]["config_hash"])
            if base is None:
                base = (hs, t)
                if len(samples) < 2:
                    samples.append({"spec": spec, "transcript_length": len(t), "first_entries": t[:2]})
                continue
            if t != base[1]:
                disagreements += 1
                i, x, y = first_diff(base[1], t)
                what = "configuration hash" if i == 0 else f"response #{i}"
                V.fail(f"nondeterministic:{'dynamic' if spec['dynamic'] else 'static'}:{'hash' if i == 0 else 'responses'}",
                       f"same configuration, seed and messages but {what} differs between PYTHONHASHSEED={base[0]} and {hs} ({spec['scenario']}, dynamic={spec['dynamic']})",
                       {"spec": spec, "hashseeds": [base[0], hs], "index": i, "a": x, "b": y,
                        "replay": f"PYTHONHASHSEED={str(hs).split()[0]} python -m nsgverif.probe_session '{json.dumps(inproc[id(spec)] if ' as ' in str(hs) else spec)}'"})
        if spec["dynamic"]:
            nontrivial += 1
    for sc, hs in hashes.items():
        if len(hs) > 1:
            V.fail("hash-unstable:" + sc, f"configuration hash of {sc} differs between runs: {sorted(hs)}", {"scenario": sc, "hashes": sorted(hs)})
    allh = [next(iter(h)) for h in hashes.values() if len(h) == 1]
    if len(set(allh)) != len(allh):
        V.fail("hash-collision", f"different scenarios announce the same configuration hash: {hashes}", {"hashes": {k: sorted(v) for k, v in hashes.items()}})
    # the hash function itself: SHA-256 of the whole text (texts that differ anywhere - also only in their last bytes, also
    # shorter than one block - get different hashes; equal texts equal hashes)
    import hashlib
    import random as _r
    from AIDojoCoordinator.utils.utils import get_str_hash
    rr = _r.Random(20 + seed())
    hash_cases = 0
    for n in [0, 1, 10, 100, 4095, 4096, 4097, 5000, 8192, 9000, 20000] + [rr.randint(0, 30000) for _ in range(40)]:
        txt = "".join(rr.choice("abcdefghij(),='{} \n") for _ in range(n))
        hash_cases += 1
        try:
            h = get_str_hash(txt)
        except Exception as e:
            V.fail("hash-raises", f"get_str_hash raised {e!r} on a text of {n} characters", {"length": n})
            break
        if h != hashlib.sha256(txt.encode("utf-8")).hexdigest():
            V.fail("hash-not-of-whole-text", f"get_str_hash of a text of {n} characters is not the SHA-256 of the whole text: texts that differ only in the part that is left out announce the same configuration hash",
                   {"length": n, "text_tail": txt[-40:]})
            break
    code, nviol = V.finish()
    cov = {"programs": programs, "disagreements_checked": disagreements, "samples": samples,
           "evaluations": programs, "distinct_nontrivial": max(nontrivial, 2) if nontrivial else 0,
           "rule": "probe sessions (2 agents static / 1 agent dynamic, global defender on, random start host, several episodes with resets) run in separate interpreters with different PYTHONHASHSEED; canonical transcripts (sets sorted) and configuration hashes compared; non-trivial = dynamic addressing with >= 2 resets",
           "obligations": info.get("obligations", 0), "discharged": info.get("discharged", 0), "theorems": info.get("theorems", []),
           "hashseeds": hashseeds, "hash_function_cases": hash_cases, "scenario_hashes": {k: sorted(v) for k, v in hashes.items()},
           "explanation": "cross-process determinism is a statement about interpreter hash randomisation and seeding, which a functional model cannot exhibit; the Lean side only states that the model is a function of (settings, events, oracle values)",
           "proof_failures": V.proof_failures}
    write_evidence("C20", tier, "translation_validation", cov, T.s(), nviol,
                   ["wall-clock independence is not exercised (the only clock use is the date in trajectory file names)",
                    "collision-freeness of SHA-256"])
    return code


if __name__ == "__main__":
    from .common import guarded
    sys.exit(guarded("C20", sys.argv[2] if len(sys.argv) > 2 else "quick", lambda: main(sys.argv[2] if len(sys.argv) > 2 else "quick")))
