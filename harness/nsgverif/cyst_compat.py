"""Compatibility shim: lets the scenario files shipped in /repo (written against a newer
CYST configuration API) import under the installed cyst-core 0.5.0.

It wraps the *real* cyst dataclasses in place; nothing under /repo is changed.
 - keyword renames: PassiveServiceConfig(name=) -> type, VulnerableServiceConfig(service=) -> name,
   ConnectionConfig(src_ref/dst_ref=) -> src_id/dst_id (an object is replaced by its .id)
 - unknown keywords are kept as plain attributes
 - PassiveServiceConfig gets a `name` property (the world reads service.name)
 - ConfigItem instances are callable: obj(id) returns a shallow copy (template use in scenarios)
Import this module before anything from AIDojoCoordinator.
"""
import copy
import dataclasses
import functools
import inspect

import cyst.api.configuration as _cfg
from cyst.api.configuration.configuration import ConfigItem

_RENAMES = {
    "PassiveServiceConfig": {"name": "type"},
    "VulnerableServiceConfig": {"service": "name"},
    "ConnectionConfig": {"src_ref": "src_id", "dst_ref": "dst_id"},
}
_DONE = "_nsgverif_wrapped"


def _wrap(cls):
    if getattr(cls, _DONE, False) or not dataclasses.is_dataclass(cls):
        return
    orig_init = cls.__init__
    names = [f.name for f in dataclasses.fields(cls)]
    ren = _RENAMES.get(cls.__name__, {})

    @functools.wraps(orig_init)
    def __init__(self, *args, **kwargs):
        extra = {}
        kw = {}
        for k, v in kwargs.items():
            k2 = ren.get(k, k)
            if k2 in ("src_id", "dst_id") and not isinstance(v, str) and hasattr(v, "id"):
                v = v.id
            if k2 in names:
                kw[k2] = v
            else:
                extra[k] = v
        orig_init(self, *args, **kw)
        for k, v in extra.items():
            object.__setattr__(self, k, v)

    cls.__init__ = __init__
    setattr(cls, _DONE, True)


for _n in _cfg.__all__:
    _o = getattr(_cfg, _n)
    if inspect.isclass(_o):
        _wrap(_o)

if not hasattr(_cfg.PassiveServiceConfig, "name"):
    _cfg.PassiveServiceConfig.name = property(lambda self: self.type)


def _call(self, id=None):
    c = copy.copy(self)
    if id is not None:
        try:
            object.__setattr__(c, "id", id)
        except Exception:
            pass
    return c


if "__call__" not in ConfigItem.__dict__:
    ConfigItem.__call__ = _call
