"""C14 / C15 - wire codecs: the real Action / GameState codecs vs the Lean model NSG.Codec
(theorems C14_roundtrip, C14_eq_perm, C14_hash, C14_neq, C14_refuse, C14_stable, C15_dict, C15_injective)."""
from __future__ import annotations

import copy
import ipaddress
import json
import os
import random
import sys

from . import cyst_compat  # noqa: F401
import netaddr
from AIDojoCoordinator.game_components import (Action, ActionType, AgentInfo, IP, Network, Service, Data, GameState, Observation)
from AIDojoCoordinator.utils.utils import observation_as_dict, observation_to_str
from .common import Driver, Timer, Verdict, lean_gate, write_evidence, seed, TRUSTED_BASE

STRS = ["", "a", "User1", "ünï©ødé", 'q"uote', "sp ace", "ActionType.ScanNetwork", "new\nline", "{}", "True", "0", "\\", "日本", "d'Artagnan", "'", "it's \"both\"", "null"]
KEYS = ["source_host", "target_host", "blocked_host", "target_network", "target_service", "data", "agent_info", "request_trajectory"]


def rand_ip(rng):
    return "%d.%d.%d.%d" % (rng.choice([0, 1, 10, 127, 172, 192, 213, 255]), rng.randint(0, 255), rng.randint(0, 255), rng.randint(0, 255))


def rand_value(rng, key):
    if key in ("source_host", "target_host", "blocked_host"):
        return IP(rand_ip(rng))
    if key == "target_network":
        return Network(rand_ip(rng), rng.choice([0, 1, 8, 16, 24, 26, 30, 31, 32]))
    if key == "target_service":
        return Service(rng.choice(STRS), rng.choice(STRS), rng.choice(STRS), rng.random() < 0.5)
    if key == "data":
        return Data(rng.choice(STRS), rng.choice(STRS), rng.choice([0, 0, 1, 7, 10 ** 12, -3]), rng.choice(STRS))
    if key == "agent_info":
        return AgentInfo(rng.choice(STRS), rng.choice(["Attacker", "Defender", "Benign", "", "x"]))
    return rng.random() < 0.5


def rand_action(rng):
    t = rng.choice(list(ActionType))
    ks = rng.sample(KEYS, rng.choice([0, 1, 2, 2, 3, 3, 4, 8]))
    return Action(t, {k: rand_value(rng, k) for k in ks})


def validity(j):
    """oracle lists for the model's decoder: which address strings the libraries accept"""
    ips, nets = set(), set()

    def walk(x):
        if isinstance(x, dict):
            if isinstance(x.get("ip"), str):
                s = x["ip"]
                try:
                    ipaddress.ip_address(s)
                    ips.add(s)
                except ValueError:
                    pass
                m = x.get("mask")
                if isinstance(m, int) and not isinstance(m, bool):
                    try:
                        netaddr.IPNetwork(f"{s}/{m}")
                        nets.add((s, m))
                    except Exception:
                        pass
            for v in x.values():
                walk(v)
        elif isinstance(x, list):
            for v in x:
                walk(v)
    walk(j)
    return {"valid_ips": sorted(ips), "valid_nets": [list(n) for n in sorted(nets)]}


def norm(j):
    return json.dumps(j, sort_keys=True)


def corrupt(rng, d):
    """one structural corruption of an encoded action; returns (kind, dict)"""
    d = copy.deepcopy(d)
    kinds = ["drop-type", "drop-params", "unknown-type", "unknown-key", "value-not-dict", "extra-field", "missing-field",
             "bad-ip", "bad-mask", "params-list", "flag-not-bool", "type-no-prefix", "wrong-leaf-bool", "mask-string", "nested-null"]
    k = rng.choice(kinds)
    ps = d.get("parameters", {})
    if k == "drop-type":
        d.pop("action_type", None)
    elif k == "drop-params":
        d.pop("parameters", None)
    elif k == "unknown-type":
        d["action_type"] = rng.choice(["ActionType.Teleport", "Teleport", "", "actiontype.ScanNetwork", "ActionType.scannetwork", "ActionType.mro", "ActionType.__class__",
                                        "ActionType.from_string", "ActionType._member_map_", "ActionType.name", "ActionType.value", "ActionType.__members__", "__doc__"])
    elif k == "unknown-key":
        ps[rng.choice(["speed", "sourcehost", "Source_host", ""])] = {"ip": "1.1.1.1"}
    elif k == "value-not-dict" and ps:
        ps[rng.choice(list(ps))] = rng.choice(["1.1.1.1", 5, None, [], True])
    elif k == "extra-field" and ps:
        kk = rng.choice(list(ps))
        if isinstance(ps[kk], dict):
            ps[kk]["zzz"] = 1
    elif k == "missing-field" and ps:
        kk = rng.choice(list(ps))
        if isinstance(ps[kk], dict) and ps[kk]:
            ps[kk].pop(rng.choice(list(ps[kk])))
    elif k == "bad-ip":
        ps[rng.choice(["source_host", "target_host", "blocked_host"])] = {"ip": rng.choice(["300.1.1.1", "1.1.1", "abc", "", "1.1.1.1.1", " 1.1.1.1"])}
    elif k == "bad-mask":
        ps["target_network"] = {"ip": "10.0.0.0", "mask": rng.choice([33, 99, -1])}
    elif k == "params-list":
        d["parameters"] = [1, 2]
    elif k == "flag-not-bool":
        ps["request_trajectory"] = rng.choice(["1", "[1, 2]", "None", "'x'", "yes", "true", ""])
    elif k == "type-no-prefix":
        d["action_type"] = d["action_type"].replace("ActionType.", "")
    elif k == "wrong-leaf-bool":
        ps["request_trajectory"] = rng.choice(["True", "False"])
    elif k == "mask-string":
        ps["target_network"] = {"ip": "10.0.0.0", "mask": "24"}
    elif k == "nested-null":
        ps["data"] = {"owner": "u", "id": "d"}          # optional fields absent: defaults
    return k, d


def check_actions(drv, rng, V, stats, n_good, n_bad):
    reqs, meta = [], []
    for i in range(n_good):
        a = rand_action(rng)
        text = a.to_json()
        j = json.loads(text)
        reqs.append({"op": "decode", "j": j, **validity(j)})
        meta.append(("good", a, j, None))
    for i in range(n_bad):
        a = rand_action(rng)
        kind, j = corrupt(rng, a.as_dict)
        try:
            json.dumps(j)
        except Exception:
            continue
        reqs.append({"op": "decode", "j": j, **validity(j)})
        meta.append(("bad", a, j, kind))
    reps = drv.ask_many(reqs)
    for (cls, a, j, kind), m in zip(meta, reps):
        stats["evaluations"] += 1
        try:
            b = Action.from_json(json.dumps(j))
            real_ok = True
        except Exception as e:
            b, real_ok = None, False
        if cls == "good":
            if len(a.parameters) >= 2:
                stats["nontrivial"].add(norm(j))
            if len(stats["samples"]) < 3:
                stats["samples"].append(j)
            if not real_ok or b != a or hash(b) != hash(a) or b.as_dict != a.as_dict:
                V.fail("roundtrip:" + a.type.value, f"decoding the JSON encoding of {a} gives {b if real_ok else 'an exception'}", {"kind": "action-roundtrip", "json": j})
                continue
        else:
            stats["bad_kinds"][kind] = stats["bad_kinds"].get(kind, 0) + 1
            stats["bad_refused" if not real_ok else "bad_accepted"] += 1
        if real_ok != m["ok"]:
            V.fail(f"accept:{kind or 'good'}:{real_ok}|{m['ok']}", f"decoder {'accepts' if real_ok else 'refuses'} {json.dumps(j)[:200]} but the model's decoder (C14_refuse / C14_roundtrip) {'accepts' if m['ok'] else 'refuses'} it",
                   {"kind": "action-decode", "json": j, "corruption": kind})
        elif real_ok and norm(b.as_dict) != norm(m["action"]):
            V.fail(f"decoded-value:{kind or 'good'}", f"decoder turned {json.dumps(j)[:200]} into {b.as_dict}, the model into {m['action']}", {"kind": "action-decode", "json": j})


def check_eq_hash(drv, rng, V, stats, n):
    reqs, meta = [], []
    for i in range(n):
        a = rand_action(rng)
        items = list(a.parameters.items())
        rng.shuffle(items)
        b = Action(a.type, dict(items))               # same action, other insertion order
        stats["evaluations"] += 1
        if not (a == b) or hash(a) != hash(b) or len({a, b}) != 1:
            V.fail("eq-order", f"{a} and the same action built in another parameter order: == is {a == b}, hashes equal: {hash(a) == hash(b)}", {"kind": "eq", "a": a.as_dict, "b": b.as_dict})
        # a single difference
        c = None
        mode = rng.choice(["type", "value", "extra", "near-net"])
        if mode == "type":
            c = Action(rng.choice([t for t in ActionType if t != a.type]), dict(a.parameters))
        elif mode == "value" and items:
            k = rng.choice([k for k, _ in items])
            nv = rand_value(rng, k)
            if nv != a.parameters[k]:
                c = Action(a.type, {**a.parameters, k: nv})
        elif mode == "extra":
            ks = [k for k in KEYS if k not in a.parameters]
            if ks:
                k = rng.choice(ks)
                c = Action(a.type, {**a.parameters, k: rand_value(rng, k)})
        elif mode == "near-net":
            # two spellings inside one CIDR block are different Network values
            n1, n2 = Network("192.168.1.0", 24), Network("192.168.1.7", 24)
            a2 = Action(a.type, {**a.parameters, "target_network": n1})
            c = Action(a.type, {**a.parameters, "target_network": n2})
            if (a2 == c) or (a2 == c) != (hash(a2) == hash(c) and a2 == c):
                V.fail("eq-network-spelling", f"actions with target_network {n1} and {n2} compare equal: {a2 == c} (hash equal: {hash(a2) == hash(c)})", {"kind": "eq", "a": a2.as_dict, "b": c.as_dict})
            if a2 == c and hash(a2) != hash(c):
                V.fail("eq-hash", "equal actions with different hashes", {"kind": "eq", "a": a2.as_dict, "b": c.as_dict})
        if c is not None:
            if a == c and mode != "near-net":
                V.fail("neq:" + mode, f"actions differing in {mode} compare equal: {a} vs {c}", {"kind": "eq", "a": a.as_dict, "b": c.as_dict})
            if (a == c) and hash(a) != hash(c):
                V.fail("eq-hash", "equal actions with different hashes", {"kind": "eq", "a": a.as_dict, "b": c.as_dict})
            ja, jc = a.as_dict, c.as_dict
            both = {"valid_ips": sorted(set(validity(ja)["valid_ips"]) | set(validity(jc)["valid_ips"])),
                    "valid_nets": [list(x) for x in sorted({tuple(x) for x in validity(ja)["valid_nets"]} | {tuple(x) for x in validity(jc)["valid_nets"]})]}
            reqs.append({"op": "acteq", "a": ja, "b": jc, **both})
            meta.append((a, c))
        jb = b.as_dict
        reqs.append({"op": "acteq", "a": a.as_dict, "b": jb, **validity(a.as_dict)})
        meta.append((a, b))
    reps = drv.ask_many(reqs)
    for (x, y), m in zip(meta, reps):
        if not m["ok"]:
            V.fail("eq-model-refused", "model refuses a well-formed action", {"a": x.as_dict, "b": y.as_dict})
        elif (x == y) != m["eq"] or ((x == y) and not m["hasheq"]):
            V.fail(f"eq-model:{x == y}|{m['eq']}", f"{x} == {y} is {x == y} but equality of type and parameter dictionaries is {m['eq']}", {"kind": "eq", "a": x.as_dict, "b": y.as_dict})


def check_hash_lifetime(rng, V, stats, n):
    """equal actions have equal hashes at ANY time: also when one of them was hashed earlier - in this process before the
    parameter dictionary it was built from went on being used, or in another interpreter (pickled after it was hashed)."""
    import pickle
    import subprocess
    for i in range(n):
        a = rand_action(rng)
        p = dict(a.parameters)
        x = Action(a.type, p)
        hash(x)
        ks = [k for k in KEYS if k not in p]
        if not ks:
            continue
        k = rng.choice(ks)
        p[k] = rand_value(rng, k)            # the caller goes on using its dictionary
        y = Action(a.type, p)
        stats["evaluations"] += 1
        if x == y and hash(x) != hash(y):
            V.fail("eq-hash-stale", f"two equal actions (built from one parameter dictionary, the first hashed before the dictionary got the key {k}) have different hashes", {"kind": "eq", "a": x.as_dict, "b": y.as_dict})
            break
    # another interpreter (its own string-hash salt) receives actions that were hashed here
    acts = [rand_action(rng) for _ in range(20)]
    for a in acts:
        hash(a)
    code = ("import sys, pickle\nfrom nsgverif import cyst_compat\nfrom AIDojoCoordinator.game_components import Action\n"
            "acts = pickle.load(sys.stdin.buffer)\nbad = [i for i, a in enumerate(acts) if hash(a) != hash(Action.from_json(a.to_json())) or a != Action.from_json(a.to_json())]\nprint(bad)")
    env = dict(os.environ, PYTHONHASHSEED=str(rng.randint(1, 1000)))
    try:
        out = subprocess.run([sys.executable, "-c", code], input=pickle.dumps(acts), capture_output=True, env=env, timeout=120)
        stats["pickled_actions"] = len(acts)
        if out.returncode == 0 and out.stdout.strip() not in (b"[]", b""):
            V.fail("eq-hash-other-process", f"actions hashed in one interpreter and unpickled in another are equal to freshly decoded copies but hash differently (indices {out.stdout.decode().strip()})",
                   {"kind": "eq", "actions": [a.as_dict for a in acts]})
    except Exception:
        pass


def canon_d(d):
    return {"known_networks": sorted(map(norm, d["known_networks"])), "known_hosts": sorted(map(norm, d["known_hosts"])),
            "controlled_hosts": sorted(map(norm, d["controlled_hosts"])),
            **{k: {h: sorted(map(norm, vs)) for h, vs in d[k].items()} for k in ("known_services", "known_data", "known_blocks")}}


def rand_view(rng):
    ips = [IP(rand_ip(rng)) for _ in range(rng.randint(0, 6))]
    def sub(k=3):
        return set(rng.sample(ips, rng.randint(0, min(k, len(ips))))) if ips else set()
    svc = lambda: Service(rng.choice(STRS), rng.choice(STRS), rng.choice(STRS), rng.random() < 0.5)
    dat = lambda: Data(rng.choice(STRS), rng.choice(STRS), rng.choice([0, 0, 5, 10 ** 9]), rng.choice(["", "txt", "ü"]))
    nets = {Network(rand_ip(rng), rng.choice([8, 16, 24, 32])) for _ in range(rng.randint(0, 3))}
    if nets and rng.random() < 0.3:
        # nested networks: the same address with another mask is another element
        n0 = rng.choice(sorted(nets, key=str))
        nets.add(Network(n0.ip, rng.choice([m for m in (8, 16, 24, 25, 26, 32) if m != n0.mask])))
    return GameState(controlled_hosts=sub(), known_hosts=sub(6),
                     known_services={ip: {svc() for _ in range(rng.randint(0, 3))} for ip in sub()},
                     known_data={ip: {dat() for _ in range(rng.randint(0, 3))} for ip in sub()},
                     known_networks=nets,
                     known_blocks={ip: sub() for ip in sub()})


def check_views(drv, rng, V, stats, n):
    reqs, meta = [], []
    obs_reqs, obs_meta = [], []
    for i in range(n):
        v = rand_view(rng)
        stats["evaluations"] += 1
        d = v.as_dict
        try:
            v1 = GameState.from_dict(json.loads(json.dumps(d)))
            v2 = GameState.from_json(v.as_json())
        except Exception as e:
            V.fail("view-decode-raises", f"decoding the encoding of a view raised {e!r}", {"kind": "view", "json": d})
            continue
        if v1 != v or v2 != v:
            V.fail(f"view-roundtrip:{v1 == v}:{v2 == v}", f"decoding the dictionary / JSON encoding of a view does not give the view back (from_dict ok: {v1 == v}, from_json ok: {v2 == v})",
                   {"kind": "view", "json": d})
            continue
        if v.known_blocks or any(x.size or x.type for s in v.known_data.values() for x in s):
            stats["nontrivial"].add(norm(d))
        if len(stats["samples"]) < 3:
            stats["samples"].append(d)
        # equality <=> same elements
        w = GameState.from_dict(json.loads(json.dumps(d)))
        if not (w == v):
            V.fail("view-eq", "views with the same elements compare unequal", {"kind": "view", "json": d})
        # the response path: Observation -> observation_as_dict / observation_to_str -> text -> view
        ob = Observation(v, rng.choice([0, -1, 100]), rng.random() < 0.3, rng.choice([{}, {"end_reason": "x"}]))
        try:
            od = json.loads(json.dumps(observation_as_dict(ob)))
            v3 = GameState.from_dict(od["state"])
            os_ = json.loads(observation_to_str(ob))
            v4 = GameState.from_json(os_["state"])
            if v3 != v or v4 != v or canon_d(v3.as_dict) != canon_d(d) or od["reward"] != ob.reward or od["end"] != ob.end or od["info"] != ob.info:
                V.fail("observation-roundtrip", "the view / reward / end flag inside an encoded observation is not the one that was encoded", {"kind": "view", "json": d})
            obs_reqs.append({"op": "obsrt", "j": od})
            obs_meta.append(od)
        except Exception as e:
            V.fail("observation-encode-raises", f"encoding / decoding an observation raised {e!r}", {"kind": "view", "json": d})
        # views differing in exactly one element of one part are different
        part = rng.choice(["controlled_hosts", "known_hosts", "known_networks", "known_services", "known_data", "known_blocks"])
        u = copy.deepcopy(v)
        x = IP(rand_ip(rng))
        if part in ("controlled_hosts", "known_hosts"):
            getattr(u, part).symmetric_difference_update({x})
        elif part == "known_networks":
            wide = sorted((n for n in u.known_networks if n.mask < 32), key=str)
            if wide and rng.random() < 0.5:
                # the same prefix written with different host bits is a different element (networks are compared as written)
                import ipaddress
                n0 = rng.choice(wide)
                flipped = str(ipaddress.IPv4Address(int(ipaddress.IPv4Address(str(n0.ip))) ^ rng.choice([1, 1 << rng.randrange(0, 32 - n0.mask)])))
                u.known_networks.discard(n0)
                u.known_networks.add(Network(flipped, n0.mask))
                stats["hostbit_pairs"] = stats.get("hostbit_pairs", 0) + 1
            else:
                u.known_networks.symmetric_difference_update({Network(rand_ip(rng), 24)})
        else:
            tbl = getattr(u, part)
            elem = {"known_services": Service("s", "t", "v", True), "known_data": Data("o", "i"), "known_blocks": IP("9.9.9.9")}[part]
            if tbl and rng.random() < 0.6:
                k = rng.choice(sorted(tbl, key=str))
                tbl[k] = set(tbl[k]) ^ {elem}
            else:
                tbl[x] = {elem} if rng.random() < 0.7 else set()
        same = canon_d(u.as_dict) == canon_d(d)
        stats["view_pairs"] = stats.get("view_pairs", 0) + 1
        if (u == v) != same or (v == u) != same:
            V.fail(f"view-neq:{part}", f"views that differ in one element of {part} compare equal (== is {u == v}, same elements: {same})",
                   {"kind": "view-pair", "a": d, "b": u.as_dict})
        reqs.append({"op": "viewrt", "j": json.loads(json.dumps(d))})
        meta.append(d)
    # the model's observation codec (theorem C15_observation) reproduces the real encoding of every observation
    for od, m in zip(obs_meta, drv.ask_many(obs_reqs)):
        stats["observations"] = stats.get("observations", 0) + 1
        if not m["ok"] or canon_d(m["j"]["state"]) != canon_d(od["state"]) or m["j"]["reward"] != od["reward"] or m["j"]["end"] != od["end"] or m["j"]["info"] != od["info"]:
            V.fail("observation-model", "the model's observation codec does not reproduce the real encoding of an observation", {"kind": "observation", "json": od, "model": m})
    reps = drv.ask_many(reqs)
    canon = canon_d
    for d, m in zip(meta, reps):
        if not m["ok"] or canon(m["j"]) != canon(d):
            V.fail("view-model", "the model's decoder does not reproduce the real encoding of a view", {"kind": "view", "json": d, "model": m})


def main(prop, tier):
    T = Timer()
    V = Verdict(prop)
    mods = ["NSG.Properties." + prop]
    ok, info = lean_gate(mods)
    if not ok:
        for f in info["failures"]:
            V.proof_fail(f)
    stats = {"evaluations": 0, "nontrivial": set(), "samples": [], "bad_kinds": {}, "bad_refused": 0, "bad_accepted": 0}
    coord_stats = {"focus": prop}
    other = {}
    if info.get("build_ok"):
        rng = random.Random(7919 * seed() + int(prop[1:]))
        drv = Driver()
        try:
            q = tier == "quick"
            if prop == "C14":
                check_actions(drv, rng, V, stats, 6000 if q else 150000, 3000 if q else 60000)
                check_eq_hash(drv, rng, V, stats, 2000 if q else 40000)
                check_hash_lifetime(rng, V, stats, 300 if q else 3000)
                # the wire as the server reads it: values that contain the marker text or white space at their ends
                from . import check_coord as CC
                CC.probe_marker_in_values(lambda tags, sig, desc, rep: V.fail(sig, desc, rep) if "C14" in tags else None, stats)
            else:
                check_views(drv, rng, V, stats, 5000 if q else 120000)
                # every response of real sessions: framing + the view sent is the view held
                from . import check_coord as CC

                def on_fail(tags, sig, desc, rep):
                    if "C15" in tags:
                        V.fail(sig, desc, rep)
                    else:
                        for t in tags:
                            other[t] = other.get(t, 0) + 1
                CC.run_sessions(drv, rng, info["tables"]["defender"], on_fail, coord_stats, 30 if q else 300, 40,
                                {"burst": 0.1, "long_names": 0.2, "early_reset": 0.05})
                CC.directed_long_episode(drv, rng, info["tables"]["defender"], on_fail, coord_stats, 2 if q else 20)
                CC.directed_find_services(drv, rng, info["tables"]["defender"], on_fail, coord_stats, 6 if q else 60)
        finally:
            drv.close()
    code, nviol = V.finish()
    cov = {"obligations": info.get("obligations", 0), "discharged": info.get("discharged", 0),
           "checker_cmd": "lake build " + " ".join(mods) + " && lake env lean <#print axioms of every theorem>",
           "trusted_base": TRUSTED_BASE + ["json.dumps/json.loads (text <-> value) and the validity verdicts of ipaddress/netaddr are taken from the libraries and passed to the model"],
           "theorems": info.get("theorems", []), "axioms_seen": info.get("axioms_seen", []),
           "evaluations": stats["evaluations"] + coord_stats.get("events", 0), "distinct_nontrivial": len(stats["nontrivial"]),
           "rule": ("random actions over all nine types with random subsets/orders of the eight parameters (unicode, quotes, empty strings, big sizes, both booleans), 15 kinds of structural corruption, permuted and single-difference pairs for ==/hash; non-trivial = action with >= 2 parameters (distinct encodings)"
                    if prop == "C14" else
                    "random views over all six parts incl. blocks and data with non-default size/type; dictionary and JSON round trips in the real code and in the model; every response of real coordinator sessions checked for framing and for carrying the held view; non-trivial = view with blocks or non-default data fields (distinct encodings)"),
           "samples": stats["samples"][:2], "malformed_kinds": stats["bad_kinds"], "malformed_refused_by_real": stats["bad_refused"],
           "malformed_accepted_by_real": stats["bad_accepted"], "session_events": coord_stats.get("events", 0), "observations_through_model_codec": stats.get("observations", 0),
           "out_of_scope_disagreements": other, "proof_failures": V.proof_failures}
    write_evidence(prop, tier, "proof", cov, T.s(), nviol,
                   ["values of a wrong leaf type that Python accepts silently (a number as a service name, IPv6 literals) are not generated"])
    return code


if __name__ == "__main__":
    from .common import guarded
    sys.exit(guarded(sys.argv[1], sys.argv[2] if len(sys.argv) > 2 else "quick", lambda: main(sys.argv[1], sys.argv[2] if len(sys.argv) > 2 else "quick")))
