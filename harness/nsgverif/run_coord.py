"""Entry point of the coordinator-level properties C01 C04 C05 C06 C07 C09 C10 C16 C18."""
from __future__ import annotations

import random
import sys

from .common import Driver, Timer, Verdict, lean_gate, write_evidence, seed, TRUSTED_BASE
from . import check_coord as CC

MODULES = {
    "C01": ["NSG.Properties.C01", "NSG.Properties.C01Barrier", "NSG.Properties.C01Sched", "NSG.Properties.GenC01", "NSG.Properties.GenAtomic"],
    "C04": ["NSG.Properties.C04", "NSG.Properties.C04History", "NSG.Properties.C04Budget"],
    "C05": ["NSG.Properties.C05"],
    "C06": ["NSG.Properties.C06", "NSG.Properties.C01Barrier", "NSG.Properties.C06Start", "NSG.Properties.GenAtomic"],
    "C07": ["NSG.Properties.C07", "NSG.Properties.C01Barrier", "NSG.Properties.GenAtomic", "NSG.Properties.C04Budget"],
    "C09": ["NSG.Properties.C09", "NSG.Properties.GenC09"],
    "C10": ["NSG.Properties.C10", "NSG.Properties.GenC10", "NSG.Properties.GenAtomic", "NSG.Properties.SystemMono"],
    "C16": ["NSG.Properties.C16", "NSG.Properties.C16Identity"],
    "C18": ["NSG.Properties.C18"],
}
PROFILES = {
    "C01": {"burst": 0.25, "bad": 0.10, "leave": 0.06, "out_of_order": 0.15},
    "C04": {"burst": 0.25, "bad": 0.03, "leave": 0.02, "outcome_mix": True},
    "C05": {"burst": 0.25, "bad": 0.02, "leave": 0.08, "outcome_mix": True},
    "C06": {"burst": 0.25, "bad": 0.02, "leave": 0.04, "outcome_mix": True},
    "C07": {"burst": 0.25, "bad": 0.02, "leave": 0.08, "early_reset": 0.10},
    "C09": {"burst": 0.25, "bad": 0.25, "leave": 0.03, "out_of_order": 0.3, "unprocessable": 0.2},
    "C10": {"burst": 0.25, "bad": 0.03, "leave": 0.20},
    "C16": {"burst": 0.25, "bad": 0.04, "leave": 0.04, "early_reset": 0.2, "twin_session": 0.3, "force_env_some": {"save_trajectories": 0.6}},
    "C18": {"burst": 0.25, "bad": 0.03, "leave": 0.20, "extra_connect": 0.15},
}
# additional batches: (share of the session budget, profile)
EXTRA = {
    # detection is one of the three ways an episode ends: sessions with the global defender on, several episodes
    "C04": [(0.5, {"bad": 0.01, "leave": 0.02, "outcome_mix": True, "force_env": {"use_global_defender": True},
                   "attacker_max_steps": [6, 8, 10, 12], "roles": ["Attacker", "Attacker", "Defender"]}),
            # every role may have its own step limit
            (0.25, {"bad": 0.01, "leave": 0.02, "defender_max_steps": [1, 2, 3, 4], "attacker_max_steps": [6, 8, 12],
                    "roles": ["Defender", "Defender", "Attacker"]})],
}
# properties whose checks also run the scripted "world-changing agent leaves, idle agent completes the reset" histories
DIRECTED = {"C01", "C05", "C06", "C07", "C09", "C10", "C16"}
NONTRIVIAL = {
    "C01": ("parked_total", "a request parked at a barrier (start / end / reset) at a quiescent point"),
    "C04": ("final_observations", "a final (end=True) observation delivered"),
    "C05": ("final_observations", "a final observation carrying the end bonus"),
    "C06": ("parked_total", "a request parked at the start or end barrier"),
    "C07": ("resets", "a RESET_DONE delivered"),
    "C09": ("bad", "a malformed / out-of-order message injected into a running session"),
    "C10": ("leaves", "a departure (QuitGame, EOF, read error, write error)"),
    "C16": ("traj_checked", "a trajectory attached to RESET_DONE or a trajectory file record compared"),
    "C18": ("connects", "a connect or a departure that changes the slot count"),
}


def _merge(a, b):
    for k, v in b.items():
        if isinstance(v, dict):
            _merge(a.setdefault(k, {}), v)
        elif isinstance(v, list):
            a.setdefault(k, [])
            a[k] += v
        elif isinstance(v, (int, float)) and not isinstance(v, bool):
            a[k] = a.get(k, 0) + v
        else:
            a.setdefault(k, v)


def _worker(args):
    """one worker of the thorough tier: its own driver, its own PRNG stream"""
    prop, tables, wseed, n_sessions, n_events, profile, focus = args
    from . import check_coord as CC2
    fails, stats = [], ({"focus": focus} if focus else {})
    if prop == "C05":
        CC2.settings_of = CC2.settings_rewards_as_written      # the rewards are the configured values
    rng = random.Random(wseed)
    drv = Driver()
    try:
        if prop in ("C04", "C05"):
            CC2.check_goal_function(drv, rng, lambda t, s_, d, r: fails.append((sorted(t), s_, d, r)), stats, 8000)
        CC2.run_sessions(drv, rng, tables, lambda t, s_, d, r: fails.append((sorted(t), s_, d, r)), stats, n_sessions, n_events, profile)
        for share, prof in EXTRA.get(prop, []):
            CC2.run_sessions(drv, rng, tables, lambda t, s_, d, r: fails.append((sorted(t), s_, d, r)), stats, max(1, int(n_sessions * share)), n_events, prof)
        if prop in DIRECTED:
            CC2.directed_sessions(drv, rng, tables, lambda t, s_, d, r: fails.append((sorted(t), s_, d, r)), stats, max(4, n_sessions // 10))
            CC2.directed_races(drv, rng, tables, lambda t, s_, d, r: fails.append((sorted(t), s_, d, r)), stats, max(4, n_sessions // 10))
        if prop == "C09":
            CC2.twin_sessions(drv, rng, tables, lambda t, s_, d, r: fails.append((sorted(t), s_, d, r)), stats, max(4, n_sessions // 5))
        if prop == "C07":
            CC2.directed_late_joiner(drv, rng, tables, lambda t, s_, d, r: fails.append((sorted(t), s_, d, r)), stats, max(4, n_sessions // 20))
        if prop in ("C10", "C18", "C01", "C06"):
            CC2.directed_shared_block(drv, rng, tables, lambda t, s_, d, r: fails.append((sorted(t), s_, d, r)), stats, max(4, n_sessions // 20))
        if prop in ("C04", "C18", "C01", "C16"):
            CC2.directed_defender(drv, rng, tables, lambda t, s_, d, r: fails.append((sorted(t), s_, d, r)), stats, max(4, n_sessions // 20))
    finally:
        drv.close()
    stats.pop("focus", None)
    return fails, stats


def main(prop, tier):
    T = Timer()
    V = Verdict(prop)
    ok, info = lean_gate(MODULES[prop])
    if not ok:
        for f in info["failures"]:
            V.proof_fail(f)
    stats = {"focus": prop}
    other = {}

    def on_fail(tags, sig, desc, rep):
        if prop in tags:
            V.fail(sig, desc, rep)
        else:
            for t in tags:
                other[t] = other.get(t, 0) + 1

    if info.get("build_ok") and info.get("tables"):
        # probes of the real code alone (inputs the model's configuration / JSON domain does not contain)
        if prop in ("C01", "C04"):
            CC.probe_all_attackers_goal(on_fail, stats)
        if prop in ("C07", "C16"):
            CC.probe_unencodable_name(on_fail, stats)
        if prop in ("C01", "C09"):
            CC.probe_surrogate_echo(on_fail, stats)
        if prop in ("C10", "C18"):
            CC.probe_leave_unwritable_store(on_fail, stats)
        if prop == "C18":
            CC.probe_same_peer_slots(on_fail, stats)
        if prop in ("C18", "C01", "C10"):
            CC.probe_start_position_without_blocks(on_fail, stats)
        if prop in ("C01", "C09"):
            CC.probe_marker_in_values(on_fail, stats)
    if info.get("build_ok") and info.get("tables") and tier != "quick":
        # thorough: 12 worker processes, each with its own driver and PRNG stream
        from concurrent.futures import ProcessPoolExecutor
        workers = 12
        base = 1000003 * seed() + int(prop[1:]) * 7 + 1
        jobs = [(prop, info["tables"]["defender"], base * 131 + w, 1500, 60, PROFILES[prop], prop) for w in range(workers)]
        with ProcessPoolExecutor(max_workers=workers) as ex:
            for fails, st in ex.map(_worker, jobs):
                _merge(stats, st)
                for tags, sig, desc, rep in fails:
                    on_fail(set(tags), sig, desc, rep)
    elif info.get("build_ok") and info.get("tables"):
        if prop == "C05":
            CC.settings_of = CC.settings_rewards_as_written      # the rewards are the configured values
        rng = random.Random(1000003 * seed() + int(prop[1:]) * 7 + 1)
        drv = Driver()
        try:
            n_sessions = 150
            n_events = 45
            if prop in ("C04", "C05"):
                CC.check_goal_function(drv, rng, on_fail, stats, 3000)
            CC.run_sessions(drv, rng, info["tables"]["defender"], on_fail, stats, n_sessions, n_events, PROFILES[prop])
            for share, prof in EXTRA.get(prop, []):
                CC.run_sessions(drv, rng, info["tables"]["defender"], on_fail, stats, max(1, int(n_sessions * share)), n_events, prof)
            if prop in DIRECTED:
                CC.directed_sessions(drv, rng, info["tables"]["defender"], on_fail, stats, 16)
                CC.directed_races(drv, rng, info["tables"]["defender"], on_fail, stats, 24)
            if prop == "C09":
                CC.twin_sessions(drv, rng, info["tables"]["defender"], on_fail, stats, 40)
            if prop in ("C10", "C18", "C01", "C06"):
                CC.directed_shared_block(drv, rng, info["tables"]["defender"], on_fail, stats, 10)
            if prop == "C07":
                CC.directed_late_joiner(drv, rng, info["tables"]["defender"], on_fail, stats, 10)
            if prop in ("C04", "C18", "C01", "C16"):
                CC.directed_defender(drv, rng, info["tables"]["defender"], on_fail, stats, 8)
        finally:
            drv.close()
    bk = stats.get("by_kind", {})
    derived = {"parked_total": sum(stats.get("parked", {}).values()), "final_observations": stats.get("final_observations", 0),
               "resets": bk.get("reset", 0), "bad": bk.get("bad", 0),
               "leaves": bk.get("eof", 0) + bk.get("readerr", 0) + bk.get("quit", 0) + bk.get("arm", 0),
               "traj_checked": stats.get("file_records", 0) + bk.get("reset", 0), "connects": bk.get("connect", 0)}
    key, rule = NONTRIVIAL[prop]
    code, nviol = V.finish()
    cov = {"obligations": info.get("obligations", 0), "discharged": info.get("discharged", 0),
           "checker_cmd": "lake build " + " ".join(MODULES[prop]) + " && lake env lean <#print axioms of every theorem>",
           "trusted_base": TRUSTED_BASE + ["asyncio semantics of Event/Condition/Queue/Lock at quiescent points (sequential layer); arrivals between internal callbacks are outside this layer"],
           "theorems": info.get("theorems", []), "axioms_seen": info.get("axioms_seen", []),
           "evaluations": stats.get("events", 0), "distinct_nontrivial": derived[key],
           "rule": "random sessions of 1-4 connections (required players 1-4, role mixes, max_steps, reward tables, goals over all six view parts, defender on/off) against the real coordinator and the Lean model in lock-step; non-trivial = " + rule + " (counted per occurrence in distinct sessions/events)",
           "samples": stats.get("samples", [])[:2], "traces_validated_against_impl": stats.get("sessions", 0),
           "events_by_kind": bk, "parked_by_barrier": stats.get("parked", {}), "file_records_compared": stats.get("file_records", 0), "goal_check_cases": stats.get("goal_cases", 0), "goal_check_true": stats.get("goal_true", 0),
           "sessions_full_scenario_random_start": stats.get("sessions_full_scenario_random_start", 0), "sessions_dynamic_addresses": stats.get("sessions_dynamic_addresses", 0), "directed_sessions": stats.get("directed_sessions", 0), "directed_races": stats.get("directed_races", 0), "twin_sessions": stats.get("twin_sessions", 0), "twin_rejected_left_out": stats.get("twin_rejected_left_out", 0), "bursts": stats.get("bursts", 0),
           "out_of_scope_disagreements": other, "proof_failures": V.proof_failures}
    write_evidence(prop, tier, "proof", cov, T.s(), nviol,
                   ["one read = one client message (TCP coalescing not modelled)", "a peer address is reused only after its earlier connection is closed",
                    "an EOF/reset that arrives while the handler awaits its reply is noticed after the reply (StreamReader semantics)",
                    "valid task configuration (every listed host exists in the scenario)"])
    return code


if __name__ == "__main__":
    from .common import guarded
    sys.exit(guarded(sys.argv[1], sys.argv[2] if len(sys.argv) > 2 else "quick", lambda: main(sys.argv[1], sys.argv[2] if len(sys.argv) > 2 else "quick")))
