"""C17 - global defender: real GlobalDefender.stochastic_with_threshold vs the Lean model `detect`
(theorems C17_only_if / C17_iff / C17_never_below / C17_draw, for all tables, windows, histories, rolls)."""
from __future__ import annotations

import itertools
import random
import sys
from fractions import Fraction

from . import cyst_compat  # noqa: F401
from .common import Driver, Timer, Verdict, lean_gate, write_evidence, seed, TRUSTED_BASE
import AIDojoCoordinator.global_defender as GD
from AIDojoCoordinator.game_components import Action, ActionType, IP, Network, Service, Data

MODULES = ["NSG.Properties.C17", "NSG.Properties.GenC17"]

A = lambda t, **p: Action(t, parameters=p)
ALPHABET = [
    A(ActionType.ScanNetwork, source_host=IP("10.0.0.1"), target_network=Network("10.0.0.0", 24)),
    A(ActionType.FindServices, source_host=IP("10.0.0.1"), target_host=IP("10.0.0.2")),
    A(ActionType.ExfiltrateData, source_host=IP("10.0.0.1"), target_host=IP("10.0.0.2"), data=Data("u", "d")),
    A(ActionType.BlockIP, source_host=IP("10.0.0.1"), target_host=IP("10.0.0.1"), blocked_host=IP("10.0.0.3")),
    A(ActionType.FindData, source_host=IP("10.0.0.1"), target_host=IP("10.0.0.2")),
    A(ActionType.FindData, source_host=IP("10.0.0.1"), target_host=IP("10.0.0.3")),
    A(ActionType.ExploitService, source_host=IP("10.0.0.1"), target_host=IP("10.0.0.2"), target_service=Service("ssh", "passive", "1", False)),
    A(ActionType.ExploitService, source_host=IP("10.0.0.1"), target_host=IP("10.0.0.3"), target_service=Service("ssh", "passive", "1", False)),
    A(ActionType.ScanNetwork, source_host=IP("10.0.0.1"), target_network=Network("10.0.1.0", 24)),
    A(ActionType.FindServices, source_host=IP("10.0.0.1"), target_host=IP("10.0.0.3")),
    A(ActionType.ExfiltrateData, source_host=IP("10.0.0.1"), target_host=IP("10.0.0.3"), data=Data("u", "d")),
    A(ActionType.JoinGame), A(ActionType.ResetGame),
]
KEYS = {}


def key(a: Action):
    import json
    k = json.dumps(a.as_dict, sort_keys=True)
    return KEYS.setdefault(k, len(KEYS))


def mact(a):
    return [a.type.value, key(a)]


_SHUF = random.Random(12345)


def reordered(d):
    """the same encoded action with its parameters (and top-level members) listed in another order - what a client
    that builds its messages differently sends; equal as a dictionary"""
    ps = list(d["parameters"].items())
    _SHUF.shuffle(ps)
    out = {"parameters": dict(ps), "action_type": d["action_type"]} if _SHUF.random() < 0.5 else {"action_type": d["action_type"], "parameters": dict(ps)}
    return out


def real_detect(g, hist, a, tw, roll):
    GD.random = lambda: roll
    try:
        hd = [x.as_dict for x in hist]
        if len(hist) % 2 == 1:            # every second case: recorded actions in other member orders, the current action too
            hd = [reordered(d) for d in hd]
            ps = list(a.parameters.items())
            _SHUF.shuffle(ps)
            a = Action(a.type, dict(ps))
        before = [dict(d, parameters=dict(d["parameters"])) for d in hd]
        r = bool(g.stochastic_with_threshold(a, hd, tw))
        if hd != before:
            # the caller (the coordinator) passes the live list of the episode's recorded actions
            return None, f"the decision function changed the history it was given: {len(before)} -> {len(hd)} entries"
        return r, None
    except Exception as e:
        return None, repr(e)


def main(tier):
    T = Timer()
    V = Verdict("C17")
    ok, info = lean_gate(MODULES)
    if not ok:
        for f in info["failures"]:
            V.proof_fail(f)
    evals = 0
    nontrivial = set()
    samples = []
    dist = {"triggered": 0, "window_not_full": 0, "unmonitored": 0, "below": 0, "detected": 0}
    coord_stats = {"focus": "C17"}
    orig_random = GD.random
    if info.get("build_ok") and info.get("tables"):
        rng = random.Random(7919 * seed() + 17)
        drv = Driver()
        try:
            tabs = info["tables"]["defender"]
            drv.ask({"op": "tables", "tables": tabs})
            probs = {k: Fraction(v[0], v[1]) for k, v in tabs["prob"]}
            g = GD.GlobalDefender()
            cases = []
            small = ALPHABET[:8]
            maxlen = 3 if tier == "quick" else 4
            tws = range(1, 6) if tier == "quick" else range(1, 8)
            for n in range(0, maxlen + 1):
                for hist in itertools.product(small, repeat=n):
                    for a in small:
                        for tw in tws:
                            if tw > n + 2:
                                continue      # window longer than the episode: sampled below instead
                            cases.append((list(hist), a, tw))
            # window-not-full samples, long random histories over the full alphabet
            nrand = 4000 if tier == "quick" else 60000
            for _ in range(nrand):
                n = rng.randint(0, 30)
                hist = [rng.choice(ALPHABET) for _ in range(n)]
                if rng.random() < 0.5 and hist:
                    # make runs and repeats likely
                    x = rng.choice(ALPHABET)
                    for i in range(rng.randint(1, 4)):
                        hist[rng.randrange(len(hist))] = x
                cases.append((hist, rng.choice(ALPHABET[:11]), rng.randint(1, 12)))
            # pass 1: roll = 0 -> "detected" equals the threshold condition (for types with p > 0)
            reqs = [{"op": "detect", "tw": tw, "hist": [mact(x) for x in h], "act": mact(a), "roll": [0, 1]} for h, a, tw in cases]
            reps = drv.ask_many(reqs)
            second = []
            for (h, a, tw), m in zip(cases, reps):
                evals += 1
                r, err = real_detect(g, h, a, tw, 0.0)
                if err is not None:
                    V.fail(("history-mutated:" if "changed the history" in err else "raises:") + a.type.value, f"stochastic_with_threshold: {err}", {"hist": [mact(x) for x in h], "act": mact(a), "tw": tw, "roll": 0.0})
                    continue
                if not m["full"]:
                    dist["window_not_full"] += 1
                elif not m["monitored"]:
                    dist["unmonitored"] += 1
                elif m["trigger"]:
                    dist["triggered"] += 1
                else:
                    dist["below"] += 1
                if r != m["detected"]:
                    V.fail(f"verdict:{a.type.value}:full={m['full']}:trigger={m['trigger']}",
                           f"detection verdict with roll 0 differs from the proved model: real={r} model={m['detected']} (window full={m['full']}, monitored={m['monitored']}, threshold condition={m['trigger']})",
                           {"hist": [x.as_dict for x in h], "act": a.as_dict, "tw": tw, "roll": 0.0, "real": r, "model": m})
                    continue
                if r and not (m["full"] and m["monitored"] and m["trigger"]):
                    V.fail("detected-below-threshold:" + a.type.value, "detected although the threshold condition of the property does not hold",
                           {"hist": [x.as_dict for x in h], "act": a.as_dict, "tw": tw})
                if m["full"] and m["monitored"] and m["trigger"]:
                    second.append((h, a, tw))
                    # non-trivial: window full and a threshold within one count of (not) triggering
                    nontrivial.add((a.type.value, tw, tuple(mact(x)[1] for x in h[-tw:])))
                    if len(samples) < 3:
                        samples.append({"tw": tw, "history": [x.type.value for x in h], "action": a.as_dict, "roll": 0.0, "detected": r})
            # pass 2: rolls around the configured probability, on (a sample of) the triggered cases
            if len(second) > (3000 if tier == "quick" else 40000):
                second = rng.sample(second, 3000 if tier == "quick" else 40000)
            reqs, meta = [], []
            for h, a, tw in second:
                p = probs.get(a.type.value)
                if p is None:
                    continue
                pf = p.numerator / p.denominator
                import math
                for roll in (math.nextafter(pf, 0.0), pf, math.nextafter(pf, 1.0), rng.random(), 0.999999):
                    fr = Fraction(roll)
                    reqs.append({"op": "detect", "tw": tw, "hist": [mact(x) for x in h], "act": mact(a), "roll": [fr.numerator, fr.denominator]})
                    meta.append((h, a, tw, roll, p))
            reps = drv.ask_many(reqs)
            for (h, a, tw, roll, p), m in zip(meta, reps):
                evals += 1
                r, err = real_detect(g, h, a, tw, roll)
                want = Fraction(roll) < p
                if r is not None and r:
                    dist["detected"] += 1
                if r != m["detected"] or r != want:
                    V.fail(f"draw:{a.type.value}", f"with the threshold condition met, roll={roll!r} and p={p}: real={r}, model={m['detected']}, roll<p is {want}",
                           {"hist": [x.as_dict for x in h], "act": a.as_dict, "tw": tw, "roll": roll, "p": str(p)})
            # coordinator integration: detected => Fail (after the goal check, before the step limit) => end => fail reward
            GD.random = orig_random
            from . import check_coord as CC

            def cfail(tags, sig, desc, rep):
                if "C17" in tags:
                    V.fail("coord:" + sig, desc, rep)

            def cfg_gen(r):
                cfg = CC.gen_config(r)
                cfg["env"]["use_global_defender"] = True
                cfg["coordinator"]["agents"]["Attacker"]["max_steps"] = r.choice([5, 6, 7, 8, 10])
                return cfg
            CC.probe_defender_rolls(cfail, coord_stats)
            CC.settings_of = CC.settings_rewards_as_written      # 'the fail reward' is the configured value
            CC.directed_defender(drv, rng, tabs, cfail, coord_stats, 16 if tier == "quick" else 300)
            CC.run_sessions(drv, rng, tabs, cfail, coord_stats, 80 if tier == "quick" else 800, 45,
                            {"bad": 0.01, "leave": 0.02, "roles": ["Attacker", "Attacker", "Defender", "Benign"], "outcome_mix": True,
                             "force_env": {"use_global_defender": True}, "attacker_max_steps": [6, 7, 8, 10, 12]}, cfg_gen=cfg_gen)
        finally:
            GD.random = orig_random
            drv.close()
    code, nviol = V.finish()
    cov = {"obligations": info.get("obligations", 0), "discharged": info.get("discharged", 0),
           "checker_cmd": "lake build " + " ".join(MODULES) + " && lake env lean <#print axioms of every theorem>",
           "trusted_base": TRUSTED_BASE + ["float division count/tw compared with decimal thresholds is modelled by exact cross-multiplication (validated here for every generated case)"],
           "theorems": info.get("theorems", []), "axioms_seen": info.get("axioms_seen", []),
           "evaluations": evals, "distinct_nontrivial": len(nontrivial),
           "rule": "exhaustive (history, action, window) over an 8-action alphabet up to the length bound plus random long histories over 13 actions, roll 0; then five rolls around p on triggered cases; non-trivial = window full, type monitored and threshold condition met (distinct by type, window size, window contents)",
           "samples": samples, "distribution": dist, "traces_validated_against_impl": evals,
           "coordinator_session_events": coord_stats.get("events", 0), "exhaustive": False, "generated_tables": (info.get("tables") or {}).get("defender"),
           "proof_failures": V.proof_failures}
    write_evidence("C17", tier, "proof", cov, T.s(), nviol,
                   ["the coordinator-level clause (detected => Fail => end => fail reward) is checked with C04/C05 sessions",
                    "random() is patched in the defender module to supply the roll"])
    return code


if __name__ == "__main__":
    from .common import guarded
    sys.exit(guarded("C17", sys.argv[2] if len(sys.argv) > 2 else "quick", lambda: main(sys.argv[2] if len(sys.argv) > 2 else "quick")))
