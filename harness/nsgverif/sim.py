"""In-process simulation of the real NetSecGame coordinator.

Runs the real `NSGCoordinator.start_tasks()` on a private event loop with a frozen clock.
The only substitution is `asyncio.start_server`, replaced by a fake that captures the real
`AgentServer` instance (with whatever max_connections the code passed).  Each simulated
connection is a real `AgentServer.handle_new_agent(reader, writer)` task fed through an
`asyncio.StreamReader`; the writer records every write.

Events are delivered at quiescent points (`Sim.settle()` runs the loop until no callback is
ready).  `Sim.feed_raw` + `Sim.settle` can be separated to inject several events into the
same loop iteration (callback-level scheduling).
"""
from __future__ import annotations

import asyncio
import copy
import json
import logging
import os
import selectors
import tempfile

from . import cyst_compat  # noqa: F401  (must be first)

import yaml

from AIDojoCoordinator.game_components import ProtocolConfig
from AIDojoCoordinator.worlds.NSEGameCoordinator import NSGCoordinator
import AIDojoCoordinator.coordinator as coord_mod

logging.disable(logging.CRITICAL)

EOM = ProtocolConfig.END_OF_MESSAGE


class FrozenLoop(asyncio.SelectorEventLoop):
    def __init__(self):
        super().__init__(selectors.SelectSelector())
        self.unhandled = []
        self.set_exception_handler(self._on_exc)

    def time(self):
        return 0.0

    def _on_exc(self, loop, context):
        self.unhandled.append(context)


class FakeServer:
    sockets = []

    def close(self):
        pass

    async def wait_closed(self):
        pass


class FakeWriter:
    def __init__(self, peer):
        self.peer = peer
        self.chunks = []   # every bytes object passed to write()
        self.closed = False
        self.fail_write = False   # next write raises ConnectionResetError
        self.fail_drain = False
        self.lost_exc = None      # what the transport reported in connection_lost(exc)

    def get_extra_info(self, name, default=None):
        if name == "peername":
            return self.peer
        return default

    def write(self, data):
        if self.fail_write:
            self.lost_exc = ConnectionResetError("simulated write error")
            raise self.lost_exc
        if self.fail_drain:
            return      # buffered, never delivered: the drain that follows reports the loss
        self.chunks.append(bytes(data))

    async def drain(self):
        if self.fail_drain:
            self.lost_exc = ConnectionResetError("simulated drain error")
            raise self.lost_exc

    def close(self):
        self.closed = True

    def is_closing(self):
        return self.closed

    async def wait_closed(self):
        # Python 3.12: StreamWriter.wait_closed() re-raises the exception the connection was lost with
        if self.lost_exc is not None:
            raise self.lost_exc


class Conn:
    def __init__(self, cid, peer, reader, writer, task):
        self.cid = cid
        self.peer = peer
        self.reader = reader
        self.writer = writer
        self.task = task
        self.seen = 0   # number of chunks already reported

    def new_chunks(self):
        out = self.writer.chunks[self.seen:]
        self.seen = len(self.writer.chunks)
        return out


def default_config(**over):
    """A task configuration dict with sane defaults for the scenario1_small world."""
    cfg = {
        "coordinator": {"agents": {
            "Attacker": {
                "max_steps": 15,
                "goal": {"description": "Exfiltrate DatabaseData to '213.47.23.195'",
                         "known_networks": [], "known_hosts": [], "controlled_hosts": [],
                         "known_services": {}, "known_data": {"213.47.23.195": [["User1", "DatabaseData"]]},
                         "known_blocks": {}},
                "start_position": {"known_networks": [], "known_hosts": [],
                                   "controlled_hosts": ["213.47.23.195", "192.168.2.2"],
                                   "known_services": {}, "known_data": {}, "known_blocks": {}},
            },
            "Defender": {
                "goal": {"description": "Block all attackers", "known_networks": [], "known_hosts": [],
                         "controlled_hosts": [], "known_services": {}, "known_data": {}, "known_blocks": {}},
                "start_position": {"known_networks": [], "known_hosts": [], "controlled_hosts": ["192.168.1.2"],
                                   "known_services": {}, "known_data": {}, "known_blocks": {}},
            },
        }},
        "env": {"random_seed": 42, "scenario": "scenario1_small", "use_global_defender": False,
                "use_dynamic_addresses": False, "use_firewall": True, "save_trajectories": False,
                "required_players": 1,
                "rewards": {"success": 100, "step": -1, "fail": -10}},
    }
    def merge(d, o):
        for k, v in o.items():
            if isinstance(v, dict) and isinstance(d.get(k), dict):
                merge(d[k], v)
            else:
                d[k] = v
    merge(cfg, over)
    return cfg


class Sim:
    """One running coordinator."""

    def __init__(self, config: dict, scenario_objects=None, seed=42, workdir=None, allowed_roles=None):
        self.config = copy.deepcopy(config)
        self._tmp = None
        if workdir is None:
            self._tmp = tempfile.TemporaryDirectory(prefix="nsgsim-")
            workdir = self._tmp.name
        self.workdir = workdir
        self.cfg_path = os.path.join(workdir, "task.yaml")
        with open(self.cfg_path, "w") as f:
            yaml.safe_dump(self.config, f)
        self._cwd = os.getcwd()
        os.chdir(workdir)   # trajectories are written relative to cwd
        self.loop = FrozenLoop()
        asyncio.set_event_loop(self.loop)
        self.server_cb = None
        self.start_server_args = None
        kwargs = {}
        if allowed_roles is not None:
            kwargs["allowed_roles"] = allowed_roles
        self.coord = NSGCoordinator("127.0.0.1", 9000, self.cfg_path, seed=seed, **kwargs)
        self.conns = {}
        self.startup_error = None

        sim = self

        async def fake_start_server(cb, host=None, port=None, **kw):
            sim.server_cb = cb
            sim.start_server_args = (host, port)
            return FakeServer()

        self._orig_start_server = asyncio.start_server
        asyncio.start_server = fake_start_server
        try:
            self.main_task = self.loop.create_task(self.coord.start_tasks())
            self.settle()
        finally:
            asyncio.start_server = self._orig_start_server
        if self.main_task.done():
            self.startup_error = self.main_task.exception()
        if scenario_objects is not None:
            self.coord._cyst_objects = scenario_objects

    # ------------------------------------------------------------------ loop control
    async def _drain(self):
        # run until nothing else is ready
        for _ in range(100000):
            await asyncio.sleep(0)
            if not self.loop._ready:
                return
        raise RuntimeError("no quiescence after 100000 iterations")

    def settle(self):
        self.loop.run_until_complete(self._drain())

    def run_iterations(self, n):
        """let the event loop run exactly n iterations (callbacks that are ready now run in the first one)"""
        async def _n():
            for _ in range(n):
                await asyncio.sleep(0)
        if n > 0:
            self.loop.run_until_complete(_n())

    # ------------------------------------------------------------------ connections
    def connect(self, cid, settle=True):
        peer = ("127.0.0.1", 40000 + cid)
        reader = asyncio.StreamReader(loop=self.loop)
        writer = FakeWriter(peer)
        task = self.loop.create_task(self.server_cb(reader, writer))
        c = Conn(cid, peer, reader, writer, task)
        self.conns[cid] = c
        if settle:
            self.settle()
        return c

    def client_closed(self, cid):
        """the client side of this connection is gone (EOF or connection loss was signalled): it cannot send any more"""
        r = self.conns[cid].reader
        return r._eof or r.exception() is not None

    def feed_raw(self, cid, data: bytes):
        if self.client_closed(cid):
            return False
        self.conns[cid].reader.feed_data(data)
        return True

    def send(self, cid, data, settle=True):
        if isinstance(data, str):
            data = data.encode()
        self.feed_raw(cid, data)
        if settle:
            self.settle()

    def eof(self, cid, settle=True):
        self.conns[cid].reader.feed_eof()
        if settle:
            self.settle()

    def read_error(self, cid, settle=True, exc=None):
        exc = exc or ConnectionResetError("simulated reset")
        self.conns[cid].writer.lost_exc = exc   # connection_lost(exc) reaches the reader and the close waiter alike
        self.conns[cid].reader.set_exception(exc)
        if settle:
            self.settle()

    def arm_write_error(self, cid, drain=False):
        if drain:
            self.conns[cid].writer.fail_drain = True
        else:
            self.conns[cid].writer.fail_write = True

    # ------------------------------------------------------------------ observation
    def outputs(self):
        """New outputs since the last call: list of (cid, kind, payload)."""
        out = []
        for cid, c in sorted(self.conns.items()):
            for ch in c.new_chunks():
                out.append((cid, "reply", ch))
            if c.writer.closed and not getattr(c, "_closed_reported", False):
                c._closed_reported = True
                out.append((cid, "closed", None))
        return out

    def handler_done(self, cid):
        return self.conns[cid].task.done()

    def background_alive(self):
        """Names of the coordinator's long-running tasks that are still alive."""
        alive = set()
        for t in self.coord._tasks:
            if not t.done():
                alive.add(t.get_coro().__qualname__.split(".")[-1])
        return alive

    def close(self):
        try:
            for t in asyncio.all_tasks(self.loop):
                t.cancel()
            try:
                self.loop.run_until_complete(self._drain())
            except BaseException:
                pass
            try:
                self.loop.remove_signal_handler(2)
                self.loop.remove_signal_handler(15)
            except Exception:
                pass
            self.loop.close()
        finally:
            asyncio.set_event_loop(None)
            os.chdir(self._cwd)
            if self._tmp is not None:
                self._tmp.cleanup()


def parse_reply(chunk: bytes):
    """(well_framed, json_or_None)"""
    if not chunk.endswith(EOM):
        return False, None
    body = chunk[: -len(EOM)]
    try:
        return True, json.loads(body.decode())
    except Exception:
        return False, None
