"""World-level checks: C02 C03 C08 C11 C12 (world part).

One engine: random / exhaustive walks of 1..3 agents over real worlds (shipped scenarios and
generated ones), every step executed by the real `_execute_action` and by the Lean model
(`step` through the driver); canonical results are compared.  Because the model is *proved*
to satisfy the properties (Properties/C02, C03, C08, C11), a disagreement inside a
property's scope is a violation of that property on the real code:
  pre = false and the real result differs from (same view, same world)      -> C02
  pre = true  and the real result differs from the proved effect             -> C03
  scenario objects vs loaded tables (independent reading)                    -> C03
  real view not well-formed / not monotone (Inv, le evaluated by the driver) -> C11
  a view returned earlier changed later, or shares a container               -> C11 / C12
  real reset() differs from the model's reset, or probe observations differ  -> C08
"""
from __future__ import annotations

import copy
import itertools
import json
import random

from . import cyst_compat  # noqa: F401
from AIDojoCoordinator.game_components import IP, Network, Service, Data, GameState, Action, ActionType
from . import canon as C
from .common import Driver
from .worldgen import gen_scenario, make_world, world_reset, world_step, compare_loader

SHIPPED = ["scenario1_small", "scenario1", "three_nets"]


def world_from_tables(j, base=None):
    """Install protocol-JSON tables into a real world object (used by replays)."""
    w = base or make_world(scenario="scenario1_tiny")
    w._ip_to_hostname = {C.n2ip(k): v for k, v in j["hostname"]}
    w._networks = {C.j2net(k): [C.n2ip(x) for x in v] for k, v in j["nets"]}
    w._services = {k: [C.j2svc(x) for x in v] for k, v in j["services"]}
    w._data = {k: {C.j2data(x) for x in v} for k, v in j["data"]}
    w._firewall = {C.n2ip(k): {C.n2ip(x) for x in v} for k, v in j["fw"]}
    w._fw_blocks = {C.n2ip(k): {C.n2ip(x) for x in v} for k, v in j["blocks"]}
    w._data_original = {k: {C.j2data(x) for x in v} for k, v in j["dataOrig"]}
    w._firewall_original = {C.n2ip(k): {C.n2ip(x) for x in v} for k, v in j["fwOrig"]}
    return w


class Gen:
    """Action generator biased towards satisfied preconditions, with single-guard perturbations."""

    def __init__(self, rng, w):
        self.rng = rng
        self.w = w
        self.ips = sorted(w._ip_to_hostname, key=str)
        self.nets = sorted(w._networks, key=str)
        self.all_services = sorted({s for v in w._services.values() for s in v}, key=repr)

    def any_ip(self, view=None):
        r = self.rng.random()
        if self.ips and self.rng.random() < 0.04:
            # an IPv6 literal with the numeric value of an existing IPv4 host (plain or IPv4-mapped): a valid address that
            # is NOT that host
            import ipaddress
            x = int(ipaddress.IPv4Address(str(self.rng.choice(self.ips))))
            return IP(str(ipaddress.IPv6Address(x if self.rng.random() < 0.6 else (0xffff << 32) + x)))
        if view is not None and r < 0.55 and view.known_hosts:
            return self.rng.choice(sorted(view.known_hosts, key=str))
        if r < 0.9 and self.ips:
            return self.rng.choice(self.ips)
        return IP("%d.%d.%d.%d" % (self.rng.choice([10, 192, 8]), self.rng.randint(0, 255), self.rng.randint(0, 3), self.rng.randint(1, 9)))

    def src(self, view):
        if view.controlled_hosts and self.rng.random() < 0.85:
            return self.rng.choice(sorted(view.controlled_hosts, key=str))
        return self.any_ip(view)

    def net(self, view):
        r = self.rng.random()
        cands = sorted(view.known_networks, key=str) + self.nets
        if r < 0.7 and cands:
            return self.rng.choice(cands)
        if r < 0.85 and self.nets:
            n = self.rng.choice(self.nets)
            return Network(n.ip, self.rng.choice([16, 20, 28, 29, 30, 32, 8, 0]))
        if r < 0.93 and self.ips:
            return Network(str(self.rng.choice(self.ips)), self.rng.choice([24, 32, 31]))
        return Network("10.%d.%d.0" % (self.rng.randint(0, 255), self.rng.randint(0, 255)), 24)

    # ---- white-box construction of inputs in which exactly one chosen guard is false ------------
    def _allowed(self, s, d):
        return d in self.w._firewall.get(s, ())

    def single_false(self, view):
        """Try to build an action whose precondition fails in exactly one (chosen) guard."""
        rng = self.rng
        ctrl = sorted(view.controlled_hosts, key=str)
        if not ctrl:
            return None
        kind = rng.choice(["fs1", "fd1", "fd2", "ex1", "ex2", "ex3", "ex3", "ex3", "ex4", "ex4", "xf1", "xf2", "xf3", "xf4", "bl1", "bl2", "bl3", "src"])
        s = rng.choice(ctrl)
        reach = [d for d in self.ips if self._allowed(s, d)]
        unreach = [d for d in self.ips if not self._allowed(s, d)]
        outsider = [d for d in self.ips if d not in view.controlled_hosts]
        if kind == "src" and outsider:
            a = self.action(view)
            p = dict(a.parameters); p["source_host"] = rng.choice(outsider)
            return Action(a.type, p)
        if kind == "fs1" and unreach:
            return Action(ActionType.FindServices, {"source_host": s, "target_host": rng.choice(unreach)})
        if kind == "fd1":
            c = [d for d in ctrl if not self._allowed(s, d)]
            if c:
                return Action(ActionType.FindData, {"source_host": s, "target_host": rng.choice(c)})
        if kind == "fd2":
            c = [d for d in reach if d not in view.controlled_hosts]
            if c:
                return Action(ActionType.FindData, {"source_host": s, "target_host": rng.choice(c)})
        if kind in ("ex1", "ex2", "ex3"):
            known_t = sorted((t for t in view.known_services if view.known_services[t]), key=str)      # entries that are present but empty have nothing to pick
            if kind == "ex1":
                c = [t for t in known_t if not self._allowed(s, t)]
                if c:
                    t = rng.choice(c)
                    return Action(ActionType.ExploitService, {"source_host": s, "target_host": t, "target_service": rng.choice(sorted(view.known_services[t], key=repr))})
            if kind == "ex2":      # known at the target (stale or never existed), but not on the target in the world
                c = [t for t in known_t if self._allowed(s, t)]
                if c and self.all_services:
                    t = rng.choice(c)
                    on_t = set(self.w._services.get(self.w._ip_to_hostname.get(t), []))
                    cand = [x for x in view.known_services[t] if x not in on_t]
                    if cand:
                        return Action(ActionType.ExploitService, {"source_host": s, "target_host": t, "target_service": rng.choice(sorted(cand, key=repr))})
            if kind == "ex3":      # exists on the target, not discovered there (preferably discovered elsewhere)
                c = []
                for t in reach:
                    on_t = set(self.w._services.get(self.w._ip_to_hostname.get(t), []))
                    missing = on_t - set(view.known_services.get(t, ()))
                    if missing:
                        elsewhere = {x for k, v in view.known_services.items() if k != t for x in v}
                        c.append((t, sorted(missing & elsewhere, key=repr), sorted(missing, key=repr), t in view.known_services))
                if c:
                    pref = [x for x in c if x[1] and x[3]] or [x for x in c if x[1]] or c
                    t, both, missing, _ = rng.choice(pref)
                    return Action(ActionType.ExploitService, {"source_host": s, "target_host": t, "target_service": rng.choice(both or missing)})
        if kind == "ex4":      # a near miss: a record that differs in ONE field from a service that is on the target and was discovered there
            c = []
            for t in reach:
                on_t = set(self.w._services.get(self.w._ip_to_hostname.get(t), []))
                both = sorted(on_t & set(view.known_services.get(t, ())), key=repr)
                if both:
                    c.append((t, both))
            if c:
                t, both = rng.choice(c)
                sv = rng.choice(both)
                f = rng.choice(["is_local", "is_local", "version", "name", "type"])
                near = {"is_local": Service(sv.name, sv.type, sv.version, not sv.is_local), "version": Service(sv.name, sv.type, sv.version + ".0", sv.is_local),
                        "name": Service(sv.name.upper() if sv.name.upper() != sv.name else sv.name + "d", sv.type, sv.version, sv.is_local),
                        "type": Service(sv.name, "active" if sv.type != "active" else "passive", sv.version, sv.is_local)}[f]
                return Action(ActionType.ExploitService, {"source_host": s, "target_host": t, "target_service": near})
        if kind == "xf4":      # a near miss of a datapoint the agent knows at the source
            kd = view.known_data.get(s)
            c = [t for t in ctrl if self._allowed(s, t)]
            if kd and c:
                d0 = rng.choice(sorted(kd, key=repr))
                f = rng.choice(["owner", "id", "size", "type"])
                near = {"owner": Data(d0.owner + "x", d0.id, d0.size, d0.type), "id": Data(d0.owner, d0.id + "x", d0.size, d0.type),
                        "size": Data(d0.owner, d0.id, d0.size + 1, d0.type), "type": Data(d0.owner, d0.id, d0.size, d0.type + "x")}[f]
                return Action(ActionType.ExfiltrateData, {"source_host": s, "target_host": rng.choice(c), "data": near})
        if kind in ("xf1", "xf2", "xf3"):
            kd = view.known_data.get(s)
            d = rng.choice(sorted(kd, key=repr)) if kd else None
            if kind == "xf1" and d is not None:
                c = [t for t in reach if t not in view.controlled_hosts]
                if c:
                    return Action(ActionType.ExfiltrateData, {"source_host": s, "target_host": rng.choice(c), "data": d})
            if kind == "xf2" and d is not None:
                c = [t for t in ctrl if not self._allowed(s, t)]
                if c:
                    return Action(ActionType.ExfiltrateData, {"source_host": s, "target_host": rng.choice(c), "data": d})
            if kind == "xf3":
                c = [t for t in ctrl if self._allowed(s, t)]
                hn = self.w._ip_to_hostname.get(s)
                present = sorted(set(self.w._data.get(hn, ())) - set(view.known_data.get(s, ())), key=repr)
                if c and present:      # present at the source in the world but not yet found by the agent
                    return Action(ActionType.ExfiltrateData, {"source_host": s, "target_host": rng.choice(c), "data": rng.choice(present)})
        if kind == "bl1":
            c = [t for t in reach if t not in view.controlled_hosts]
            if c:
                return Action(ActionType.BlockIP, {"source_host": s, "target_host": rng.choice(c), "blocked_host": self.any_ip(view)})
        if kind == "bl2":
            c = [t for t in ctrl if not self._allowed(s, t)]
            if c:
                return Action(ActionType.BlockIP, {"source_host": s, "target_host": rng.choice(c), "blocked_host": self.any_ip(view)})
        if kind == "bl3":
            c = [t for t in ctrl if self._allowed(s, t)]
            if c:
                t = rng.choice(c)
                return Action(ActionType.BlockIP, {"source_host": s, "target_host": t, "blocked_host": t})
        return None

    def action(self, view, singling=0.0) -> Action:
        rng = self.rng
        if singling and rng.random() < singling:
            a = self.single_false(view)
            if a is not None:
                return a
        t = rng.choice(["scan", "fs", "fs", "fd", "fd", "ex", "ex", "xf", "xf", "bl"])
        s = self.src(view)
        ctrl = sorted(view.controlled_hosts, key=str)
        if t == "scan":
            return Action(ActionType.ScanNetwork, {"source_host": s, "target_network": self.net(view)})
        if t == "fs":
            return Action(ActionType.FindServices, {"source_host": s, "target_host": self.any_ip(view)})
        if t == "fd":
            tgt = rng.choice(ctrl) if ctrl and rng.random() < 0.7 else self.any_ip(view)
            return Action(ActionType.FindData, {"source_host": s, "target_host": tgt})
        if t == "ex":
            ks = sorted(view.known_services, key=str)
            if ks and rng.random() < 0.75:
                tgt = rng.choice(ks)
                svcs = sorted(view.known_services[tgt], key=repr)
                elsewhere = sorted({x for k, v in view.known_services.items() if k != tgt for x in v}, key=repr)
                on_target = sorted(self.w._services.get(self.w._ip_to_hostname.get(tgt), []), key=repr)
                r = rng.random()
                if svcs and r < 0.6:
                    svc = rng.choice(svcs)
                elif elsewhere and r < 0.75:
                    svc = rng.choice(elsewhere)          # discovered, but on another host
                elif on_target and r < 0.9:
                    svc = rng.choice(on_target)          # exists on the target, maybe not discovered
                elif self.all_services:
                    svc = rng.choice(self.all_services)
                else:
                    svc = Service("x", "passive", "1", False)
            else:
                tgt = self.any_ip(view)
                svc = rng.choice(self.all_services) if self.all_services and rng.random() < 0.8 else Service("nosuch", "passive", "0", False)
            return Action(ActionType.ExploitService, {"source_host": s, "target_host": tgt, "target_service": svc})
        if t == "xf":
            tgt = rng.choice(ctrl) if ctrl and rng.random() < 0.8 else self.any_ip(view)
            kd = view.known_data.get(s)
            if kd and rng.random() < 0.85:
                d = rng.choice(sorted(kd, key=repr))
                if rng.random() < 0.15:
                    # a near miss of a datapoint the agent knows at the source: one of the four fields differs
                    d = rng.choice([Data(d.owner + "x", d.id, d.size, d.type), Data(d.owner, d.id + "x", d.size, d.type),
                                    Data(d.owner, d.id, d.size + 1, d.type), Data(d.owner, d.id, d.size + 1, d.type), Data(d.owner, d.id, d.size, d.type + "x")])
            else:
                alld = sorted({d for v in self.w._data.values() for d in v}, key=repr)
                d = rng.choice(alld) if alld and rng.random() < 0.7 else Data("nobody", "nothing", rng.choice([0, 7]), rng.choice(["", "t"]))
            return Action(ActionType.ExfiltrateData, {"source_host": s, "target_host": tgt, "data": d})
        tgt = rng.choice(ctrl) if ctrl and rng.random() < 0.8 else self.any_ip(view)
        return Action(ActionType.BlockIP, {"source_host": s, "target_host": tgt, "blocked_host": self.any_ip(view)})

    def start_view(self, wellformed=True) -> GameState:
        rng = self.rng
        if not self.ips:
            return GameState()
        k = rng.choice([1, 1, 2, 2, 3])
        ctrl = set(rng.sample(self.ips, min(k, len(self.ips))))
        known = set(ctrl)
        if rng.random() < 0.5:
            known |= set(rng.sample(self.ips, rng.randint(0, min(3, len(self.ips)))))
        nets = {n for n, hs in self.w._networks.items() if any(h in hs for h in ctrl)}
        v = GameState(controlled_hosts=ctrl, known_hosts=known, known_services={}, known_data={}, known_networks=nets, known_blocks={})
        if rng.random() < 0.3:
            # the valid start configuration `known_data: {ip: []}` (and its siblings): entries that are present but empty
            for h in sorted(ctrl, key=str):
                if rng.random() < 0.6:
                    v.known_data[h] = set()
                if rng.random() < 0.3:
                    v.known_services[h] = set()
                if rng.random() < 0.3:
                    v.known_blocks[h] = set()
        if wellformed:
            return v
        # arbitrary (possibly unreachable) view: services / data / blocks that need not exist
        ks = {}
        for ip in rng.sample(self.ips, rng.randint(0, min(2, len(self.ips)))):
            if self.all_services:
                ks[ip] = set(rng.sample(self.all_services, rng.randint(1, min(2, len(self.all_services)))))
        kd = {}
        alld = sorted({d for vv in self.w._data.values() for d in vv}, key=repr)
        for ip in rng.sample(self.ips, rng.randint(0, min(2, len(self.ips)))):
            if alld:
                kd[ip] = set(rng.sample(alld, rng.randint(1, min(2, len(alld)))))
        return GameState(controlled_hosts=ctrl, known_hosts=known, known_services=ks, known_data=kd, known_networks=nets, known_blocks={})


def containers_of_view(v: GameState):
    out = [v.controlled_hosts, v.known_hosts, v.known_services, v.known_data, v.known_networks, v.known_blocks]
    out += list(v.known_services.values()) + list(v.known_data.values()) + list(v.known_blocks.values())
    return out


def containers_of_world(w):
    out = []
    for t in (w._data, w._fw_blocks, w._firewall, w._services, w._networks, w._data_original, w._firewall_original):
        out.append(t)
        out += list(t.values())
    return out


class Stats:
    def __init__(self):
        self.steps = 0
        self.pre_false = 0
        self.pre_true = 0
        self.one_guard_false = set()
        self.effective = set()
        self.by_type = {}
        self.guard_only_false = {}
        self.raised = 0
        self.samples = []
        self.resets = 0
        self.loads = 0
        self.grew = set()
        self.cross_agent = set()
        self.snap_checks = 0
        self.reset_nontrivial = 0
        self.directed_interference = 0
        self.post_reset_probes = 0


# after a disagreement the model's tables are normally overwritten with the real ones, so that one defect is reported once and
# the walk goes on in step.  The C02 check keeps the model's (proved) tables instead: a wrong firewall / data table then shows
# in what it wrongly lets later actions do, which is what C02 is about.
SYNC_ON_DIFF = True
# actions are encoded and decoded (Action.to_json / from_json) before they are handed to the real world, as on the wire
WIRE = True


class WorldSession:
    """One real world + the model world kept in lock-step."""

    def __init__(self, drv: Driver, rng, objects=None, scenario="scenario1_small", use_firewall=True, label=""):
        self.drv = drv
        self.rng = rng
        self.objects = objects
        self.label = label
        self.use_firewall = use_firewall
        self.w = make_world(objects=objects, scenario=scenario, use_firewall=use_firewall)
        self.tables0 = C.world2j(self.w)
        self.data0 = copy.deepcopy(self.w._data)      # where the scenario puts its datapoints (by node name)
        self.sync()
        self.gen = Gen(rng, self.w)
        self.returned = []    # (agent, step index, snapshot canon, view object)

    def sync(self):
        self.drv.ask({"op": "world", "world": C.world2j(self.w)})

    def loader_diffs(self):
        """the loaded tables vs (a) an independent reading of the scenario objects (worldgen.compare_loader) and
        (b) the Lean loader model `NSG.load` applied to the scenario read by scenario_reader.py"""
        objs = self.objects if self.objects is not None else self.w._cyst_objects
        diffs = compare_loader(objs, self.w, self.use_firewall)
        try:
            from .scenario_reader import scenario_json
            m = self.drv.ask({"op": "load", "scenario": scenario_json(objs), "use_firewall": bool(self.use_firewall)})["world"]
            real = C.world2j(self.w)
            for tab in ("nets", "services", "data", "fw", "blocks"):
                if C.cmap(m[tab]) != C.cmap(real[tab]):
                    rm, mm = dict(C.cmap(real[tab])), dict(C.cmap(m[tab]))
                    bad = {str(k): (rm.get(k), mm.get(k)) for k in set(rm) | set(mm) if rm.get(k) != mm.get(k)}
                    diffs.append(f"{tab} (loaded, model of the loader) differ at: {str(bad)[:500]}")
            if sorted(map(tuple, m["hostname"])) != sorted(map(tuple, real["hostname"])):
                diffs.append(f"hostname: loaded {sorted(map(tuple, real['hostname']))[:6]}... model {sorted(map(tuple, m['hostname']))[:6]}...")
        except Exception as e:      # a scenario shape the reader does not understand is reported, not hidden
            diffs.append(f"loader-model: {e!r}")
        return diffs

    def step(self, view: GameState, action: Action, agent=0):
        """Executes on both sides. Returns dict with real/model results and the comparison."""
        vj = C.view2j(view)
        aj = C.action2j(action)
        world_before = C.world2j(self.w)
        try:
            # an agent's action always reaches the world through the wire: what is executed is what the decoder makes of the message
            wire = Action.from_json(action.to_json()) if WIRE else action
            new = world_step(self.w, view, wire, agent)
            raised = None
        except Exception as e:      # the coordinator answers BAD_REQUEST
            new, raised = None, repr(e)
        m = self.drv.ask({"op": "step", "view": vj, "action": aj})
        rec = {"view": vj, "action": aj, "world": world_before, "pre": m["pre"], "guards": m["guards"],
               "model_raised": m["raised"], "real_raised": raised, "agree": True, "diff": []}
        real_w = C.canon_worlddyn(C.worlddyn2j(self.w))
        if m["raised"] or raised:
            if bool(m["raised"]) != bool(raised):
                rec["agree"] = False
                rec["diff"] = ["raised"]
            # a raising step must not change the world
            if real_w != C.canon_worlddyn({"data": world_before["data"], "fw": world_before["fw"], "blocks": world_before["blocks"]}):
                rec["agree"] = False
                rec["diff"].append("world-changed-by-raising-step")
            if not rec["agree"] and SYNC_ON_DIFF:
                self.sync()
            rec["new"] = new
            return rec
        real_v = C.canon_view(C.view2j(new))
        model_v = C.canon_view(m["view"])
        model_w = C.canon_worlddyn(m["world"])
        d = C.diff_canon(real_v, model_v) + ["world." + k for k in C.diff_canon(real_w, model_w)]
        rec["new"] = new
        rec["real_view"] = C.view2j(new)
        rec["model_view"] = m["view"]
        rec["inv_before"] = m["inv_before"]
        rec["inv_after"] = m["inv_after"]
        rec["le"] = m["le"]
        rec["changed"] = (real_v != C.canon_view(vj)) or (real_w != C.canon_worlddyn({"data": world_before["data"], "fw": world_before["fw"], "blocks": world_before["blocks"]}))
        if d:
            rec["agree"] = False
            rec["diff"] = d
            rec["real_world"] = C.worlddyn2j(self.w)
            rec["model_world"] = m["world"]
            if SYNC_ON_DIFF:
                self.sync()
            # evaluate the invariants on the REAL result
            rec["inv_after"] = self.drv.ask({"op": "inv", "view": C.view2j(new)})["inv"]
            rec["le"] = self.drv.ask({"op": "le", "a": vj, "b": C.view2j(new)})["le"]
        return rec

    def reset(self):
        """real reset vs model reset; returns list of differences"""
        before = C.canon_worlddyn(C.worlddyn2j(self.w))
        world_reset(self.w)
        m = self.drv.ask({"op": "reset"})
        real = C.canon_worlddyn(C.worlddyn2j(self.w))
        model = C.canon_worlddyn(m["world"])
        d = C.diff_canon(real, model)
        init = C.canon_worlddyn({"data": self.tables0["data"], "fw": self.tables0["fw"], "blocks": self.tables0["blocks"]})
        d2 = C.diff_canon(real, init)
        if d:
            self.sync()
        return {"diff_model": d, "diff_initial": d2, "nontrivial": before != init,
                "real": C.worlddyn2j(self.w), "model": m["world"], "initial": {"data": self.tables0["data"], "fw": self.tables0["fw"], "blocks": self.tables0["blocks"]}}


def sig_step(rec):
    a = rec["action"]
    return f"{a['t']}:pre={rec['pre']}:guards={''.join('1' if g else '0' for g in rec['guards'])}:diff={','.join(sorted(rec['diff']))}"


def replay_of(sess: WorldSession, rec, extra=None):
    r = {"kind": "world-step", "scenario": sess.label, "world": rec["world"], "view": rec["view"], "action": rec["action"],
         "pre": rec["pre"], "guards": rec["guards"], "diff": rec["diff"],
         "real_view": rec.get("real_view"), "model_view": rec.get("model_view"),
         "real_world": rec.get("real_world"), "model_world": rec.get("model_world"),
         "real_raised": rec.get("real_raised"), "model_raised": rec.get("model_raised")}
    if extra:
        r.update(extra)
    return r


def run_walks(drv, rng, stats: Stats, on_fail, worlds, walks_per_world, steps, reachable_only=False, resets=True):
    """on_fail(prop, signature, description, replay). `worlds` is a list of kwargs for WorldSession."""
    for wi, wk in enumerate(worlds):
        sess = WorldSession(drv, rng, **wk)
        stats.loads += 1
        for dd in sess.loader_diffs():
            on_fail("C03", "loader:" + dd.split(":")[0], f"scenario {sess.label}: loaded world differs from the scenario definition: {dd[:600]}",
                    {"kind": "loader", "scenario": sess.label, "difference": dd})
            if dd.split(":")[0].strip().lower().startswith(("firewall", "fw")):
                # the connections the loaded firewall allows ARE the precondition of every action (C02): a connection the
                # scenario's rules do not allow must not let an action through
                on_fail("C02", "loader-firewall:" + dd.split(":")[0], f"scenario {sess.label}: the loaded firewall differs from the scenario's rules, so actions are let through / refused where the scenario says otherwise: {dd[:500]}",
                        {"kind": "loader", "scenario": sess.label, "difference": dd})
        # C11: every datapoint that can ever appear in a view is one of the scenario's datapoints (all four fields)
        universe = {(d.owner, d.id, d.size, d.type) for ds in sess.w._data.values() for d in ds}
        placed = None
        for wk_i in range(walks_per_world):
            nag = rng.choice([1, 1, 2, 3])
            wf = reachable_only or rng.random() < 0.7
            views = [sess.gen.start_view(wellformed=wf) for _ in range(nag)]
            history = [[] for _ in range(nag)]      # per agent: (canon snapshot, view object)
            last_returned = [copy.deepcopy(v) for v in views]      # what each agent was last given, never refreshed
            for ag, v in enumerate(views):
                history[ag].append((copy.deepcopy(v), v))
            # probe script for C08: recorded in the first episode, replayed after reset
            script = []
            # C11 "at the place where it is reported": per host, the datapoints the scenario puts there plus those exfiltrated
            # there in THIS episode (model's verdict)
            if placed is None:
                placed = {hn: set(ds) for hn, ds in sess.data0.items()}      # by node: a node with several addresses holds its data at each of them
            readonly = []        # (view the agent held, action) of the read-only actions of the episode
            probe_next = []      # agents whose current view object was changed behind their back: let them play a refused action next
            forced = []          # directed steps: (agent index, action), executed before anything else
            directed = 0
            for si in range(steps):
                ag = rng.randrange(nag)
                act = sess.gen.action(views[ag], singling=0.3)
                if forced:
                    ag, act = forced.pop(0)
                    if act is None:
                        src = sorted(views[ag].controlled_hosts, key=str)
                        act = Action(ActionType.ScanNetwork, {"source_host": rng.choice(src), "target_network": sess.gen.net(views[ag])}) if src and rng.random() < 0.5 else sess.gen.action(views[ag])
                elif probe_next:
                    ag = probe_next.pop(0)
                    outsider = [x for x in sess.gen.ips if x not in views[ag].controlled_hosts] or [IP("10.99.99.99")]
                    act = Action(ActionType.FindServices, {"source_host": rng.choice(outsider), "target_host": sess.gen.any_ip(views[ag])})
                tampered = views[ag] != last_returned[ag]       # the object the agent holds was changed behind its back
                rec = sess.step(views[ag], act, ag)
                stats.steps += 1
                if tampered and rec["pre"] and rec.get("new") is not None:
                    # C03: the result must be the documented effect applied to the view the agent was HANDED
                    sess.drv.ask({"op": "world", "world": rec["world"]})
                    m2 = sess.drv.ask({"op": "step", "view": C.view2j(last_returned[ag]), "action": rec["action"]})
                    sess.sync()
                    if not m2.get("raised") and C.canon_view(m2["view"]) != C.canon_view(C.view2j(rec["new"])):
                        on_fail("C03", "effect-beyond-documented:" + rec["action"]["t"],
                                f"{rec['action']['t']} returned more than its documented effect on the view the agent was last handed "
                                f"(the view it holds was changed by another agent's action) in {sess.label}",
                                replay_of(sess, rec, {"previous_view": C.view2j(last_returned[ag])}))
                t = rec["action"]["t"]
                stats.by_type[t] = stats.by_type.get(t, 0) + 1
                gkey = (t, tuple(rec["guards"]))
                if rec["pre"]:
                    stats.pre_true += 1
                else:
                    stats.pre_false += 1
                    if sum(1 for g in rec["guards"] if not g) == 1:
                        stats.one_guard_false.add((t, rec["guards"].index(False), json.dumps(rec["view"], sort_keys=True)[:0] + str(hash(json.dumps([rec["view"], rec["action"]], sort_keys=True)))))
                        stats.guard_only_false[(t, rec["guards"].index(False))] = stats.guard_only_false.get((t, rec["guards"].index(False)), 0) + 1
                if rec.get("model_raised") or rec.get("real_raised"):
                    stats.raised += 1
                if rec.get("new") is not None and not rec["pre"] and rec["new"] != last_returned[ag]:
                    on_fail("C02", "changed-vs-previous:" + t,
                            f"{t} with a false precondition returned a view that differs from the view returned to the agent before (in {sess.label})",
                            replay_of(sess, rec, {"previous_view": C.view2j(last_returned[ag])}))
                if not rec["agree"] and t == "scan" and rec.get("real_view") is not None and "known" in rec["diff"]:
                    extra = set(C.canon_view(rec["real_view"])["known"]) - set(C.canon_view(rec["model_view"])["known"])
                    if extra:
                        on_fail("C02", "scan-adds-unreachable",
                                f"ScanNetwork added hosts {sorted(extra)} that exist in the network but that the source may not connect to (firewall) in {sess.label}",
                                replay_of(sess, rec))
                if not rec["agree"] and nag > 1 and rec.get("real_view") is not None:
                    # several agents share the world: did the acting agent gain something its own action (on the
                    # shared tables as they are) does not justify?
                    rv, mv = C.canon_view(rec["real_view"]), C.canon_view(rec["model_view"])
                    gained = []
                    for part in ("controlled", "known", "nets"):
                        if set(rv[part]) - set(mv[part]):
                            gained.append(part)
                    for part in ("services", "data", "blocks"):
                        md = dict(mv[part])
                        for k, vals in rv[part]:
                            if set(vals) - set(md.get(k, [])):
                                gained.append(part)
                                break
                    if gained:
                        on_fail("C12", "gained:" + t + ":" + ",".join(gained),
                                f"with {nag} agents on the shared world, {t} gave the acting agent {gained} beyond what its own action yields on the shared tables ({sess.label})",
                                replay_of(sess, rec))
                if not rec["agree"]:
                    prop = "C03" if rec["pre"] else "C02"
                    on_fail(prop, sig_step(rec),
                            f"{t} with pre={rec['pre']} guards={rec['guards']} in {sess.label}: real result differs from the proved model in {rec['diff']}",
                            replay_of(sess, rec))
                new = rec.get("new")
                if new is None:
                    continue
                if t == "exfil" and rec["pre"]:
                    placed.setdefault(sess.w._ip_to_hostname.get(act.parameters["target_host"]), set()).add(act.parameters["data"])
                if wf and placed is not None:
                    gained = [(str(h), (d.owner, d.id)) for h, ds in new.known_data.items() for d in ds
                              if d not in views[ag].known_data.get(h, ()) and d not in placed.get(sess.w._ip_to_hostname.get(h), ())]
                    if gained:
                        on_fail("C11", "misplaced-datapoint:" + t, f"the view returned by {t} in {sess.label} reports datapoints at hosts where the scenario does not put them and nobody "
                                f"exfiltrated them in this episode: {gained[:3]}", replay_of(sess, rec))
                        for h, ds in new.known_data.items():
                            placed.setdefault(sess.w._ip_to_hostname.get(h), set()).update(ds)
                alien = [(str(k), (d.owner, d.id, d.size, d.type)) for k, ds in new.known_data.items() for d in ds if (d.owner, d.id, d.size, d.type) not in universe]
                if alien and wf:
                    on_fail("C11", "alien-datapoint:" + t, f"the view returned by {t} in {sess.label} holds datapoints that exist nowhere in the scenario: {alien[:3]}", replay_of(sess, rec))
                    universe |= {a[1] for a in alien}
                if rec.get("changed") and rec["pre"]:
                    stats.effective.add(hash(json.dumps([rec["view"], rec["action"]], sort_keys=True)))
                if len(stats.samples) < 4 and rec.get("changed"):
                    stats.samples.append({"scenario": sess.label, "view": rec["view"], "action": rec["action"], "pre": rec["pre"],
                                          "result_view": rec.get("real_view")})
                # C11: well-formedness and monotonicity on the REAL result, reachable views only
                if wf:
                    if rec.get("inv_before") and not rec.get("inv_after"):
                        on_fail("C11", "inv:" + t, f"view returned by {t} in {sess.label} is not well-formed (Inv false) although the previous view was",
                                replay_of(sess, rec))
                    if rec.get("le") is False:
                        on_fail("C11", "mono:" + t, f"view returned by {t} in {sess.label} lost elements (not monotone)", replay_of(sess, rec))
                    if rec.get("changed"):
                        stats.grew.add(hash(json.dumps([rec["view"], rec["action"]], sort_keys=True)))
                # aliasing: containers of the returned view must be private
                wc = {id(x) for x in containers_of_world(sess.w)}
                mine = containers_of_view(new)
                if any(id(x) in wc for x in mine):
                    on_fail("C11", "alias-world:" + t, f"{t} returned a view that shares a container object with the world tables", replay_of(sess, rec))
                prev_ids = {id(x) for hs in history for (_, vv) in hs for x in containers_of_view(vv)}
                if any(id(x) in prev_ids for x in mine):
                    on_fail("C11", "alias-view:" + t, f"{t} returned a view that shares a container object with a view returned earlier", replay_of(sess, rec))
                history[ag].append((copy.deepcopy(new), new))
                last_returned[ag] = copy.deepcopy(new)
                if act.type in (ActionType.ScanNetwork, ActionType.FindServices, ActionType.FindData) and len(readonly) < 40:
                    readonly.append((copy.deepcopy(views[ag]), act))
                views[ag] = new
                script.append((ag, act))
                # directed interference: right after an agent searched a host, ANOTHER agent (which controls that host and
                # a host holding data) copies data there / blocks there; then the first agent plays a refused action and
                # must be handed exactly the view it was handed before
                if t == "findData" and rec["pre"] and directed < 3 and rng.random() < 0.4:
                    H = act.parameters["target_host"]
                    cand = []
                    for ip, hn in sess.w._ip_to_hostname.items():
                        if ip != H:
                            for dd in sorted(sess.w._data.get(hn, ()), key=str):
                                cand.append((ip, dd))
                    if cand:
                        S, dd = rng.choice(cand)
                        vb = GameState(controlled_hosts={H, S}, known_hosts={H, S}, known_services={}, known_data={S: {dd}},
                                       known_networks=set(), known_blocks={})
                        views.append(vb)
                        history.append([(copy.deepcopy(vb), vb)])
                        last_returned.append(copy.deepcopy(vb))
                        nag += 1
                        directed += 1
                        stats.directed_interference = getattr(stats, "directed_interference", 0) + 1
                        if rng.random() < 0.75:
                            forced.append((nag - 1, Action(ActionType.ExfiltrateData, {"source_host": S, "target_host": H, "data": dd})))
                            # ... and then looks at a THIRD host it controls (preferably one that holds no data): the copy went to H
                            # and nowhere else
                            third = [ip for ip, hn in sorted(sess.w._ip_to_hostname.items(), key=lambda kv: str(kv[0])) if ip not in (H, S)]
                            empty = [ip for ip in third if not sess.w._data.get(sess.w._ip_to_hostname[ip])]
                            if third and rng.random() < 0.6:
                                H2 = rng.choice(empty or third)
                                vb.controlled_hosts.add(H2)
                                vb.known_hosts.add(H2)
                                history[-1] = [(copy.deepcopy(vb), vb)]
                                last_returned[-1] = copy.deepcopy(vb)
                                forced.append((nag - 1, Action(ActionType.FindData, {"source_host": H2, "target_host": H2})))
                        else:
                            forced.append((nag - 1, Action(ActionType.BlockIP, {"source_host": H, "target_host": H, "blocked_host": S})))
                        outsider = [x for x in sess.gen.ips if x not in new.controlled_hosts] or [IP("10.99.99.99")]
                        if rng.random() < 0.5:
                            forced.append((ag, Action(ActionType.FindServices, {"source_host": rng.choice(outsider), "target_host": H})))
                        else:
                            forced.append((ag, None))      # an ordinary action of the victim, drawn when its turn comes
                # every view returned earlier must still have its value
                for ag2, hs in enumerate(history):
                    for (snap, vv) in hs:
                        stats.snap_checks += 1
                        if vv != snap:
                            prop = "C11" if ag2 == ag else "C12"
                            on_fail(prop, "mutated-earlier-view:" + t,
                                    f"a view returned earlier to agent {ag2} changed when agent {ag} executed {t} in {sess.label}",
                                    replay_of(sess, rec, {"victim_agent": ag2, "acting_agent": ag}))
                            hs[[id(x[1]) for x in hs].index(id(vv))] = (copy.deepcopy(vv), vv)
                            if vv is views[ag2] and ag2 not in probe_next:
                                probe_next.append(ag2)
                if nag > 1 and rec.get("changed"):
                    stats.cross_agent.add(hash(json.dumps([rec["view"], rec["action"]], sort_keys=True)))
            if resets:
                r = sess.reset()
                placed = {hn: set(ds) for hn, ds in sess.data0.items()}
                stats.resets += 1
                if r["nontrivial"]:
                    stats.reset_nontrivial += 1
                if r["diff_model"] or r["diff_initial"]:
                    on_fail("C08", "reset:" + ",".join(sorted(set(r["diff_model"] + r["diff_initial"]))),
                            f"after reset in {sess.label} the world differs from its initial condition in {sorted(set(r['diff_model'] + r['diff_initial']))}",
                            {"kind": "reset", "scenario": sess.label, "script": [(a, C.action2j(x)) for a, x in script], **{k: r[k] for k in ('real', 'model', 'initial')}})
                # the world after a reset behaves as a fresh one: every read-only action of the episode, asked again from the
                # view the agent held then, must give what the model gives on the fresh tables (nothing remembered)
                for (vb, act) in readonly:
                    rec = sess.step(vb, act)
                    stats.post_reset_probes = getattr(stats, "post_reset_probes", 0) + 1
                    if rec.get("new") is not None and wf:
                        left = [(str(h), (d.owner, d.id)) for h, ds in rec["new"].known_data.items() for d in ds if d not in vb.known_data.get(h, ()) and d not in placed.get(sess.w._ip_to_hostname.get(h), ())]
                        if left:
                            on_fail("C11", "misplaced-datapoint-after-reset", f"after a reset in {sess.label}, {rec['action']['t']} reports datapoints at hosts where the scenario does not put them "
                                    f"(nobody has exfiltrated anything in the new episode): {left[:3]}", replay_of(sess, rec, {"script": [(a, C.action2j(x)) for a, x in script]}))
                    if not rec["agree"]:
                        on_fail("C08", "remembered-after-reset:" + rec["action"]["t"],
                                f"after a reset in {sess.label}, {rec['action']['t']} does not give what it gives on the initial world: differs in {rec['diff']}",
                                replay_of(sess, rec, {"script": [(a, C.action2j(x)) for a, x in script]}))
                        break
                # replay the same script on fresh views: observations must equal those of the first episode
                if script and rng.random() < 0.6:
                    first_obs = [h[:] for h in history]
                    views2 = [copy.deepcopy(h[0][0]) for h in history]
                    idx = [1] * nag
                    for (ag, act) in script:
                        try:
                            nv = world_step(sess.w, views2[ag], act, ag)
                        except Exception:
                            continue
                        sess.drv.ask({"op": "step", "view": C.view2j(views2[ag]), "action": C.action2j(act)})
                        exp = first_obs[ag][idx[ag]][0] if idx[ag] < len(first_obs[ag]) else None
                        idx[ag] += 1
                        if exp is not None and nv != exp:
                            on_fail("C08", "episode-differs:" + C.action2j(act)["t"],
                                    f"the same action sequence gave a different observation in the episode after a reset in {sess.label}",
                                    {"kind": "episode", "scenario": sess.label, "script": [(a, C.action2j(x)) for a, x in script],
                                     "first": C.view2j(exp), "second": C.view2j(nv)})
                            break
                        views2[ag] = nv
                    r2 = sess.reset()
                    stats.resets += 1
                    if r2["diff_model"] or r2["diff_initial"]:
                        on_fail("C08", "reset2:" + ",".join(sorted(set(r2["diff_model"] + r2["diff_initial"]))),
                                f"after the second reset in {sess.label} the world differs from its initial condition", {"kind": "reset", "scenario": sess.label})


def world_specs(rng, n_generated, shipped=True):
    specs = []
    if shipped:
        for sc in SHIPPED:
            for fw in (True, False):
                specs.append({"scenario": sc, "use_firewall": fw, "label": f"{sc}/fw={fw}"})
    for i in range(n_generated):
        s = rng.randrange(1 << 30)
        objs = gen_scenario(random.Random(s))
        fw = rng.random() < 0.75
        specs.append({"objects": objs, "use_firewall": fw, "label": f"generated(seed={s})/fw={fw}"})
    return specs
