"""Shared plumbing of all checks: paths, Lean build + audit, driver process, evidence, verdicts."""
from __future__ import annotations

import json
import os
import re
import subprocess
import sys
import time

VERIF = os.path.dirname(os.path.dirname(os.path.dirname(os.path.abspath(__file__))))
LEAN = os.path.join(VERIF, "lean")
REPO = os.environ.get("NSG_REPO", "/repo")
DRIVER = os.path.join(LEAN, ".lake", "build", "bin", "driver")
# evidence/ describes runs against /repo itself; a run against any other tree (developer runs on scratch worktrees with a
# seeded change applied) writes its evidence and replays to a scratch directory instead
_SCRATCH = None if os.path.realpath(REPO) == "/repo" else os.path.join("/tmp", "nsgverif-scratch", os.path.basename(os.path.realpath(REPO)))
EVIDENCE = os.environ.get("NSG_EVIDENCE_DIR") or (os.path.join(VERIF, "evidence") if _SCRATCH is None else os.path.join(_SCRATCH, "evidence"))
REPLAYS = os.environ.get("NSG_REPLAY_DIR") or (os.path.join(VERIF, "replays") if _SCRATCH is None else os.path.join(_SCRATCH, "replays"))   # written at run time (ignored by git)
ALLOWED_AXIOMS = {"propext", "Classical.choice", "Quot.sound"}
FORBIDDEN = re.compile(r"\b(sorry|admit|native_decide|bv_decide|implemented_by|maxHeartbeats 0)\b|^axiom |\bunsafe ")

TRUSTED_BASE = [
    "Lean 4.33.0 kernel; axioms limited to propext, Classical.choice, Quot.sound (audited by #print axioms on every run)",
    "hand-written Lean model (lean/NSG/Model/*) tied to /repo by differential execution through lean/Driver/Main.lean",
    "harness: cyst_compat shim, in-process coordinator simulation (fake asyncio.start_server, frozen clock), canonicalisation",
    "library behaviour assumed: json, ipaddress/netaddr, yaml, dataclasses.asdict, copy.deepcopy, asyncio primitives",
]


def seed():
    try:
        return int(os.environ.get("VERIF_SEED", "0"))
    except ValueError:
        return 0


class Timer:
    def __init__(self):
        self.t0 = time.time()

    def s(self):
        return round(time.time() - self.t0, 2)


# ---------------------------------------------------------------------------- Lean side
def run(cmd, cwd=None, timeout=3600):
    p = subprocess.run(cmd, cwd=cwd, capture_output=True, text=True, timeout=timeout)
    return p.returncode, p.stdout + p.stderr


def lake_build(targets):
    """Build the given lake targets (modules or 'driver'). Returns (ok, log)."""
    rc, out = run(["lake", "build"] + list(targets), cwd=LEAN)
    return rc == 0, out


def strip_comments(text):
    text = re.sub(r"/-.*?-/", "", text, flags=re.S)
    return "\n".join(l.split("--")[0] for l in text.splitlines())


def theorem_names(module):
    """Fully qualified theorem names declared in lean/<module path>.lean."""
    path = os.path.join(LEAN, module.replace(".", "/") + ".lean")
    src = strip_comments(open(path).read())
    names, ns = [], []
    for line in src.splitlines():
        m = re.match(r"\s*namespace\s+(\S+)", line)
        if m:
            ns.append(m.group(1)); continue
        m = re.match(r"\s*end\s+(\S+)", line)
        if m and ns and ns[-1] == m.group(1):
            ns.pop(); continue
        m = re.match(r"\s*(?:@\[[^\]]*\]\s*)?theorem\s+(\S+)", line)
        if m:
            names.append(".".join(ns + [m.group(1)]))
    return names


def forbidden_tokens(modules):
    """Occurrences of sorry/admit/axiom/native_decide/... outside comments in the given modules
    and in every model/lemma file."""
    hits = []
    files = set()
    for root, _, fs in os.walk(os.path.join(LEAN, "NSG")):
        for f in fs:
            if f.endswith(".lean"):
                files.add(os.path.join(root, f))
    for f in sorted(files):
        src = strip_comments(open(f).read())
        for i, line in enumerate(src.splitlines(), 1):
            if FORBIDDEN.search(line):
                hits.append(f"{os.path.relpath(f, LEAN)}:{i}: {line.strip()[:120]}")
    return hits


def audit(modules, extra_names=()):
    """#print axioms for every theorem of the modules. Returns dict with
    obligations, discharged, axioms_seen, failures (list of str)."""
    names = []
    for m in modules:
        names += theorem_names(m)
    names += list(extra_names)
    src = "".join(f"import {m}\n" for m in modules) + "".join(f"#print axioms {n}\n" for n in names)
    tmp = os.path.join(LEAN, ".lake", f"audit_{os.getpid()}.lean")
    os.makedirs(os.path.dirname(tmp), exist_ok=True)
    with open(tmp, "w") as f:
        f.write(src)
    # the report is a function of the Lean sources (model, lemmas, properties, generated tables) and of the list of names: it is
    # memoised under .lake/ keyed by the hash of exactly those texts (a changed source or regenerated table gives a new key)
    import hashlib
    h = hashlib.sha256(src.encode())
    for root, _, fs in sorted(os.walk(os.path.join(LEAN, "NSG"))):
        for fn in sorted(fs):
            if fn.endswith(".lean"):
                h.update(fn.encode() + b"\0" + open(os.path.join(root, fn), "rb").read() + b"\0")
    for fn in ("NSG.lean", "lakefile.toml", "lake-manifest.json"):
        if os.path.exists(os.path.join(LEAN, fn)):
            h.update(open(os.path.join(LEAN, fn), "rb").read())
    cache = os.path.join(LEAN, ".lake", "audit_cache", h.hexdigest() + ".txt")
    rc = out = None
    if os.path.exists(cache):
        try:
            out = open(cache).read()
            rc = 0
        except OSError:
            rc = out = None
    if out is None:
        try:
            rc, out = run(["lake", "env", "lean", tmp], cwd=LEAN)
        finally:
            try:
                os.remove(tmp)
            except OSError:
                pass
        if rc == 0:
            try:
                os.makedirs(os.path.dirname(cache), exist_ok=True)
                with open(cache + f".{os.getpid()}", "w") as f:
                    f.write(out)
                os.replace(cache + f".{os.getpid()}", cache)
            except OSError:
                pass
    else:
        try:
            os.remove(tmp)
        except OSError:
            pass
    failures, seen, ok_names = [], set(), []
    # parse: "'NAME' depends on axioms: [a, b]" or "'NAME' does not depend on any axioms"
    flat = re.sub(r"\s+", " ", out)
    for n in names:
        m = re.search(r"'" + re.escape(n) + r"' (does not depend on any axioms|depends on axioms: \[([^\]]*)\])", flat)
        if not m:
            failures.append(f"theorem {n}: no axiom report (does it still exist and type-check?)")
            continue
        axs = set(a.strip() for a in (m.group(2) or "").split(",") if a.strip())
        seen |= axs
        bad = axs - ALLOWED_AXIOMS
        if bad:
            failures.append(f"theorem {n} depends on disallowed axioms {sorted(bad)}")
        else:
            ok_names.append(n)
    if rc != 0 and not failures:
        failures.append("audit file did not elaborate: " + out[-400:])
    for h in forbidden_tokens(modules):
        failures.append("forbidden token: " + h)
    return {"obligations": len(names), "discharged": len(ok_names), "axioms_seen": sorted(seen),
            "theorems": names, "failures": failures}


def regenerate_tables():
    """Run the translator. Returns (tables dict or None, error string or None)."""
    try:
        from . import extract_tables
        return extract_tables.generate(), None
    except Exception as e:   # a construct the translator expects is gone: the obligation is not discharged
        return None, f"translator (extract_tables.py) could not read the current source: {e!r}"


def lean_gate(modules, need_driver=True):
    """Regenerate tables + build + audit. Returns (ok, info) with obligations/discharged/failures/log.
    Serialised across processes (several checks may run at once and share lean/.lake)."""
    import fcntl
    os.makedirs(os.path.join(LEAN, ".lake"), exist_ok=True)
    with open(os.path.join(LEAN, ".lake", "nsgverif.lock"), "w") as lock:
        fcntl.flock(lock, fcntl.LOCK_EX)
        try:
            return _lean_gate_locked(modules, need_driver)
        finally:
            fcntl.flock(lock, fcntl.LOCK_UN)


def _lean_gate_locked(modules, need_driver=True):
    tables, terr = regenerate_tables()
    ok, info = _lean_gate(modules, need_driver)
    info["tables"] = tables
    if terr:
        info["failures"] = [terr] + info.get("failures", [])
        ok = False
    return ok, info


def _lean_gate(modules, need_driver=True):
    drv_ok = True
    if need_driver:
        drv_ok, dlog = lake_build(["driver"])
    ok, log = lake_build(list(modules))
    # build_ok: the executable model is available, so the correspondence / failing-input search can run
    info = {"build_ok": drv_ok, "build_log_tail": log[-1500:] if not ok else ""}
    if not drv_ok:
        ok = False
        log = dlog
    if not ok:
        info.update({"obligations": sum(len(theorem_names(m)) for m in modules), "discharged": 0,
                     "failures": ["lake build failed: " + log[-600:]], "axioms_seen": [], "theorems": []})
        return False, info
    a = audit(modules)
    info.update(a)
    if os.environ.get("NSG_TIER") == "thorough" and not a["failures"]:
        # thorough tier: the toolchain's independent re-checker replays the compiled modules through the kernel
        rc, out = run(["lake", "env", "leanchecker"] + list(modules), cwd=LEAN)
        info["leanchecker"] = "ok" if rc == 0 else out[-400:]
        _GATE["leanchecker"] = "lake env leanchecker " + " ".join(modules) + ": " + ("accepted" if rc == 0 else "REJECTED")
        if rc != 0:
            a["failures"].append("leanchecker rejects the compiled modules: " + out[-300:])
    return not a["failures"], info


class Driver:
    """The compiled Lean model behind the line protocol."""

    def __init__(self):
        self.p = subprocess.Popen([DRIVER], stdin=subprocess.PIPE, stdout=subprocess.PIPE, text=True, bufsize=1)
        self.n = 0

    def ask_many(self, objs):
        """pipelined: write all requests from a thread, read all replies"""
        import threading
        lines = [json.dumps(o) + "\n" for o in objs]

        def w():
            for i in range(0, len(lines), 2000):
                self.p.stdin.write("".join(lines[i:i + 2000]))
            self.p.stdin.flush()
        t = threading.Thread(target=w)
        t.start()
        out = []
        for _ in lines:
            line = self.p.stdout.readline()
            if not line:
                raise RuntimeError("driver died")
            r = json.loads(line)
            if "bad-op" in r:
                raise RuntimeError("driver rejected a request: " + str(r["bad-op"]))
            out.append(r)
        t.join()
        self.n += len(lines)
        return out

    def ask(self, obj):
        self.p.stdin.write(json.dumps(obj) + "\n")
        self.p.stdin.flush()
        line = self.p.stdout.readline()
        if not line:
            raise RuntimeError("driver died")
        self.n += 1
        r = json.loads(line)
        if "bad-op" in r:
            raise RuntimeError(f"driver rejected {json.dumps(obj)[:300]}: {r['bad-op']}")
        return r

    def close(self):
        try:
            self.p.stdin.close()
            self.p.wait(timeout=5)
        except Exception:
            self.p.kill()


# ---------------------------------------------------------------------------- verdicts
def load_known():
    try:
        return json.load(open(os.path.join(VERIF, "known_findings.json"))).get("known", [])
    except Exception:
        return []


def write_replay(prop, name, obj):
    os.makedirs(os.path.join(REPLAYS, prop), exist_ok=True)
    path = os.path.join(REPLAYS, prop, name + ".json")
    with open(path, "w") as f:
        json.dump(obj, f, indent=1, default=str)
    return path


_GATE = {}


def guarded(prop, tier, fn):
    """Runs a check's main().  If the correspondence harness itself cannot complete on the current tree (an exception
    escapes it), the property is no longer shown to hold: that is reported as a violation without a failing input,
    naming the correspondence and the exception in the replay file."""
    import traceback
    try:
        return fn()
    except SystemExit:
        raise
    except BaseException as e:      # noqa: BLE001
        tb = traceback.format_exc()
        sys.stderr.write(tb)
        path = write_replay(prop, "correspondence-did-not-complete",
                            {"kind": "harness-exception", "what": f"the correspondence check of {prop} ({tier} tier) raised {e!r} and did not complete; no failing input was found",
                             "correspondence": f"bin/check {prop} --tier {tier}", "traceback": tb[-4000:]})
        try:
            write_evidence(prop, tier, "proof", {"obligations": 0, "discharged": 0, "evaluations": 0, "distinct_nontrivial": 0,
                                                  "rule": "the check did not complete", "error": repr(e)}, 0.0, 1)
        except Exception:
            pass
        print(f"VIOLATION property={prop} replay={path} no-failing-input-found")
        print(f"  the correspondence check raised {e!r} and did not complete (traceback in the replay file)")
        return 1


def write_evidence(prop, tier, level, coverage, wall_s, violations, assumptions=None):
    os.makedirs(EVIDENCE, exist_ok=True)
    if _GATE.get("leanchecker"):
        coverage = dict(coverage, independent_recheck=_GATE["leanchecker"])
    ev = {"property_id": prop, "tier": tier, "seed": seed(), "level": level, "coverage": coverage,
          "assumptions": assumptions or [], "wall_s": wall_s, "violations": violations}
    with open(os.path.join(EVIDENCE, prop + ".json"), "w") as f:
        json.dump(ev, f, indent=1, default=str)


class Verdict:
    """Collects failures of one check run and turns them into exit status / VIOLATION lines."""

    def __init__(self, prop):
        self.prop = prop
        self.failures = []        # (signature, description, replay_obj)
        self.proof_failures = []  # str
        self.known = [k for k in load_known() if k.get("property") == prop]

    def fail(self, signature, description, replay):
        self.failures.append((signature, description, replay))

    def proof_fail(self, what):
        self.proof_failures.append(what)

    def finish(self):
        """prints lines, returns (exit_code, n_violations)"""
        try:
            return self._finish()
        except BrokenPipeError:      # the reader of our stdout went away; the verdict stands
            n = len({f[0] for f in self.failures}) or (1 if self.proof_failures else 0)
            return (1 if n else 0), n

    def _finish(self):
        nviol = 0
        reported_known = set()
        seen_sigs = set()
        for sig, desc, replay in self.failures:
            k = next((k for k in self.known if k.get("signature") == sig), None)
            if k is not None:
                if sig not in reported_known:
                    print(f"KNOWN-FINDING: property={self.prop} {k.get('description', desc)}")
                    reported_known.add(sig)
                continue
            if sig in seen_sigs:
                continue
            seen_sigs.add(sig)
            path = write_replay(self.prop, re.sub(r"[^A-Za-z0-9_.-]+", "_", sig)[:80], {"property": self.prop, "signature": sig, "what": desc, "replay": replay,
                                                                                       "seed": seed(), "tier": os.environ.get("NSG_TIER", "quick")})
            print(f"VIOLATION property={self.prop} replay={path}")
            print(f"  {desc[:500]}")
            nviol += 1
        if self.proof_failures and nviol == 0:
            path = write_replay(self.prop, "proof_obligation", {"property": self.prop, "broken": self.proof_failures,
                                "note": "a proof obligation or the model/code correspondence no longer checks and the failing-input search found no concrete failing input"})
            print(f"VIOLATION property={self.prop} replay={path} no-failing-input-found")
            for p in self.proof_failures[:5]:
                print("  " + p[:400])
            nviol += 1
        return (1 if nviol else 0), nviol
