"""Coordinator-level engine: random multi-agent sessions executed by the real coordinator
(in-process, `sim.Sim`) and by the Lean sequential model `NSG.Coord.deliver` (open mode: world
results, initial/reset views and defender rolls are passed to the model as oracle values).

Every disagreement between the real outputs / state and the model is tagged with the properties
in whose scope it lies; independent oracles written from the property statements (answered exactly
once, barrier discipline, bonus once, FORBIDDEN after end, trajectory = what was sent, slots) are
evaluated on the real trace as well.
"""
from __future__ import annotations

import copy
import json
import os
import random
from fractions import Fraction

from . import cyst_compat  # noqa: F401
from AIDojoCoordinator.game_components import (Action, ActionType, AgentInfo, IP, Network, Service, Data,
                                               GameState, AgentStatus)
import AIDojoCoordinator.global_defender as GD
from . import canon as C
from .sim import Sim, default_config, parse_reply
from .check_world import Gen

ROLES = ["Attacker", "Defender", "Benign"]
PEER = lambda cid: ("127.0.0.1", 40000 + cid)

BAD_KINDS = ["not-json", "json-number", "json-list", "no-action-type", "no-parameters", "unknown-type",
             "unknown-param", "param-wrong-shape", "invalid-ip", "missing-required", "undecodable-bytes",
             "invalid-network", "empty", "params-not-dict", "extra-field-in-value", "invalid-utf8-in-json", "invalid-utf8-in-json", "reset-bad-flag", "reset-bad-flag", "reset-unknown-param", "join-wrong-shape", "join-wrong-shape", "network-mask-not-int", "garbage-buffer-size", "ip-not-a-string", "missing-required"]


def bad_message(kind, rng):
    src = {"ip": "192.168.2.2"}
    if kind == "not-json":
        return b"{this is not json"
    if kind == "json-number":
        return b"42"
    if kind == "json-list":
        return b'["ScanNetwork", {}]'
    if kind == "no-action-type":
        return json.dumps({"parameters": {}}).encode()
    if kind == "no-parameters":
        return json.dumps({"action_type": "ActionType.FindServices"}).encode()
    if kind == "unknown-type":
        return json.dumps({"action_type": "ActionType.Teleport", "parameters": {}}).encode()
    if kind == "unknown-param":
        return json.dumps({"action_type": "ActionType.FindServices", "parameters": {"source_host": src, "target_host": src, "speed": "9"}}).encode()
    if kind == "param-wrong-shape":
        return json.dumps({"action_type": "ActionType.FindServices", "parameters": {"source_host": "192.168.2.2", "target_host": src}}).encode()
    if kind == "invalid-ip":
        return json.dumps({"action_type": "ActionType.FindServices", "parameters": {"source_host": {"ip": "300.1.1.1"}, "target_host": src}}).encode()
    if kind == "missing-required":
        t, p = rng.choice([("ScanNetwork", {"source_host": src}), ("FindServices", {"source_host": src}),
                           ("ExploitService", {"source_host": src, "target_host": src}), ("ExfiltrateData", {"source_host": src, "target_host": src}),
                           ("BlockIP", {"source_host": src, "target_host": src}), ("FindData", {"target_host": src}), ("JoinGame", {})])
        return json.dumps({"action_type": "ActionType." + t, "parameters": p}).encode()
    if kind == "undecodable-bytes":
        return b"\xff\xfe{\x80"
    if kind == "invalid-network":
        return json.dumps({"action_type": "ActionType.ScanNetwork", "parameters": {"source_host": src, "target_network": {"ip": rng.choice(["999.1.1.1", "10.0.0.0"]), "mask": rng.choice([99, 24]) if False else 99}}}).encode()
    if kind == "empty":
        return b"   "
    if kind == "params-not-dict":
        return json.dumps({"action_type": "ActionType.ScanNetwork", "parameters": [1, 2]}).encode()
    if kind == "invalid-utf8-in-json":
        good = json.dumps({"action_type": "ActionType.FindServices", "parameters": {"source_host": src, "target_host": {"ip": "192.168.1.2"}}}).encode()
        i = rng.choice([0, 1, len(good) // 2, len(good)])
        return good[:i] + rng.choice([b"\xff\xfe", b"\xc3", b"\x80"]) + good[i:]
    if kind == "ip-not-a-string":      # an address written as a number or a boolean is not an address
        return json.dumps({"action_type": "ActionType." + rng.choice(["FindServices", "FindData", "ResetGame", "JoinGame"]),
                           "parameters": {"source_host": {"ip": rng.choice([3232236034, True, 0, 1.5])}, "target_host": {"ip": "192.168.1.2"}}}).encode()
    if kind == "extra-field-in-value":
        return json.dumps({"action_type": "ActionType.FindServices", "parameters": {"source_host": {"ip": "192.168.2.2", "x": 1}, "target_host": src}}).encode()
    if kind == "network-mask-not-int":
        return json.dumps({"action_type": "ActionType.ScanNetwork", "parameters": {"source_host": src, "target_network": {"ip": rng.choice(["192.168.1.0", "192.168.1.0", "192.168.2.0", "192.168.3.0"]),
                           # 24.0 == 24 and False == 0 in Python: values that EQUAL the mask of a network that is scanned all the time, but are not integers
                           "mask": rng.choice(["24", True, False, 24.9, None, [24], 24.0, 24.0, 24.0, 0.0, 16.0])}}}).encode()
    if kind == "reset-bad-flag":     # the value is not the text of a boolean
        return json.dumps({"action_type": "ActionType.ResetGame", "parameters": {"request_trajectory": rng.choice(["maybe", "1", "yes", "None", "[1, 2]", "true ", "'True'"])}}).encode()
    if kind == "reset-unknown-param":
        return json.dumps({"action_type": "ActionType." + rng.choice(["ResetGame", "QuitGame", "JoinGame"]), "parameters": {"speed": "9"}}).encode()
    if kind == "join-wrong-shape":
        return json.dumps({"action_type": "ActionType.JoinGame", "parameters": {"agent_info": rng.choice(["Attacker", {"name": "x"}, ["x", "Attacker"], {"name": "x", "role": "Attacker", "team": 1},
                                                                                                       # a role that is not even a string (unhashable / number / null)
                                                                                                       {"name": "x", "role": ["Attacker"]}, {"name": "x", "role": {"Attacker": 1}},
                                                                                                       {"name": "x", "role": 7}, {"name": "x", "role": None}])}}).encode()
    if kind == "garbage-buffer-size":      # exactly as long as the server's read buffer (one read = one message still holds)
        return (b"{" + b"x" * 8191) if rng.random() < 0.5 else (b" " * 8192)
    raise ValueError(kind)


def gen_config(rng, scenario="scenario1_small"):
    """A task configuration + the settings the model needs."""
    required = rng.choice([1, 1, 2, 2, 2, 3, 3, 4])
    ms_att = rng.choice([1, 2, 3, 4, 6, 8, None, 0])
    ms_def = rng.choice([None, None, 2, 5])
    rewards = rng.choice([{"step": -1, "success": 100, "fail": -10}, {"step": 0, "success": 7, "fail": -3},
                          {"step": -2, "success": 50}, {}, {"step": 1, "success": 0, "fail": 5},
                          {"success": 70, "fail": -7}, {"step": -1, "fail": -10}, {"fail": -4},
                          {"step": -0.5, "success": 10.5, "fail": -2.25}, {"step": -0.25, "fail": -1.5}, {"step": -0.125, "success": 3.375, "fail": -0.625}])
    goal_kind = rng.choice(["data", "known_host", "controlled", "network", "trivial", "services", "blocks", "data2", "data3", "data3r", "data_empty", "blocks2", "blocks2r", "hosts2"])
    goal = {"known_networks": [], "known_hosts": [], "controlled_hosts": [], "known_services": {}, "known_data": {}, "known_blocks": {}}
    if goal_kind == "data":
        goal["known_data"] = {"213.47.23.195": [["User1", "DataFromServer1"]]}
    elif goal_kind == "data2":
        goal["known_data"] = {"213.47.23.195": [["User1", "DataFromServer1"]], "192.168.1.2": [["User2", "Data2FromServer1"]]}
    elif goal_kind == "data_empty":
        goal["known_data"] = {"213.47.23.195": []}          # "some entry for this host": met by the first datapoint brought there
    elif goal_kind == "data3":
        goal["known_data"] = {"213.47.23.195": [["User1", "DataFromServer1"], ["User2", "Data2FromServer1"]]}
    elif goal_kind == "data3r":
        goal["known_data"] = {"213.47.23.195": [["User2", "Data2FromServer1"], ["User1", "DataFromServer1"]]}
    elif goal_kind == "blocks2":
        goal["known_blocks"] = {"192.168.2.2": ["192.168.1.3"], "192.168.1.6": ["192.168.1.5"]}
    elif goal_kind == "blocks2r":
        goal["known_blocks"] = {"192.168.1.6": ["192.168.1.5"], "192.168.2.2": ["192.168.1.3"]}
    elif goal_kind == "hosts2":
        goal["known_hosts"] = ["192.168.1.2", "192.168.1.4"]
        goal["known_networks"] = ["192.168.1.0/24"]
    elif goal_kind == "known_host":
        goal["known_hosts"] = [rng.choice(["192.168.1.2", "192.168.1.3", "192.168.1.4"])]
    elif goal_kind == "controlled":
        goal["controlled_hosts"] = [rng.choice(["192.168.1.2", "192.168.1.3"])]
    elif goal_kind == "network":
        goal["known_networks"] = ["192.168.1.0/24"]
    elif goal_kind == "services":
        goal["known_services"] = {"192.168.1.3": ["postgresql", "passive", "14.3.0", False]}
    elif goal_kind == "blocks":
        goal["known_blocks"] = {"192.168.2.2": ["192.168.1.3"]}
    start_ctrl = rng.choice([["213.47.23.195", "192.168.2.2"], ["192.168.2.2"], ["213.47.23.195", "192.168.1.5", "random"], ["192.168.2.2", "192.168.1.2"]])
    dgoal = {"known_networks": [], "known_hosts": [], "controlled_hosts": [], "known_services": {}, "known_data": {}, "known_blocks": {}}
    if rng.random() < 0.3:
        dgoal["known_blocks"] = {"192.168.1.2": ["192.168.2.2"]}
    start_data = {"192.168.2.2": [["User1", "StartData"]]} if ("192.168.2.2" in start_ctrl and rng.random() < 0.4) else {}
    att = {"goal": dict(goal, description="goal"), "start_position": {"known_networks": rng.choice([[], [], ["213.47.23.192/26"], ["192.168.1.0/24", "213.47.23.192/26"]]), "known_hosts": rng.choice([[], [], ["192.168.1.3"]]), "controlled_hosts": start_ctrl,
                                                                      "known_services": {}, "known_data": start_data, "known_blocks": {}}}
    if ms_att is not None:
        att["max_steps"] = ms_att
    dfd = {"goal": dict(dgoal, description="defend"), "start_position": {"known_networks": [], "known_hosts": [], "controlled_hosts": rng.choice([["192.168.1.2"], ["192.168.1.2"], ["192.168.1.2", "192.168.2.2"], ["192.168.1.2", "192.168.2.2"], ["all_local"], ["all_local"], []]),
                                                                         "known_services": {}, "known_data": {}, "known_blocks": {}}}
    if ms_def is not None:
        dfd["max_steps"] = ms_def
    env = {"random_seed": 42, "scenario": scenario, "use_global_defender": rng.random() < 0.35, "use_dynamic_addresses": False,
           "use_firewall": rng.random() < 0.8, "save_trajectories": rng.random() < 0.3, "required_players": required}
    if rewards or rng.random() < 0.5:
        env["rewards"] = rewards
    cfg = {"coordinator": {"agents": {"Attacker": att, "Defender": dfd}}, "env": env}
    return cfg


def gen_config_outcomes(rng, scenario="scenario1_small"):
    """Configurations for outcome mixes: 3-4 players, a goal one scan away, short step limits."""
    cfg = gen_config(rng, scenario)
    cfg["env"]["required_players"] = rng.choice([2, 3, 3, 4])
    att = cfg["coordinator"]["agents"]["Attacker"]
    att["max_steps"] = rng.choice([1, 2, 3, 4])
    att["goal"].update({"known_networks": [], "known_hosts": [rng.choice(["192.168.1.2", "192.168.1.4"])], "controlled_hosts": [],
                        "known_services": {}, "known_data": {}, "known_blocks": {}})
    att["start_position"]["controlled_hosts"] = ["213.47.23.195", "192.168.2.2"]
    cfg["env"]["use_firewall"] = True
    return cfg


def goal2j(g):
    return {"nets": [C.net2j(n) for n in g["known_networks"]], "known": [C.ip2n(x) for x in g["known_hosts"]],
            "controlled": [C.ip2n(x) for x in g["controlled_hosts"]],
            "services": [[C.ip2n(k), [C.svc2j(s) for s in v]] for k, v in g["known_services"].items()],
            "data": [[C.ip2n(k), [C.data2j(d) for d in v]] for k, v in g["known_data"].items()],
            "blocks": [[C.ip2n(k), [C.ip2n(x) for x in v]] for k, v in g["known_blocks"].items()]}


REWARD_SCALE = 8   # configured rewards may be multiples of 1/8; the model (integers) sees them times 8


def scaled(x):
    """a real reward in the model's unit (exact for multiples of 1/8; anything else stays a float and mismatches)"""
    if isinstance(x, bool) or not isinstance(x, (int, float)):
        return x
    y = x * REWARD_SCALE
    return int(y) if y == int(y) else y


def goal_as_written(g):
    """The goal of a role as the task configuration WRITES it (no wildcards), in the shape of the parsed win conditions;
    None when the section uses something this independent reading does not cover."""
    try:
        out = {"known_networks": set(), "known_hosts": set(), "controlled_hosts": set(), "known_services": {}, "known_data": {}, "known_blocks": {}}
        for n in g.get("known_networks", []):
            ip, m = n.split("/")
            out["known_networks"].add(Network(ip, int(m)))
        for k in ("known_hosts", "controlled_hosts"):
            for x in g.get(k, []):
                if x in ("random", "all_local"):
                    return None
                out[k].add(IP(x))
        for h, v in g.get("known_services", {}).items():
            if isinstance(v, str):
                return None
            out["known_services"][IP(h)] = {Service(v[0], v[1], v[2], v[3])}
        for h, v in g.get("known_data", {}).items():
            items = set()
            for d in v:
                if not isinstance(d, list):
                    return None
                items.add(Data(d[0], d[1]))
            out["known_data"][IP(h)] = items
        for h, v in g.get("known_blocks", {}).items():
            if isinstance(v, str):
                return None
            out["known_blocks"][IP(h)] = {IP(x) for x in v}
        return out
    except Exception:
        return None


def canon_goal(gj):
    return json.dumps({"nets": sorted(map(json.dumps, gj["nets"])), "known": sorted(gj["known"]), "controlled": sorted(gj["controlled"]),
                       **{k: sorted((h, sorted(map(json.dumps, v))) for h, v in gj[k]) for k in ("services", "data", "blocks")}}, sort_keys=True)


def settings_of(coord):
    """Model settings read from the *running* coordinator (what it parsed, not what we wrote)."""
    r = {k: scaled(v) for k, v in coord._rewards.items()}
    return {"required": coord._min_required_players,
            "maxSteps": {k: coord._steps_limit_per_role.get(k) for k in ROLES},
            "rStep": r["step"], "rSuccess": r["success"], "rFail": r["fail"],
            "goal": {k: goal2j(coord._win_conditions_per_role[k]) for k in ROLES},
            "defender": coord._global_defender is not None, "tw": 5,
            "storeTraj": bool(coord.task_config.get_store_trajectories())}


_settings_of_running = settings_of


def settings_rewards_as_written(coord):
    """Model settings as `settings_of`, but the three rewards are the values WRITTEN in the task configuration (absent: the
    documented default 0), not what the coordinator made of them: 'the fail reward' / 'the configured reward' is the
    file's value."""
    s = _settings_of_running(coord)
    rw = ((coord.task_config.config.get("env") or {}).get("rewards")) or {}
    for k, f in (("step", "rStep"), ("success", "rSuccess"), ("fail", "rFail")):
        s[f] = scaled(rw.get(k, 0))
    return s


STATUS = {"AgentStatus.Playing": "Playing", "AgentStatus.PlayingWithTimeout": "PlayingWithTimeout",
          "AgentStatus.TimeoutReached": "TimeoutReached", "AgentStatus.Success": "Success", "AgentStatus.Fail": "Fail"}
CODE = {"GameStatus.OK": "OK", "GameStatus.CREATED": "CREATED", "GameStatus.RESET_DONE": "RESET_DONE",
        "GameStatus.BAD_REQUEST": "BAD_REQUEST", "GameStatus.FORBIDDEN": "FORBIDDEN"}


class Session:
    """One coordinator session, real and model side by side."""

    def __init__(self, drv, rng, cfg, defender_tables, fail, stats, label=""):
        self.drv, self.rng, self.cfg, self.fail, self.stats, self.label = drv, rng, cfg, fail, stats, label
        self.cfg0 = copy.deepcopy(cfg)
        self.sim = Sim(cfg)
        self.coord = self.sim.coord
        self.events = []          # replayable log
        self.keys = {}
        self.oracle = {}
        self.awaiting = {}        # cid -> description of the unanswered request
        self.last_msg = {}        # cid -> the last message event fed on that connection
        self.sent_actions = {}    # cid -> the executed game actions of the running episode as they were sent (None: no longer tracked)
        self.last_view_obj = {}   # cid -> the view object last sent to that connection
        self.placed0 = None       # node -> datapoints the scenario puts there (captured before anybody acted)
        self.placed_extra = {}    # node -> datapoints exfiltrated there since the last completed reset
        self.pending_leave = {}   # cid -> kind (eof / readerr noticed only after the reply)
        self.next_cid = 0
        self.alive = set()
        self.joined_name = {}
        self.sent_log = {}        # cid -> list of (action key, reward, view canon) OK replies of the running episode
        self.sent_lost = {}       # cid -> an OK reply of the running episode was lost (write failure): the log is incomplete
        self.init_view = {}
        self.bonus_seen = {}      # (cid, episode) -> count of final observations
        self.episode = {}
        self.gen = None
        self.roll = 0.5
        self._install_wrappers()
        drv.ask({"op": "tables", "tables": defender_tables})
        self.settings = settings_of(self.coord)
        want = {k: (cfg.get("env", {}).get("rewards") or {}).get(k, 0) for k in ("step", "success", "fail")}
        got = {k: self.coord._rewards.get(k) for k in ("step", "success", "fail")} if getattr(self.coord, "_rewards", None) is not None else None
        if got is not None and got != want:
            fail({"C05", "C19"}, "rewards-not-as-configured", f"the game uses rewards {got} but the configuration says {want} (absent = 0)", {"kind": "config", "config": cfg})
        if not cfg["env"].get("use_dynamic_addresses"):
            for role in ("Attacker", "Defender"):
                gw = goal_as_written(cfg["coordinator"]["agents"][role]["goal"])
                if gw is not None and canon_goal(goal2j(gw)) != canon_goal(self.settings["goal"][role]):
                    fail({"C04", "C19"}, "goal-not-as-configured", f"the {role} goal the game checks is not the configured one: configured {cfg['coordinator']['agents'][role]['goal']}, "
                         f"used {self.settings['goal'][role]}", {"kind": "config", "config": cfg})
                    self.settings["goal"][role] = goal2j(gw)
        # static addresses: the goals stay what the configuration writes, for the whole session (whatever any agent achieves)
        self.goal_written = {}
        if not cfg["env"].get("use_dynamic_addresses"):
            for role in ("Attacker", "Defender"):
                gw = goal_as_written(cfg["coordinator"]["agents"][role]["goal"])
                if gw is not None:
                    self.goal_written[role] = canon_goal(goal2j(gw))
        drv.ask({"op": "coord_init", "settings": self.settings})
        self.model_state = None
        self.broken = False
        self.diverged = False
        self.world0 = None
        self.focus = stats.get("focus")
        self.ignored_fields = set()

    # ---------------------------------------------------------------- instrumentation (harness side only)
    def _install_wrappers(self):
        co = self.coord
        orig_step, orig_reg, orig_reset_agent = co.step, co.register_agent, co.reset_agent
        sess = self

        async def step(agent_id, agent_state, action):
            o = sess.oracle.setdefault(agent_id[1] - 40000, {})
            try:
                r = await orig_step(agent_id=agent_id, agent_state=agent_state, action=action)
            except Exception:
                o["stepView"] = None
                o["stepCalled"] = True
                raise
            o["stepView"] = C.view2j(r)
            o["stepCalled"] = True
            try:      # where datapoints are put by exfiltrations (whether or not the reply reaches the agent)
                if action.type == ActionType.ExfiltrateData:
                    t, d = action.parameters.get("target_host"), action.parameters.get("data")
                    if d in r.known_data.get(t, ()) and d not in agent_state.known_data.get(t, ()):
                        sess.placed_extra.setdefault(co._ip_to_hostname.get(t), set()).add(d)
            except Exception:
                pass
            return r

        async def register_agent(agent_id, agent_role, agent_initial_view):
            r = await orig_reg(agent_id, agent_role, agent_initial_view)
            sess.oracle.setdefault(agent_id[1] - 40000, {})["initView"] = C.view2j(r)
            return r

        async def reset_agent(agent_id, agent_role, agent_initial_view):
            r = await orig_reset_agent(agent_id, agent_role, agent_initial_view)
            # the latest reset wins (several resets inside one burst are possible)
            rv = sess.oracle.setdefault("reset", {})
            rv[agent_id[1] - 40000] = C.view2j(r)
            return r
        co.step, co.register_agent, co.reset_agent = step, register_agent, reset_agent
        self._orig_random = GD.random
        GD.random = lambda: sess.roll

    def close(self):
        GD.random = self._orig_random
        self.sim.close()

    def akey(self, a: Action):
        k = json.dumps(a.as_dict, sort_keys=True)
        return [a.type.value, self.keys.setdefault(k, len(self.keys))]

    # ---------------------------------------------------------------- real side observation
    def real_state(self):
        co = self.coord
        ags = []
        for addr in co.agents:
            cid = addr[1] - 40000
            tr = co._agent_trajectories.get(addr, {"trajectory": {"states": [], "actions": [], "rewards": []}})["trajectory"]
            ob = co._agent_observations.get(addr)
            ags.append([cid, {
                "name": co.agents[addr][0], "role": co.agents[addr][1],
                "view": C.canon_view(C.view2j(co._agent_states[addr])), "steps": co._agent_steps[addr],
                "status": STATUS[str(co._agent_status[addr])], "ended": bool(co._episode_ends[addr]),
                "resetReq": bool(co._reset_requests[addr]), "reward": scaled(co._agent_rewards[addr]),
                # internal bookkeeping: compared only while it is kept as a collection of addresses; under any other
                # representation the bonus is judged by what it does to the rewards (state "reward" and the replies)
                "paid": (addr in co._episode_rewards_assigned) if hasattr(getattr(co, "_episode_rewards_assigned", None), "__contains__") else None,
                "obs": None if ob is None else {"view": C.canon_view(C.view2j(ob.state)), "reward": scaled(ob.reward), "end": bool(ob.end),
                                                "reason": STATUS.get(ob.info.get("end_reason")) if ob.info else None},
                "traj_len": len(tr["actions"]), "traj_rewards": [scaled(x) for x in tr["rewards"]],
                "traj_states": len(tr["states"]),
            }])
        conns = []
        for cid, c in sorted(self.sim.conns.items()):
            if c.task.done():
                ph = "closed"
            elif cid in self.awaiting:
                # which barrier the unanswered request waits at, read off the coordinator's own tables
                k = self.awaiting[cid].get("k")
                addr = PEER(cid)
                if k == "join":
                    ph = "parked:joinStart"
                elif k == "game":
                    ph = "parked:gameEnd"
                elif k == "reset":
                    ph = "parked:resetWait" if co._reset_requests.get(addr) else "parked:resetStart"
                else:
                    ph = "awaiting"
            else:
                ph = "reading"
            conns.append([cid, ph])
        return {"slots": self.sim.server_cb.current_connections, "ids": [a[1] - 40000 for a in co.agents],
                "startEv": co._episode_start_event.is_set(), "agents": ags, "conns": conns,
                "tasks_alive": sorted(self.sim.background_alive())}

    @staticmethod
    def model_state_canon(ms):
        ags = []
        for cid, a in ms["agents"]:
            ags.append([cid, {"name": a["name"], "role": a["role"], "view": C.canon_view(a["view"]), "steps": a["steps"], "status": a["status"],
                              "ended": a["ended"], "resetReq": a["resetReq"], "reward": a["reward"], "paid": a["paid"],
                              "obs": {"view": C.canon_view(a["obs"]["view"]), "reward": a["obs"]["reward"], "end": a["obs"]["end"], "reason": a["obs"]["reason"]},
                              "traj_len": len(a["traj"]), "traj_rewards": [t["reward"] for t in a["traj"]], "traj_states": len(a["traj"]) + 1}])
        conns = []
        for cid, ph in sorted(ms["conns"]):
            ph = "closed" if ph in ("closed", "absent") else ph
            conns.append([cid, ph])
        return {"slots": ms["slots"], "ids": ms["ids"], "startEv": ms["startEv"], "agents": ags, "conns": conns}

    def parse_real_outputs(self):
        outs = []
        for cid, kind, payload in self.sim.outputs():
            if kind == "closed":
                outs.append({"k": "closed", "c": cid})
                continue
            ok, j = parse_reply(payload)
            if not ok or not isinstance(j, dict):
                self.fail({"C15", "C01"}, "framing", f"response to connection {cid} is not one JSON document followed by the end-of-message marker: {payload[:120]!r}", self.replay())
                outs.append({"k": "reply", "c": cid, "code": None})
                continue
            r = {"k": "reply", "c": cid, "code": CODE.get(j.get("status")), "raw": j}
            if list(j.get("to_agent", [])) != list(PEER(cid)):
                self.fail({"C01"}, "addressee", f"response written to connection {cid} is addressed to {j.get('to_agent')}", self.replay())
            ob = j.get("observation")
            if ob is not None:
                try:
                    st = GameState.from_dict(ob["state"])
                    r["obs"] = {"view": C.canon_view(C.view2j(st)), "reward": scaled(ob["reward"]), "end": bool(ob["end"]),
                                "reason": STATUS.get((ob.get("info") or {}).get("end_reason"))}
                    r["obs_view_raw"] = C.view2j(st)
                    # C15: the view inside the response decodes to exactly (==) the view the coordinator holds for that agent -
                    # also where both list the same elements but the held view is built from other container types
                    held = self.coord._agent_states.get(PEER(cid))
                    if held is not None and PEER(cid) in self.coord.agents and not (st == held):
                        try:
                            same_elems = C.canon_view(C.view2j(held)) == r["obs"]["view"]
                        except Exception:
                            same_elems = False
                        if not same_elems:
                            self.fail({"C15"}, "sent-view-differs-from-held", f"the view in the {r['code']} response to connection {cid} is not the view the coordinator holds for that agent "
                                      f"(parts that differ: {C.diff_canon(r['obs']['view'], C.canon_view(C.view2j(held)))})", self.replay())
                        if same_elems:
                            odd = sorted({f"{part}[{k}]: {type(v).__name__}" for part in ("known_services", "known_data", "known_blocks") for k, v in getattr(held, part).items() if not isinstance(v, (set, frozenset))}
                                         | {f"{part}: {type(getattr(held, part)).__name__}" for part in ("known_networks", "known_hosts", "controlled_hosts") if not isinstance(getattr(held, part), (set, frozenset))})
                            self.fail({"C15"}, "sent-view-not-equal-held", f"the view in the {r['code']} response to connection {cid} lists the same elements as the view the coordinator holds for that agent, "
                                      f"but decoding it does not give an equal view (== is False); held containers of unexpected type: {odd[:4]}", self.replay())
                except Exception as e:
                    self.fail({"C15"}, "undecodable-view", f"view in a response does not decode: {e!r}", self.replay())
            msg = j.get("message")
            if isinstance(msg, dict):
                if "max_steps" in msg:
                    r["maxSteps"] = msg["max_steps"]
                    r["hasMaxSteps"] = True
                if "last_trajectory" in msg:
                    lt = msg["last_trajectory"]["trajectory"]
                    r["traj"] = {"n_states": len(lt["states"]), "n_actions": len(lt["actions"]), "rewards": [scaled(x) for x in lt["rewards"]],
                                 "actions": [json.dumps(a, sort_keys=True) for a in lt["actions"]],
                                 "states": [C.canon_view(C.view2j(GameState.from_dict(s))) for s in lt["states"]]}
                    r["traj_meta"] = {k: msg["last_trajectory"].get(k) for k in ("agent_role", "agent_name", "end_reason")}
            outs.append(r)
        return outs

    def _placed_check(self, c, o):
        """C11 'at the place where it is reported': a datapoint that appears in a view at host h (and was not in the view sent to that
        agent before) is one the scenario puts on h's node or one exfiltrated there since the last completed reset (static addresses)."""
        try:
            self._placed_check_inner(c, o)
        except Exception:       # values outside the modelled space (an unhashable field that a defective tree let through): not this oracle's business
            pass

    def _placed_check_inner(self, c, o):
        co = self.coord
        if self.cfg["env"].get("use_dynamic_addresses") or self.placed0 is None:
            return
        try:
            v = GameState.from_dict(o["raw"]["observation"]["state"])
        except Exception:
            return
        prev = self.last_view_obj.get(c)
        self.last_view_obj[c] = v
        lm = self.last_msg.get(c)
        try:
            act = Action.from_json(lm["raw_bytes"].decode()) if lm is not None and lm["m"].get("k") == "game" else None
        except Exception:
            act = None
        if act is not None and act.type == ActionType.ExfiltrateData:
            t, d = act.parameters.get("target_host"), act.parameters.get("data")
            if t is not None and d is not None and d in v.known_data.get(t, ()) and (prev is None or d not in prev.known_data.get(t, ())):
                self.placed_extra.setdefault(co._ip_to_hostname.get(t), set()).add(d)
        if prev is None:
            return
        bad = [(str(h), (d.owner, d.id)) for h, ds in v.known_data.items() for d in ds
               if d not in prev.known_data.get(h, ()) and d not in self.placed0.get(co._ip_to_hostname.get(h), ()) and d not in self.placed_extra.get(co._ip_to_hostname.get(h), ())]
        self.stats["placed_checks"] = self.stats.get("placed_checks", 0) + 1
        if bad:
            self.fail({"C11"} | ({"C08"} if self.episode.get(c, 0) > 1 else set()), "misplaced-datapoint", f"the view sent to connection {c} reports datapoints at hosts where the scenario does not put them and where "
                      f"nobody has exfiltrated them since the last completed reset: {bad[:3]}", self.replay())
            for h, ds in v.known_data.items():
                self.placed_extra.setdefault(co._ip_to_hostname.get(h), set()).update(ds)

    def replay(self):
        return {"kind": "coord-session", "config": self.cfg, "events": self.events, "label": self.label}

    # ---------------------------------------------------------------- one event on both sides
    def _oracle_json(self, cid):
        o = self.oracle.get(cid, {})
        fr = Fraction(self.roll)
        return {"stepView": o.get("stepView") if o.get("stepCalled") else None, "initView": o.get("initView"),
                "resetView": [[c, v] for c, v in sorted(self.oracle.get("reset", {}).items())], "roll": [fr.numerator, fr.denominator]}

    def _oracle_only(self, evs, gaps):
        """after model and implementation have diverged: the session goes on on the real side only, judged by the
        oracles written from the property statements (answered exactly once, documented barriers, bonus once ...)"""
        before = None
        applied = []
        self.roll = evs[0].get("roll", 0.5)
        for ev, gap in zip(evs, gaps):
            mes = self._apply_real(ev)
            if mes is None:
                continue
            log = {k: v for k, v in ev.items() if k not in ("raw_bytes", "action")}
            if "raw_bytes" in ev:
                log["raw_hex"] = ev["raw_bytes"].hex()
            self.events.append(log)
            applied.append(ev)
            if gap:
                self.sim.run_iterations(gap)
        if not applied:
            return
        self.sim.settle()
        real_outs = self.parse_real_outputs()
        self.last_real_outs = real_outs
        self._book(real_outs)
        for c in [c for c in self.pending_leave if self.sim.conns[c].task.done()]:
            del self.pending_leave[c]
        self.stats["oracle_only_events"] = self.stats.get("oracle_only_events", 0) + 1
        ev0 = applied[0] if len(applied) == 1 else {"t": "burst", "c": applied[0]["c"], "kinds": [(e["m"]["k"] if e["t"] == "msg" else e["t"]) for e in applied]}
        self.after_event(ev0, before, real_outs)

    def _apply_real(self, ev):
        """feeds one event into the real coordinator WITHOUT settling; returns the model events it stands for"""
        t, cid = ev["t"], ev["c"]
        if t == "connect":
            self.sim.connect(cid, settle=False)
            return [{"t": "connect", "c": cid}]
        if t == "msg":
            if cid in self.awaiting or self.sim.conns[cid].task.done() or self.sim.client_closed(cid):
                return None
            self.awaiting[cid] = ev["m"]
            self.last_msg[cid] = ev
            self.sim.feed_raw(cid, ev["raw_bytes"])
            return [{"t": "msg", "c": cid, "m": ev["m"], "o": None}]
        if t in ("eof", "readerr"):
            if self.sim.conns[cid].task.done() or cid in self.pending_leave:
                return None
            if t == "eof":
                self.sim.eof(cid, settle=False)
            else:
                exc = {"reset": ConnectionResetError("reset"), "timeout": TimeoutError("timed out"), "unreach": OSError(113, "No route to host"),
                       "pipe": BrokenPipeError("pipe"), "incomplete": EOFError("incomplete")}[ev.get("exc", "reset")]
                self.sim.read_error(cid, settle=False, exc=exc)
            if cid in self.awaiting:
                if getattr(self, "_in_burst", False):
                    # inside a burst the request may be answered by an earlier event of the same burst: whether the loss is
                    # noticed at once or only after the reply is decided at this event's position in the order being tried
                    self._lazy_pending[cid] = t
                    return [{"t": "leave", "c": cid, "o": None, "lazy": True}]
                self.pending_leave[cid] = t       # noticed by the handler only after its reply was written
                return []
            return [{"t": "leave", "c": cid, "o": None}]
        if t == "arm":
            if self.sim.conns[cid].task.done():
                return None
            self.sim.arm_write_error(cid, drain=ev.get("drain", False))
            return [{"t": "arm", "c": cid}]
        return None

    def _book(self, real_outs):
        """answered-exactly-once bookkeeping on the real outputs"""
        seen_reply = {}
        for o in real_outs:
            c = o["c"]
            if o["k"] == "reply":
                seen_reply[c] = seen_reply.get(c, 0) + 1
                if c not in self.awaiting:
                    self.fail({"C01"}, "unsolicited", f"connection {c} received a response ({o.get('code')}) nobody asked for", self.replay())
                else:
                    del self.awaiting[c]
            elif o["k"] == "closed":
                self.awaiting.pop(c, None)
                self.alive.discard(c)
        for c, n in seen_reply.items():
            if n > 1:
                self.fail({"C01"}, "double-reply", f"connection {c} received {n} responses in one run", self.replay())

    def _run_model(self, model_events, pending, front=True):
        """runs the model on the events in this order (plus the follow-ups the real code performs inside the
        same run to quiescence). Returns (outputs, state, remaining pending leaves)."""
        outs, ms = [], None
        pending = dict(pending)
        queue = [dict(m) for m in model_events]
        guard = 0
        nleave = 0
        while queue:
            guard += 1
            if guard > 80:
                break
            me = queue.pop(0)
            if me.get("lazy"):
                conns = dict((ms or self.model_state or {"conns": []})["conns"])
                if str(conns.get(me["c"], "")).startswith("parked"):
                    pending[me["c"]] = self._lazy_pending.get(me["c"], "readerr")      # still waiting for its answer: noticed after it
                    continue
                me = {k: v for k, v in me.items() if k != "lazy"}
            if "o" in me:
                me["o"] = self._oracle_json(me["c"])
            rep = self.drv.ask({"op": "ev", "ev": me, "full": True})
            ms = rep["state"]
            for o in rep["out"]:
                outs.append(o)
                # follow-ups the real code performs inside the same run: the handler's cleanup runs at once
                # (the slot is freed at once; the QuitGame on the agent's behalf queues behind messages already
                # forwarded - so both placements are tried by the caller)
                # `front`: True = at once, False = behind everything queued, a number k = behind the next k queued events,
                # a tuple = one such placement for each departure produced during this run, in the order they are produced
                if o["k"] == "lost" or (o["k"] == "reply" and o["c"] in pending):
                    fr = front
                    if isinstance(front, tuple):
                        fr = front[min(nleave, len(front) - 1)]
                    pos = 0 if fr is True else (len(queue) if fr is False else min(int(fr), len(queue)))
                    queue.insert(pos, {"t": "leave", "c": o["c"], "o": None})
                    nleave += 1
                    if o["k"] == "reply":
                        del pending[o["c"]]
        self._last_nleave = nleave
        return outs, ms, pending

    WORLD_FOCUS = (None, "C02", "C03", "C11", "C12")

    def do(self, ev):
        pre = self._world_pre(ev) if (self.focus in self.WORLD_FOCUS and not self.broken) else None
        wb = None
        if self.focus in (None, "C09", "C02") and ev.get("t") == "msg" and ev["m"].get("k") in ("game", "bad") and self.coord._ip_to_hostname:
            try:
                wb = C.canon_worlddyn(C.worlddyn2j(self.coord))
            except Exception:
                wb = None
        self.do_burst([ev], [0])
        if wb is not None and self.last_real_outs is not None:
            rep = [o for o in self.last_real_outs if o["k"] == "reply" and o["c"] == ev["c"]]
            if len(rep) == 1 and rep[0].get("code") == "BAD_REQUEST" and len(self.last_real_outs) == 1:
                try:
                    wa = C.canon_worlddyn(C.worlddyn2j(self.coord))
                except Exception:
                    wa = wb
                self.stats["refused_world_checks"] = self.stats.get("refused_world_checks", 0) + 1
                if wa != wb:
                    self.fail({"C09", "C02"}, "refused-but-world-changed:" + ",".join(C.diff_canon(wa, wb)), f"a message of connection {ev['c']} was answered BAD_REQUEST, yet the world tables "
                              f"{C.diff_canon(wa, wb)} changed while it was handled", self.replay())
        if pre is not None:
            self._world_post(ev, pre)

    # closed-mode bridge between coordinator and world: what a game action of a playing agent does to the view the
    # coordinator holds for it (and to the shared tables) must be what the PROVED world model does on the same inputs
    def _world_pre(self, ev):
        if ev.get("t") != "msg" or ev.get("m", {}).get("k") != "game" or ev.get("note") == "unprocessable":
            return None
        co, addr = self.coord, PEER(ev["c"])
        if addr not in co.agents or co._episode_ends.get(addr) or ev["c"] in self.awaiting or not co._ip_to_hostname:
            return None
        try:
            act = Action.from_json(ev["raw_bytes"].decode())
            return (C.world2j(co), C.view2j(co._agent_states[addr]), C.action2j(act), co._agent_steps.get(addr))
        except Exception:
            return None

    def _world_post(self, ev, pre):
        wj, vj, aj, steps0 = pre
        co, addr = self.coord, PEER(ev["c"])
        if addr not in co.agents or co._agent_steps.get(addr) != (steps0 or 0) + 1:
            return          # the coordinator did not execute it (refused / the agent is gone): other oracles judge that
        if not (self.oracle.get(ev["c"]) or {}).get("stepCalled"):
            self.fail({"C03", "C02"}, "world-bridge:not-consulted",
                      f"the coordinator counted {aj['t']} of connection {ev['c']} as an executed step but never asked the world to execute it", self.replay())
            return
        try:
            self.drv.ask({"op": "world", "world": wj})
            m = self.drv.ask({"op": "step", "view": vj, "action": aj})
        except RuntimeError:
            return          # not an action of the modelled value space (e.g. a decodable but unhashable field)
        self.stats["world_bridge_steps"] = self.stats.get("world_bridge_steps", 0) + 1
        if m.get("raised"):
            return
        rv = C.canon_view(C.view2j(co._agent_states[addr]))
        mv = C.canon_view(m["view"])
        d = C.diff_canon(rv, mv) + ["world." + k for k in C.diff_canon(C.canon_worlddyn(C.worlddyn2j(co)), C.canon_worlddyn(m["world"]))]
        if d:
            tag = "C03" if m["pre"] else "C02"
            self.fail({tag} | ({"C12"} if len(co.agents) > 1 and any(not x.startswith("world.") for x in d) else set()),
                      f"world-bridge:{aj['t']}:pre={m['pre']}:{','.join(sorted(d))[:60]}",
                      f"{aj['t']} (documented precondition {'holds' if m['pre'] else 'does not hold'}, guards {m['guards']}) executed by the coordinator for connection {ev['c']}: "
                      f"the view it now holds / the shared tables differ from the proved effect in {d}", self.replay())

    def do_burst(self, evs, gaps):
        """evs delivered into the SAME run of the event loop: after feeding event i the loop runs gaps[i]
        iterations, after the last one it runs to quiescence. The real outcome must equal the model's outcome
        for at least one sequential order of the events (linearizability w.r.t. the proved sequential model)."""
        if self.broken:
            return
        if self.diverged:
            return self._oracle_only(evs, gaps)
        import itertools
        self.oracle = {}
        self.roll = evs[0].get("roll", 0.5)
        self.burst_id = getattr(self, "burst_id", 0) + 1
        before = self.real_state()
        pending_before = dict(self.pending_leave)
        groups = []
        group_conn = []
        applied = []
        self._in_burst = len(evs) > 1
        self._lazy_pending = {}
        for ev, gap in zip(evs, gaps):
            log = {k: v for k, v in ev.items() if k not in ("raw_bytes", "action")}
            if "raw_bytes" in ev:
                log["raw_hex"] = ev["raw_bytes"].hex()
            if len(evs) > 1:
                log["burst_gap"] = gap
                log["burst"] = self.burst_id
            mes = self._apply_real(ev)
            if mes is None:
                continue
            self.events.append(log)
            applied.append(ev)
            if mes:
                groups.append(mes)
                group_conn.append(ev["c"])
            if gap:
                self.sim.run_iterations(gap)
        if not applied:
            return
        self.sim.settle()
        for c in self.sim.conns:
            if not self.sim.conns[c].task.done():
                self.alive.add(c)
        real_outs = self.parse_real_outputs()
        self.last_real_outs = real_outs
        self._book(real_outs)
        if len(applied) > 1:
            self.stats["bursts"] = self.stats.get("bursts", 0) + 1
        # ---- model side: try the sequential orders
        chosen = None
        first = None
        orders = list(itertools.permutations(range(len(groups)))) if len(groups) > 1 else [tuple(range(len(groups)))]
        # events of ONE connection keep the order in which that connection sent them
        orders = [o for o in orders if all(o.index(i) < o.index(j) for i in range(len(groups)) for j in range(i + 1, len(groups)) if group_conn[i] == group_conn[j])]
        base_orders = orders
        orders = [(o, True) for o in base_orders] + ([(o, False) for o in base_orders] if len(groups) > 1 else [])
        if len(groups) > 2 and (self.pending_leave or any((w.writer.fail_write or w.writer.fail_drain or w.writer.lost_exc is not None) for w in self.sim.conns.values())):
            # a departure produced INSIDE the burst (failed write, connection loss noticed after the reply) may be processed
            # behind any number of the messages already queued: the placements in between
            orders += [(o, k) for k in range(1, len(groups) - 1) for o in base_orders]
        if len(orders) > 1:
            self.drv.ask({"op": "snapshot"})
        prev_state = self.model_state
        max_nleave = 0
        mixed_tried = False
        oi = -1
        while True:
            oi += 1
            if oi >= len(orders):
                if max_nleave >= 2 and not mixed_tried and len(groups) > 1:
                    # several departures produced inside this burst: each may be processed at its own place
                    mixed_tried = True
                    places = [True] + list(range(1, len(groups))) + [False]
                    orders += [(o, (a, b)) for a in places for b in places if a is not b for o in base_orders]
                    if oi >= len(orders):
                        break
                else:
                    break
            order, front = orders[oi]
            if oi > 0:
                self.drv.ask({"op": "restore"})
            mes = [m for gi in order for m in groups[gi]]
            outs, ms, pend = self._run_model(mes, self.pending_leave, front)
            max_nleave = max(max_nleave, getattr(self, "_last_nleave", 0))
            if ms is None:
                ms = prev_state
            diffs = self.diff(applied[0] if len(applied) == 1 else {"t": "burst", "c": applied[0]["c"]}, real_outs, outs, ms)
            if first is None:
                first = (outs, ms, pend, diffs)
            if not diffs:
                chosen = (outs, ms, pend, diffs)
                if oi > 0:
                    self.stats["reordered_bursts"] = self.stats.get("reordered_bursts", 0) + 1
                break
        if chosen is None:
            chosen = first
            if len(orders) > 1:
                self.drv.ask({"op": "restore"})
                self._run_model([m for g in groups for m in g], self.pending_leave)
        outs, ms, pend, diffs = chosen
        self.pending_leave = pend
        if ms is not None:
            self.model_state = ms
        ev0 = applied[0] if len(applied) == 1 else {"t": "burst", "c": applied[0]["c"], "kinds": [(e["m"]["k"] if e["t"] == "msg" else e["t"]) for e in applied]}
        for tags, sig, desc in diffs:
            if len(applied) > 1:
                sig = "schedule:" + sig
                desc = f"events {ev0['kinds']} arriving in the same run of the event loop (gaps {list(gaps)}): no sequential order of them explains the outcome; for the order as sent: " + desc
            self.fail(tags, sig, desc, self.replay())
            head = sig.split(":")[0]
            if head in ("outputs", "state", "schedule") or (head == "agent" and (self.focus is None or self.focus in tags)):
                # from here on the model no longer describes this session; a disagreement in a per-agent field that is
                # outside the focus property's scope is recorded once and the comparison goes on
                self.diverged = True
            elif head == "agent":
                self.ignored_fields.add(sig.split(":")[1])
        self.after_event(ev0, before, real_outs)

    # ---------------------------------------------------------------- comparison (pure) + oracles
    def diff(self, ev, real_outs, model_outs, model_state):
        """list of (tags, signature, description): where the real outputs / state differ from the model's"""
        out = []
        t, cid = ev["t"], ev["c"]
        kind = ev["m"]["k"] if t == "msg" else t

        def per_conn(outs):
            d = {}
            for o in outs:
                d.setdefault(o["c"], []).append(o)
            return d
        R, M = per_conn(real_outs), per_conn([o for o in model_outs if o["k"] != "lost"])
        bad_shape = False
        for c in sorted(set(R) | set(M)):
            ro, mo = R.get(c, []), M.get(c, [])
            rk = [(o["k"], o.get("code")) for o in ro]
            mk = [("closed" if o["k"] in ("closed", "refused") else o["k"], o.get("code")) for o in mo]
            if rk != mk:
                tags = {"C01"}
                codes = {x[1] for x in rk} ^ {x[1] for x in mk}
                if kind == "bad" or "BAD_REQUEST" in codes:
                    tags.add("C09")
                if "CREATED" in codes or any(o.get("obs") and o["obs"].get("end") for o in ro + mo if o["k"] == "reply"):
                    tags.add("C06")
                if "RESET_DONE" in codes or kind == "reset":
                    tags.add("C07")
                if "FORBIDDEN" in codes:
                    tags.add("C04")
                if kind in ("eof", "readerr", "quit", "arm", "burst") or c != cid:
                    tags.add("C10")
                if kind == "connect" or any(x[0] == "closed" for x in rk + mk):
                    tags.add("C18")
                extra = ""
                if model_state is not None:
                    ma = dict((a, b) for a, b in model_state["agents"])
                    if c in ma:
                        extra = f"; in the model agent {c} has status {ma[c]['status']}, ended={ma[c]['ended']}, steps={ma[c]['steps']}"
                out.append((tags, f"outputs:{kind}:{'->'.join(str(x[1] or x[0]) for x in rk)}|{'->'.join(str(x[1] or x[0]) for x in mk)}",
                            f"after {kind} on connection {cid}: connection {c} got {rk} from the real coordinator, the proved model says {mk}" + extra))
                bad_shape = True
                continue
            for o, m in zip(ro, mo):
                if o["k"] != "reply":
                    continue
                if ("obs" in o) != (m.get("obs") is not None):
                    out.append(({"C01", "C15"}, f"obs-presence:{kind}", f"observation present in real reply: {'obs' in o}, in model: {m.get('obs') is not None}"))
                    continue
                if "obs" in o:
                    mob = m["obs"]
                    mv = C.canon_view(mob["view"])
                    if o["obs"]["view"] != mv:
                        out.append(({"C15", "C12", "C07" if o.get("code") == "RESET_DONE" else "C04"}, f"view:{o.get('code')}",
                                    f"{o.get('code')} reply to {c}: the view sent differs from the view the model (fed with the world's own results) holds"))
                    if o["obs"]["reward"] != mob["reward"]:
                        out.append(({"C05"} | ({"C07"} if o.get("code") == "RESET_DONE" else set()) | ({"C06"} if o["obs"]["end"] else set()) | ({"C12"} if c != cid else set())
                                    | ({"C17"} if "Fail" in (o["obs"]["reason"], mob["reason"]) else set()), f"reward:{o.get('code')}:{kind}",
                                    f"{o.get('code')} reply to {c}: reward {o['obs']['reward']} but the reward rule gives {mob['reward']}"))
                    if o["obs"]["end"] != mob["end"] or o["obs"]["reason"] != mob["reason"]:
                        out.append(({"C04"} | ({"C17"} if "Fail" in (o["obs"]["reason"], mob["reason"]) else set()), f"end:{o.get('code')}:{o['obs']['end']},{o['obs']['reason']}|{mob['end']},{mob['reason']}",
                                    f"{o.get('code')} reply to {c}: end={o['obs']['end']} reason={o['obs']['reason']} but the end rule gives end={mob['end']} reason={mob['reason']}"))
                if m.get("hasMaxSteps") and o.get("maxSteps", "absent") != m.get("maxSteps"):
                    out.append(({"C19", "C07"}, "maxsteps", f"max_steps announced {o.get('maxSteps')} vs configured {m.get('maxSteps')}"))
                if (m.get("traj") is not None) != ("traj" in o):
                    out.append(({"C16", "C07"}, "traj-attached", f"last_trajectory attached: real {'traj' in o}, requested: {m.get('traj') is not None}"))
                elif "traj" in o:
                    mt = m["traj"]
                    mstates = [C.canon_view(mt["init"])] + [C.canon_view(x["view"]) for x in mt["steps"]]
                    mrew = [x["reward"] for x in mt["steps"]]
                    if o["traj"]["n_states"] != o["traj"]["n_actions"] + 1 or len(o["traj"]["rewards"]) != o["traj"]["n_actions"]:
                        out.append(({"C16"}, "traj-shape", f"trajectory with {o['traj']['n_states']} states, {o['traj']['n_actions']} actions, {len(o['traj']['rewards'])} rewards"))
                    if o["traj"]["rewards"] != mrew or o["traj"]["states"] != mstates:
                        out.append(({"C16"}, "traj-content", f"last_trajectory of {c} differs from what the model recorded: rewards {o['traj']['rewards']} vs {mrew}; states equal: {o['traj']['states'] == mstates}"))
        if model_state is not None and not bad_shape:
            out += self.diff_state(kind, cid, self.real_state(), self.model_state_canon(model_state))
        return out

    def diff_state(self, kind, cid, rs, mc):
        tags_for = {"slots": {"C18"}, "ids": {"C10", "C06"}, "startEv": {"C06"}, "conns": {"C01", "C18", "C06", "C07"}}
        for f in ("slots", "ids", "startEv", "conns"):
            if rs[f] != mc[f]:
                tags = set(tags_for[f])
                if kind in ("eof", "readerr", "quit", "arm", "burst"):
                    tags.add("C10")
                if kind == "bad":
                    tags.add("C09")
                return [(tags, f"state:{f}:{kind}", f"after {kind} on {cid}: coordinator {f} = {rs[f]}, model {mc[f]}")]
        ra, ma = dict((c, a) for c, a in rs["agents"]), dict((c, a) for c, a in mc["agents"])
        field_tags = {"view": {"C12", "C07"}, "steps": {"C04", "C07"}, "status": {"C04"}, "ended": {"C04", "C06"},
                      "resetReq": {"C07"}, "reward": {"C05", "C06"}, "paid": {"C05", "C06"}, "obs": {"C15", "C04"},
                      "traj_len": {"C16"}, "traj_rewards": {"C16"}, "traj_states": {"C16"}, "name": {"C19"}, "role": {"C19"}}
        for c in ra:
            for f, tg in field_tags.items():
                if f in self.ignored_fields or (f.startswith("traj") and "traj_len" in self.ignored_fields):
                    continue
                if f == "paid" and ra[c][f] is None:
                    continue
                if ra[c][f] != ma[c][f]:
                    tags = set(tg)
                    if kind == "bad":
                        tags.add("C09")
                    if kind in ("eof", "readerr", "quit", "arm", "burst") or c != cid:
                        tags.add("C10")
                    if c != cid:
                        tags.add("C12")
                        if f == "view":
                            tags.add("C11")      # the view this agent was last handed was modified while somebody else's action was handled
                    if kind == "reset" or (f in ("view", "steps", "status", "ended") and not ra[c]["resetReq"] and c != cid):
                        tags.add("C07")
                    return [(tags, f"agent:{f}:{kind}:{'self' if c == cid else 'other'}",
                             f"after {kind} on {cid}: agent {c} {f} = {str(ra[c][f])[:200]} in the coordinator, {str(ma[c][f])[:200]} in the model")]
        return []

    def after_event(self, ev, before, real_outs):
        """bookkeeping + oracles written from the property statements, evaluated on the real trace"""
        t, cid = ev["t"], ev["c"]
        S = self.stats
        S["events"] = S.get("events", 0) + 1
        kind = ev["m"]["k"] if t == "msg" else t
        S.setdefault("by_kind", {})
        for k in (ev.get("kinds") or [kind]):
            S["by_kind"][k] = S["by_kind"].get(k, 0) + 1
        for o in real_outs:
            if o["k"] != "reply" or "obs" not in o:
                continue
            c = o["c"]
            if o["code"] == "RESET_DONE" and "traj" in o and c in self.sent_log and not self.sent_lost.get(c):
                sent = self.sent_log[c]
                if o["traj"]["rewards"] != [x[0] for x in sent] or o["traj"]["states"][1:] != [x[1] for x in sent]:
                    self.fail({"C16"}, "traj-not-what-was-sent", f"the trajectory handed to connection {c} (rewards {o['traj']['rewards']}) is not what it was sent step by step "
                              f"(rewards {[x[0] for x in sent]}; views equal: {o['traj']['states'][1:] == [x[1] for x in sent]})", self.replay())
            if o["code"] == "CREATED" or o["code"] == "RESET_DONE":
                self.sent_log[c] = []
                self.sent_actions[c] = []
                try:
                    self.last_view_obj[c] = GameState.from_dict(o["raw"]["observation"]["state"])
                except Exception:
                    self.last_view_obj.pop(c, None)
                if o["code"] == "RESET_DONE":
                    self.placed_extra = {}        # a completed reset: nothing has been exfiltrated in the new episode yet
                self.sent_lost[c] = False
                self.init_view[c] = o["obs"]["view"]
                self.episode[c] = self.episode.get(c, 0) + 1
                if o["code"] == "RESET_DONE" and (o["obs"]["reward"] != 0 or o["obs"]["end"]):
                    self.fail({"C07", "C05"}, "reset-obs", f"RESET_DONE with reward {o['obs']['reward']} end {o['obs']['end']}", self.replay())
            elif o["code"] == "OK":
                self.sent_log.setdefault(c, []).append((o["obs"]["reward"], o["obs"]["view"]))
                self._placed_check(c, o)
                # C16: the trajectory lists the game actions that were executed - as the agent sent them
                lm = self.last_msg.get(c)
                if lm is not None and lm["m"].get("k") == "game" and not lm.get("must_refuse"):
                    try:
                        sent = Action.from_json(lm["raw_bytes"].decode())
                        acts = self.coord._agent_trajectories[PEER(c)]["trajectory"]["actions"]
                        recorded = Action.from_dict(acts[-1]) if acts else None
                    except Exception:
                        sent = recorded = None
                    if sent is not None and recorded is not None and not (recorded == sent):
                        S["recorded_action_checked"] = S.get("recorded_action_checked", 0) + 1
                        self.fail({"C16"}, "recorded-action-not-sent:" + str(sent.type).split(".")[-1],
                                  f"connection {c} sent {str(sent)[:200]} and got OK, but the action recorded in its trajectory is {str(recorded)[:200]}", self.replay())
                        self.sent_actions[c] = None
                    elif sent is not None:
                        S["recorded_action_checked"] = S.get("recorded_action_checked", 0) + 1
                        # ... and the records of the EARLIER actions of the episode are still what was sent then
                        log = self.sent_actions.get(c)
                        if log is not None and recorded is not None:
                            log.append(sent)
                            try:
                                now = [Action.from_dict(a) for a in acts]
                            except Exception as e:
                                now = repr(e)
                            if now != log and len(acts) == len(log):
                                bad = next((i for i, (x, y) in enumerate(zip(now, log)) if x != y), None) if isinstance(now, list) else None
                                self.fail({"C16"}, "recorded-actions-changed-later", f"after {len(log)} executed actions of connection {c} the recorded action #{bad} is "
                                          f"{str(now[bad])[:160] if bad is not None else now} but {str(log[bad])[:160] if bad is not None else 'a decodable action'} was sent and recorded at the time", self.replay())
                                self.sent_actions[c] = None
                if o["obs"]["end"]:
                    k = (c, self.episode.get(c, 0))
                    self.bonus_seen[k] = self.bonus_seen.get(k, 0) + 1
                    S["final_observations"] = S.get("final_observations", 0) + 1
                    if self.bonus_seen[k] > 1:
                        self.fail({"C04", "C05"}, "two-finals", f"connection {c} received two final observations in one episode", self.replay())
        co = self.coord
        for role, gw in list(self.goal_written.items()):
            try:
                now = canon_goal(goal2j(co._win_conditions_per_role[role]))
            except Exception:
                continue
            if now != gw:
                self.fail({"C04", "C12", "C19"}, "goal-changed-during-play", f"after {kind} on {cid} the {role} goal the game checks is no longer the configured one: it was {gw}, it is {now} "
                          f"(what one agent achieves must not change what the others have to achieve)", self.replay())
                del self.goal_written[role]
        if ev.get("must_refuse"):
            # an action the world cannot process on a path where it certainly tries (same connection as the valid action just
            # before it): the only acceptable answer is BAD_REQUEST - whatever the world's step() does with its own exception
            rep = [o for o in real_outs if o["k"] == "reply" and o["c"] == cid]
            if not rep or rep[0].get("code") != "BAD_REQUEST":
                self.fail({"C09"}, "unprocessable-not-refused", f"a decodable action the world cannot process (unhashable field) was answered {[o.get('code') for o in rep]} instead of BAD_REQUEST", self.replay())
        dyn = bool(self.cfg["env"].get("use_dynamic_addresses"))
        # C07 / C11 / C13 / C19: the view handed out at the start of an episode contains only hosts that exist NOW, and
        # every host the start position lists explicitly (followed through the current re-labelling)
        for o in real_outs:
            if o["k"] != "reply" or "obs" not in o or o["code"] not in ("CREATED", "RESET_DONE") or "obs_view_raw" not in o:
                continue
            c = o["c"]
            role = co.agents.get(PEER(c), (None, None))[1]
            if role == "Benign" and getattr(co, "hosts_to_start", None):
                try:
                    vb = GameState.from_dict(o["raw"]["observation"]["state"])
                    if not vb.controlled_hosts or any(x not in co._ip_to_hostname for x in vb.controlled_hosts):
                        self.fail({"C11", "C19"} | ({"C07"} if o["code"] == "RESET_DONE" else set()), f"benign-start-view:{o['code']}",
                                  f"the initial view sent with {o['code']} to the Benign agent on {c} controls {sorted(map(str, vb.controlled_hosts))} (start hosts of the scenario: {sorted(set(map(str, co.hosts_to_start)))})", self.replay())
                except Exception:
                    pass
            if role not in ("Attacker", "Defender"):
                continue
            try:
                v = GameState.from_dict(o["raw"]["observation"]["state"])
            except Exception:
                continue
            tags = {"C11", "C19"} | ({"C07"} if o["code"] == "RESET_DONE" else set()) | ({"C13"} if dyn else set())
            ghosts = sorted(str(x) for x in (set(v.known_hosts) | set(v.controlled_hosts)) if x not in co._ip_to_hostname)
            if ghosts:
                self.fail(tags, f"start-view-ghosts:{o['code']}", f"the initial view sent with {o['code']} to {c} ({role}) lists hosts {ghosts[:6]} that do not exist in the network as it is now", self.replay())
            sp = self.cfg["coordinator"]["agents"][role]["start_position"]
            for part in ("controlled_hosts", "known_hosts"):
                for x in sp.get(part, []):
                    if x in ("random", "all_local"):
                        continue
                    cur = co._ip_mapping.get(IP(x), IP(x)) if dyn and getattr(co, "_ip_mapping", None) else IP(x)
                    if cur not in getattr(v, part):
                        self.fail(tags, f"start-view-missing:{part}:{o['code']}", f"{part} of the start position lists {x} (now {cur}) but the initial view sent with {o['code']} to {c} does not contain it", self.replay())
            for x in sp.get("known_networks", []):
                try:
                    n0 = Network(str(x).split("/")[0], int(str(x).split("/")[1]))
                except Exception:
                    continue
                cur = co._network_mapping.get(n0, n0) if dyn and getattr(co, "_network_mapping", None) else n0
                if cur not in v.known_networks:
                    self.fail(tags, f"start-view-missing:known_networks:{o['code']}", f"known_networks of the start position lists {x} (now {cur}) but the initial view sent with {o['code']} to {c} does not contain it", self.replay())
        if dyn:
            # a reset that completed during this event re-labelled the goals (its RESET_DONE may have been lost with a
            # failing connection): the model continues with the goals the coordinator uses now
            cur = settings_of(self.coord)
            if any(o.get("code") == "RESET_DONE" for o in real_outs):
                for role in ("Attacker", "Defender"):
                    gw = goal_as_written(self.cfg0["coordinator"]["agents"][role]["goal"])
                    if gw is None:
                        continue
                    try:
                        mi, mn = co._ip_mapping, co._network_mapping
                        gm = {"known_networks": {mn.get(n, n) for n in gw["known_networks"]},
                              "known_hosts": {mi.get(x, x) for x in gw["known_hosts"]}, "controlled_hosts": {mi.get(x, x) for x in gw["controlled_hosts"]},
                              "known_services": {mi.get(k, k): v for k, v in gw["known_services"].items()},
                              "known_data": {mi.get(k, k): v for k, v in gw["known_data"].items()},
                              "known_blocks": {mi.get(k, k): {mi.get(x, x) for x in v} for k, v in gw["known_blocks"].items()}}
                        if canon_goal(goal2j(gm)) != canon_goal(cur["goal"][role]):
                            self.fail({"C04", "C13", "C19"}, "goal-not-relabelled", f"after a re-labelling reset the {role} goal the game checks ({cur['goal'][role]}) is not the configured goal "
                                      f"under the published address maps ({goal2j(gm)})", self.replay())
                            cur["goal"][role] = goal2j(gm)
                    except Exception:
                        pass
            if cur["goal"] != self.settings["goal"]:
                self.settings = cur
                self.drv.ask({"op": "coord_settings", "settings": self.settings})
            if self.gen is not None and set(self.gen.ips) != set(co._ip_to_hostname):
                self.gen = None
        # C08: every completed reset (static addresses) must leave the world in its initial condition
        if self.world0 is None and co._ip_to_hostname and not any(co._agent_steps.values()) and not co._fw_blocks:
            self.world0 = C.canon_worlddyn(C.worlddyn2j(co))
            self.placed0 = {hn: set(ds) for hn, ds in co._data.items()}
            self.tables0 = C.tables(co) if dyn else None
        if dyn and getattr(self, "tables0", None) is not None and any(o.get("code") == "RESET_DONE" for o in real_outs) and not any(co._agent_steps.values()):
            # dynamic addresses: after a completed reset every table is the INITIAL table pushed through the published maps
            # (data copied by exfiltration gone, blocks lifted and forgotten - also in the 'original' firewall kept for later resets)
            S["resets_done_dynamic"] = S.get("resets_done_dynamic", 0) + 1
            try:
                sig = {str(k): str(v) for k, v in co._ip_mapping.items() if k != "random"}
                tau = {str(k): str(v) for k, v in co._network_mapping.items()}
                exp, got = C.push(self.tables0, sig, tau), C.tables(co)
                bad = [k for k in ("fw", "fw_orig", "data", "blocks", "services", "hostname", "nets") if exp[k] != got[k]]
            except Exception as e:
                bad = [f"maps-incomplete:{e!r}"]
            if bad:
                self.fail({"C08", "C13", "C03"}, "world-not-restored-dynamic:" + ",".join(bad)[:60],
                          f"after a completed reset with dynamic addresses the tables {bad} are not the initial tables under the published re-labelling (after {kind} on {cid})", self.replay())
                self.tables0 = None
        if self.world0 is not None and not co.task_config.get_use_dynamic_addresses() and any(o.get("code") == "RESET_DONE" for o in real_outs):
            S["resets_done"] = S.get("resets_done", 0) + 1
            if not any(co._agent_steps.values()):       # nobody has acted in the new episode yet
                now = C.canon_worlddyn(C.worlddyn2j(co))
                if now != self.world0:
                    d = C.diff_canon(now, self.world0)
                    self.fail({"C08", "C03"}, "world-not-restored:" + ",".join(d), f"after a completed reset the world tables {d} are not in their initial condition (after {kind} on {cid})", self.replay())
                    self.world0 = now
        rs = self.real_state()
        missing = {"run_game", "_assign_rewards_episode_end", "_reset_game"} - set(rs["tasks_alive"])
        if missing:
            tags = {"C01"}
            if "_reset_game" in missing:
                tags |= {"C07"}
            if "_assign_rewards_episode_end" in missing:
                tags |= {"C06", "C05"}
            if "_reset_game" in missing and self.cfg["env"].get("use_dynamic_addresses"):
                tags |= {"C13"}
            self.fail(tags, "task-died:" + ",".join(sorted(missing)), f"coordinator task(s) {sorted(missing)} died after {kind} on {cid}", self.replay())
            self.broken = True
        # C01 (iii): an unanswered request must be parked at a documented, unmet barrier.  The barriers are
        # evaluated over the agents that are really there (joined and still connected), not over whatever the
        # coordinator still has in its tables
        co = self.coord
        present = [a for a in co.agents if not self.sim.conns[a[1] - 40000].task.done()]
        for c, m in list(self.awaiting.items()):
            addr = PEER(c)
            why = None
            if m["k"] == "join" and addr in co.agents and len(present) != co._min_required_players:
                why = "start"
            elif m["k"] == "game" and addr in co.agents and co._episode_ends.get(addr) and not all(co._episode_ends.get(a) for a in present):
                why = "end"
            elif m["k"] == "reset" and addr in co.agents and (not all(co._reset_requests.get(a) for a in present) or len(present) != co._min_required_players):
                why = "reset"
            if why is None:
                tags = {"C01"} | ({"C09"} if m["k"] == "bad" else set()) | ({"C06"} if m["k"] in ("join", "game") else set()) | ({"C07"} if m["k"] == "reset" else set()) | ({"C10"} if kind in ("eof", "readerr", "quit", "burst") else set())
                if self.cfg["env"].get("use_dynamic_addresses") and m["k"] in ("join", "reset"):
                    tags.add("C13")      # under dynamic addresses joins and resets go through the re-labelled start positions: the task must stay playable
                if m["k"] == "join" and m.get("role") in ("Attacker", "Defender"):
                    tags.add("C19")      # a join builds the initial view from the configured start position: that view never reaches the agent
                self.fail(tags, f"unanswered:{m['k']}", f"request {m['k']} of connection {c} is unanswered at quiescence although no documented barrier is unmet (after {kind} on {cid})", self.replay())
                self.broken = True
                # C18 / C10: the client gives up and closes its end.  Whatever went wrong with the answer, the served
                # connection has ended and its slot must come back
                try:
                    if not self.sim.client_closed(c):
                        self.sim.eof(c)
                    if not self.sim.handler_done(c):
                        self.fail({"C18", "C10"}, f"slot-lost:{m['k']}", f"connection {c} got no answer to its {m['k']} request, gave up and closed: the server never ends that connection, "
                                  f"its slot stays taken for ever (after {kind} on {cid})", self.replay())
                except Exception:
                    pass
            else:
                S.setdefault("parked", {})
                S["parked"][why] = S["parked"].get(why, 0) + 1


def replay_events(sess, events):
    """re-executes a recorded event log (bursts regrouped by their id)"""
    i = 0
    while i < len(events):
        ev = dict(events[i])
        if "raw_hex" in ev:
            ev["raw_bytes"] = bytes.fromhex(ev["raw_hex"])
        if "burst" in ev:
            group = [ev]
            j = i + 1
            while j < len(events) and events[j].get("burst") == ev["burst"]:
                e2 = dict(events[j])
                if "raw_hex" in e2:
                    e2["raw_bytes"] = bytes.fromhex(e2["raw_hex"])
                group.append(e2)
                j += 1
            sess.do_burst(group, [g["burst_gap"] for g in group])
            i = j
        else:
            sess.do(ev)
            i += 1
        if sess.broken:
            break


# -------------------------------------------------------------------------------- session scripts
def J(t, **p):
    return Action(t, parameters=p).to_json().encode()


class Script:
    """Online generator of the next event of a session."""

    def __init__(self, sess: Session, rng, profile):
        self.s, self.rng, self.profile = sess, rng, profile
        self.names = {}
        self.all_twins = rng.random() < profile.get("twin_session", 0.12)     # every agent of this session uses the same name

    def live(self):
        return [c for c in sorted(self.s.sim.conns) if not self.s.sim.conns[c].task.done()]

    def readable(self):
        return [c for c in self.live() if c not in self.s.awaiting and c not in self.s.pending_leave]

    def game_action(self, cid):
        s = self.s
        co = s.coord
        addr = PEER(cid)
        if s.gen is None and co._ip_to_hostname:
            s.gen = Gen(self.rng, co)
        view = co._agent_states.get(addr)
        if s.gen is None:
            return Action(ActionType.FindServices, {"source_host": IP("192.168.2.2"), "target_host": IP("192.168.1.2")})
        if view is None:
            view = GameState(controlled_hosts={IP("192.168.2.2")}, known_hosts={IP("192.168.2.2")})
        s.gen.rng = self.rng
        a = s.gen.action(view, singling=0.1)
        r = self.rng.random()
        if r < 0.25 and co._agent_last_action.get(addr) is not None:
            a = co._agent_last_action[addr]          # repeats matter to the defender
        elif r < 0.37:
            # ... also repeats of an action played longer ago in this episode
            try:
                hist = co._agent_trajectories[addr]["trajectory"]["actions"]
                if hist:
                    a = Action.from_dict(self.rng.choice(hist))
            except Exception:
                pass
        if self.rng.random() < 0.3 and len(a.parameters) > 1:
            items = list(a.parameters.items())
            self.rng.shuffle(items)                  # the same action with its parameters listed in another order
            a = Action(a.type, dict(items))
        return a

    def next(self):
        s, rng, p = self.s, self.rng, self.profile
        req = s.settings["required"]
        live = self.live()
        readable = self.readable()
        r = rng.random()
        # connections
        if (not live) or (len(live) < req and r < 0.5) or r < p.get("extra_connect", 0.03):
            # a new connection; sometimes from a peer address whose earlier connection is closed (address reuse)
            closed = [c for c in sorted(s.sim.conns) if s.sim.conns[c].task.done() and c not in s.awaiting and c not in s.pending_leave]
            if closed and rng.random() < p.get("reuse", 0.3):
                return {"t": "connect", "c": rng.choice(closed), "reuse": True}
            cid = s.next_cid
            s.next_cid += 1
            return {"t": "connect", "c": cid}
        if not readable:
            # everybody waits: let somebody leave or a new connection come
            c = rng.choice(live)
            return {"t": rng.choice(["eof", "readerr"]), "c": c, "exc": rng.choice(["reset", "timeout", "unreach", "pipe"])}
        cid = rng.choice(readable)
        joined = PEER(cid) in s.coord.agents
        r = rng.random()
        if r < p.get("bad", 0.08):
            kind = rng.choice(BAD_KINDS)
            return {"t": "msg", "c": cid, "m": {"k": "bad"}, "raw_bytes": bad_message(kind, rng), "bad_kind": kind}
        if r < p.get("bad", 0.08) + p.get("leave", 0.05):
            k = rng.choice(["eof", "readerr", "quit", "arm", "eof-while-waiting"])
            if k == "quit":
                return {"t": "msg", "c": cid, "m": {"k": "quit"}, "raw_bytes": J(ActionType.QuitGame)}
            if k == "arm":
                return {"t": "arm", "c": cid, "drain": rng.random() < 0.4}
            if k == "eof-while-waiting":
                w = [c for c in live if c in s.awaiting and c not in s.pending_leave]
                if w:
                    return {"t": rng.choice(["eof", "readerr"]), "c": rng.choice(w), "exc": rng.choice(["reset", "timeout", "unreach", "pipe"])}
                k = "eof"
            return {"t": k, "c": cid, "exc": rng.choice(["reset", "timeout", "unreach", "pipe", "incomplete"])}
        if not joined:
            if rng.random() < p.get("out_of_order", 0.12):
                if rng.random() < 0.5:
                    a = self.game_action(cid)
                    return {"t": "msg", "c": cid, "m": {"k": "game", "act": s.akey(a)}, "raw_bytes": a.to_json().encode(), "roll": rng.random()}
                tr = rng.random() < 0.5
                return {"t": "msg", "c": cid, "m": {"k": "reset", "traj": tr}, "raw_bytes": J(ActionType.ResetGame, request_trajectory=tr)}
            role = rng.choice(p.get("roles", ["Attacker", "Attacker", "Defender", "Benign"]))
            if rng.random() < 0.06:
                role = rng.choice(["Hacker", "attacker", ""])
            name = f"agent{cid}"
            r2 = rng.random()
            if self.all_twins or r2 < p.get("twin_names", 0.12):
                name = "twin"                              # several agents may use one name (and role)
            elif r2 < p.get("twin_names", 0.12) + p.get("long_names", 0.02):
                name = "n" * rng.choice([5000, 7800, 8192 - len(J(ActionType.JoinGame, agent_info=AgentInfo("", role)))])      # a long name (the request still fits one read of 8192 bytes - the last choice fills it exactly -, the welcome message does not)
            elif r2 < p.get("twin_names", 0.12) + p.get("long_names", 0.02) + 0.04:
                name = rng.choice(["a/b", "../up", "sp ace", "d'Art", "ünï", "a_b", ".", "x" * 300])
            return {"t": "msg", "c": cid, "m": {"k": "join", "name": name, "role": role if role in ROLES else None},
                    "raw_bytes": J(ActionType.JoinGame, agent_info=AgentInfo(name, role))}
        addr = PEER(cid)
        ended = s.coord._episode_ends.get(addr)
        r = rng.random()
        if r < 0.04:
            return {"t": "msg", "c": cid, "m": {"k": "join", "name": "again", "role": "Attacker"}, "raw_bytes": J(ActionType.JoinGame, agent_info=AgentInfo("again", "Attacker"))}
        if (ended and r < 0.75) or (not ended and r < p.get("early_reset", 0.03)):
            tr = rng.random() < 0.5
            return {"t": "msg", "c": cid, "m": {"k": "reset", "traj": tr}, "raw_bytes": J(ActionType.ResetGame, request_trajectory=tr)}
        a = self.game_action(cid)
        if rng.random() < p.get("unprocessable", 0.06):
            # decodable, but the world cannot process it (an unhashable data field): must be refused without any effect
            view = s.coord._agent_states.get(addr)
            srcs = [h for h in sorted(view.controlled_hosts, key=str) if view.known_data.get(h)] if view is not None else []
            if srcs:
                src = rng.choice(srcs)
                tgt = rng.choice(sorted(view.controlled_hosts, key=str))
                raw = json.dumps({"action_type": "ActionType.ExfiltrateData", "parameters": {"source_host": {"ip": str(src)}, "target_host": {"ip": str(tgt)},
                                  "data": {"owner": ["not", "hashable"], "id": "d"}}}).encode()
                k = ["ExfiltrateData", s.keys.setdefault("unhashable:%s:%s" % (src, tgt), len(s.keys))]
                return {"t": "msg", "c": cid, "m": {"k": "game", "act": k}, "raw_bytes": raw, "roll": 0.9, "note": "unprocessable"}
        if rng.random() < p.get("goal_push", 0.0):
            a = Action(ActionType.ScanNetwork, {"source_host": IP("192.168.2.2"), "target_network": Network("192.168.1.0", 24)})
        roll = rng.choice([0.0, 0.01, 0.03, 0.2, 0.9, rng.random()])
        raw = a.to_json().encode()
        if rng.random() < 0.02 and len(raw) < 8192:
            raw = raw + b" " * (8192 - len(raw))      # padded with white space to exactly the size of the read buffer
        return {"t": "msg", "c": cid, "m": {"k": "game", "act": s.akey(a)}, "raw_bytes": raw, "roll": roll}


def run_sessions(drv, rng, defender_tables, on_fail, stats, n_sessions, n_events, profile=None, cfg_gen=gen_config):
    for si in range(n_sessions):
        prof = dict(profile or {})
        is_outcomes = bool(prof.get("outcome_mix") and si % 2 == 1)
        if is_outcomes:
            cfg = gen_config_outcomes(rng)
            prof["goal_push"] = 0.25
            prof["roles"] = ["Attacker", "Attacker", "Defender"]
        else:
            cfg = cfg_gen(rng)
            if getattr(cfg_gen, 'variants', cfg_gen is gen_config) and rng.random() < 0.12:
                # the full scenario: several candidate hosts behind a 'random' start position
                cfg["env"]["scenario"] = "scenario1"
                cfg["coordinator"]["agents"]["Attacker"]["start_position"]["controlled_hosts"] = rng.choice([["random"], ["213.47.23.195", "random"]])
                stats["sessions_full_scenario_random_start"] = stats.get("sessions_full_scenario_random_start", 0) + 1
        if getattr(cfg_gen, 'variants', cfg_gen is gen_config) and not is_outcomes and rng.random() < 0.12:
            # dynamic addresses: every reset re-labels the network (no bursts: the goals change inside a delivery)
            cfg["env"]["use_dynamic_addresses"] = True
            prof["burst_no_game"] = True      # a reset inside a burst re-labels the goals: bursts carry no game actions
            prof["early_reset"] = max(prof.get("early_reset", 0.0), 0.12)
            stats["sessions_dynamic_addresses"] = stats.get("sessions_dynamic_addresses", 0) + 1
        for k, v in (prof.get("force_env") or {}).items():
            cfg["env"][k] = v
        for k, pr in (prof.get("force_env_some") or {}).items():
            if rng.random() < pr:
                cfg["env"][k] = True
        if cfg["env"].get("use_dynamic_addresses"):
            prof["burst_no_game"] = True
        if prof.get("attacker_max_steps"):
            cfg["coordinator"]["agents"]["Attacker"]["max_steps"] = rng.choice(prof["attacker_max_steps"])
        if prof.get("defender_start") is not None:
            cfg["coordinator"]["agents"]["Defender"]["start_position"]["controlled_hosts"] = list(prof["defender_start"])
        if prof.get("defender_max_steps"):
            # a step limit for the defender and a goal it does not reach by accident
            cfg["coordinator"]["agents"]["Defender"]["max_steps"] = rng.choice(prof["defender_max_steps"])
            cfg["coordinator"]["agents"]["Defender"]["goal"]["known_blocks"] = {"192.168.1.6": ["213.47.23.195"]}
        label = f"session#{si}"
        def fail(tags, sig, desc, rep, _label=label):
            on_fail(tags, sig, desc, rep)
        sess = Session(drv, rng, cfg, defender_tables, fail, stats, label)
        try:
            if sess.sim.startup_error is not None or sess.sim.server_cb is None:
                on_fail({"C19"}, "startup", f"coordinator did not start: {sess.sim.startup_error!r}", {"config": cfg})
                continue
            sc = Script(sess, rng, prof)
            for _ in range(n_events):
                if sess.broken:
                    break
                if rng.random() < prof.get("burst", 0.0):
                    # several events into the same run of the event loop, separated by a few loop iterations
                    evs, used = [], set()
                    for _k in range(rng.choice([2, 2, 3])):
                        e = sc.next()
                        if e["c"] in used or e["t"] == "arm":
                            continue
                        used.add(e["c"])
                        evs.append(e)
                        if e["t"] == "connect" and not e.get("reuse") and rng.random() < 0.5:
                            # the new client's JoinGame is already on the wire when the connection is accepted
                            role = rng.choice(prof.get("roles", ["Attacker", "Attacker", "Defender", "Benign"]))
                            name = f"agent{e['c']}"
                            evs.append({"t": "msg", "c": e["c"], "m": {"k": "join", "name": name, "role": role},
                                        "raw_bytes": J(ActionType.JoinGame, agent_info=AgentInfo(name, role))})
                    if len(evs) >= 2 and prof.get("burst_no_game") and any(e["t"] == "msg" and e["m"]["k"] == "game" for e in evs):
                        for e in evs:
                            sess.do(e)
                        continue
                    if len(evs) >= 2:
                        r0 = evs[0].get("roll", 0.5)
                        for e in evs:
                            if "roll" in e:
                                e["roll"] = r0
                        sess.do_burst(evs, [rng.choice([0, 0, 1, 2, 3, 4, 6, 9]) for _ in evs])
                        continue
                    if evs:
                        sess.do(evs[0])
                        continue
                sess.do(sc.next())
            stats["sessions"] = stats.get("sessions", 0) + 1
            if len(stats.setdefault("samples", [])) < 2:
                stats["samples"].append({"config_env": cfg["env"], "events": sess.events[:12]})
            if sess.settings["storeTraj"] and not sess.diverged:      # (after a divergence the model's file log is not the session's)
                check_files(sess, on_fail, stats)
        finally:
            sess.close()


def directed_sessions(drv, rng, defender_tables, on_fail, stats, n):
    """Short scripted histories that random sessions reach rarely: an agent CHANGES the world (a defender's BlockIP, an
    attacker's exfiltration) and leaves; an agent that never acted in the episode is the one whose reset request (before
    or after the departure) completes the reset; then the next episode is played.  Judged like every session (lock-step
    model, oracles: world restored, start views, answered once ...)."""
    def ev_game(sess, cid, a, roll=0.9):
        return {"t": "msg", "c": cid, "m": {"k": "game", "act": sess.akey(a)}, "raw_bytes": a.to_json().encode(), "roll": roll}

    dotted = [False]

    def ev_join(cid, role):
        # names with dots (q-agent.v1 / q-agent.v2): different agents, different trajectory files
        name = f"q-agent.v{cid}" if dotted[0] else f"agent{cid}"
        return {"t": "msg", "c": cid, "m": {"k": "join", "name": name, "role": role}, "raw_bytes": J(ActionType.JoinGame, agent_info=AgentInfo(name, role))}

    def ev_reset(cid, tr=False):
        return {"t": "msg", "c": cid, "m": {"k": "reset", "traj": tr}, "raw_bytes": J(ActionType.ResetGame, request_trajectory=tr)}
    ip = IP
    for i in range(n):
        cfg = gen_config(rng)
        dotted[0] = rng.random() < 0.5
        # the combinations that matter are walked through systematically (addresses static / re-labelled x who changes the world x what is blocked)
        cfg["env"].update({"required_players": 2, "use_dynamic_addresses": i % 2 == 1, "use_firewall": True, "use_global_defender": False})
        if dotted[0] and rng.random() < 0.7:
            cfg["env"]["save_trajectories"] = True
        cfg["coordinator"]["agents"]["Attacker"]["start_position"]["controlled_hosts"] = ["213.47.23.195", "192.168.2.2", "192.168.1.2"]      # the last one holds data of the scenario
        cfg["coordinator"]["agents"]["Attacker"]["max_steps"] = rng.choice([None, 8, 20])
        if cfg["coordinator"]["agents"]["Attacker"]["max_steps"] is None:
            del cfg["coordinator"]["agents"]["Attacker"]["max_steps"]
        cfg["coordinator"]["agents"]["Defender"]["start_position"]["controlled_hosts"] = ["192.168.1.2"]
        cfg["coordinator"]["agents"]["Defender"]["goal"]["known_blocks"] = {"192.168.1.6": ["213.47.23.195"]}      # not reached by the script
        cfg["coordinator"]["agents"]["Defender"].pop("max_steps", None)
        if rng.random() < 0.7:      # the attacker starts with something to exfiltrate
            cfg["coordinator"]["agents"]["Attacker"]["start_position"]["known_data"] = {"192.168.2.2": [["User1", "StartData"]]}
        sess = Session(drv, rng, cfg, defender_tables, on_fail, stats, f"directed#{i}")
        try:
            if sess.sim.startup_error is not None or sess.sim.server_cb is None:
                continue
            modifier_role = ["Defender", "Attacker"][(i // 2) % 2]
            idle_role = rng.choice(["Attacker", "Defender"])
            order = rng.choice(["leave-then-reset", "reset-then-leave"])
            how = rng.choice(["quit", "eof", "readerr"])
            evs = [{"t": "connect", "c": 0}, ev_join(0, modifier_role), {"t": "connect", "c": 1}, ev_join(1, idle_role)]
            if modifier_role == "Defender":
                evs.append(ev_game(sess, 0, Action(ActionType.BlockIP, {"source_host": ip("192.168.1.2"), "target_host": ip("192.168.1.2"), "blocked_host": ip(["192.168.1.3", "8.8.8.8", "192.168.1.4", "192.168.2.2", "192.168.1.3", "10.9.9.9"][(i // 4) % 6])})))
            else:
                net = Network("192.168.1.0", 24)
                evs += [ev_game(sess, 0, Action(ActionType.ScanNetwork, {"source_host": ip("192.168.2.2"), "target_network": net})),
                        # the same scan with the mask written as a float that EQUALS the integer just used: not a well-formed request
                        {"t": "msg", "c": 0, "m": {"k": "bad"}, "bad_kind": "network-mask-not-int",
                         "raw_bytes": json.dumps({"action_type": "ActionType.ScanNetwork", "parameters": {"source_host": {"ip": "192.168.2.2"}, "target_network": {"ip": "192.168.1.0", "mask": 24.0}}}).encode()},
                        ev_game(sess, 0, Action(ActionType.FindData, {"source_host": ip("192.168.2.2"), "target_host": ip("192.168.2.2")})),
                        ev_game(sess, 0, Action(ActionType.FindData, {"source_host": ip("192.168.1.2"), "target_host": ip("192.168.1.2")}))]
            for e in evs:
                sess.do(e)
            if modifier_role == "Attacker":
                # exfiltrate whatever the attacker found on one of its hosts to the other one
                v = sess.coord._agent_states.get(PEER(0))
                if v is not None:
                    for src in sorted(v.controlled_hosts, key=lambda h: (str(h) != "192.168.1.2", str(h))):
                        ds = sorted(v.known_data.get(src, ()), key=repr)
                        tg = [h for h in sorted(v.controlled_hosts, key=lambda h: (str(h) != "213.47.23.195", str(h))) if h != src]
                        if ds and tg:
                            sess.do(ev_game(sess, 0, Action(ActionType.ExfiltrateData, {"source_host": src, "target_host": tg[0], "data": ds[0]})))
                            # decodable, but the world cannot process it (an unhashable field): refused, nothing counted or recorded
                            raw = json.dumps({"action_type": "ActionType.ExfiltrateData", "parameters": {"source_host": {"ip": str(src)}, "target_host": {"ip": str(tg[0])},
                                              "data": {"owner": rng.choice([["not", "hashable"], {"a": 1}]), "id": "d"} if rng.random() < 0.5 else {"owner": "o", "id": "d", "size": [0]}}}).encode()
                            sess.do({"t": "msg", "c": 0, "m": {"k": "game", "act": ["ExfiltrateData", sess.keys.setdefault("unhashable:%s:%s:%d" % (src, tg[0], i), len(sess.keys))]},
                                     "raw_bytes": raw, "roll": 0.9, "note": "unprocessable", "must_refuse": True})
                            break
            leave = ({"t": "msg", "c": 0, "m": {"k": "quit"}, "raw_bytes": J(ActionType.QuitGame)} if how == "quit"
                     else {"t": how, "c": 0, "exc": rng.choice(["reset", "timeout", "pipe"])})
            tail = [leave, ev_reset(1, rng.random() < 0.5)] if order == "leave-then-reset" else [ev_reset(1, rng.random() < 0.5), leave]
            for e in tail:
                sess.do(e)
            if sess.settings["storeTraj"] and not sess.diverged and not sess.broken:
                check_files(sess, on_fail, stats)
            # a replacement joins: the reset completes / the new episode starts; both play a little
            sess.do({"t": "connect", "c": 2})
            sess.do(ev_join(2, modifier_role))
            sess.next_cid = 3          # peer addresses 0-2 are taken by the scripted part
            # in the new episode the agent that stayed looks at every host it controls: nothing of the last episode is there
            v1 = sess.coord._agent_states.get(PEER(1))
            if v1 is not None and not sess.coord._episode_ends.get(PEER(1)):
                for h in sorted(v1.controlled_hosts, key=str)[:3]:
                    if not sess.broken:
                        sess.do(ev_game(sess, 1, Action(ActionType.FindData, {"source_host": h, "target_host": h})))
            sc = Script(sess, rng, {"bad": 0.0, "leave": 0.0, "burst": 0.0, "reuse": 0.0})
            for _ in range(8):
                if sess.broken:
                    break
                sess.do(sc.next())
            stats["directed_sessions"] = stats.get("directed_sessions", 0) + 1
        finally:
            sess.close()


def directed_races(drv, rng, defender_tables, on_fail, stats, n):
    """Scripted histories around the two races random bursts reach rarely.
    (a) one agent is parked at the end-of-episode barrier, the only agent still playing leaves, and the replacement's
        connection and JoinGame arrive in the same run of the event loop (0-3 iterations apart);
    (b) with dynamic addresses one agent has left, the remaining agent's ResetGame completes the agreement and the
        replacement's connection + JoinGame arrive in the same run of the event loop: its first view must be in the NEW labelling."""
    def ev_game(sess, cid, a, roll=0.9):
        return {"t": "msg", "c": cid, "m": {"k": "game", "act": sess.akey(a)}, "raw_bytes": a.to_json().encode(), "roll": roll}

    def ev_join(cid, role):
        return {"t": "msg", "c": cid, "m": {"k": "join", "name": f"agent{cid}", "role": role}, "raw_bytes": J(ActionType.JoinGame, agent_info=AgentInfo(f"agent{cid}", role))}

    def ev_reset(cid, tr=False):
        return {"t": "msg", "c": cid, "m": {"k": "reset", "traj": tr}, "raw_bytes": J(ActionType.ResetGame, request_trajectory=tr)}
    scan = lambda: Action(ActionType.ScanNetwork, {"source_host": IP("192.168.2.2"), "target_network": Network("192.168.1.0", 24)})
    for i in range(n):
        kind = "abc"[i % 3]
        cfg = gen_config(rng)
        cfg["env"].update({"required_players": 2, "use_dynamic_addresses": kind == "b", "use_firewall": True, "use_global_defender": False})
        if kind == "c":
            cfg["env"]["rewards"] = {"step": -1, "success": 100, "fail": -10}
        att = cfg["coordinator"]["agents"]["Attacker"]
        att["start_position"]["controlled_hosts"] = ["213.47.23.195", "192.168.2.2"]
        att["max_steps"] = rng.choice([1, 2, 3]) if kind in "ac" else 20
        att["goal"].update({"known_networks": [], "known_hosts": [], "controlled_hosts": [], "known_services": {}, "known_blocks": {},
                            "known_data": {"213.47.23.195": [["User1", "DataFromServer1"]]}})      # not reached by the script
        sess = Session(drv, rng, cfg, defender_tables, on_fail, stats, f"race-{kind}#{i}")
        try:
            if sess.sim.startup_error is not None or sess.sim.server_cb is None:
                continue
            for e in [{"t": "connect", "c": 0}, ev_join(0, "Attacker"), {"t": "connect", "c": 1}, ev_join(1, "Attacker")]:
                sess.do(e)
            sess.next_cid = 3
            gaps = [0, 0, 0] if rng.random() < 0.5 else [rng.choice([0, 0, 1, 2, 3, 5]) for _ in range(3)]
            how = rng.choice(["eof", "readerr", "quit"])
            leave = ({"t": "msg", "c": 1, "m": {"k": "quit"}, "raw_bytes": J(ActionType.QuitGame)} if how == "quit" else {"t": how, "c": 1, "exc": "reset"})
            if kind == "a":
                for _ in range(att["max_steps"]):
                    sess.do(ev_game(sess, 0, scan()))            # the last one parks agent 0 at the end-of-episode barrier
                sess.do_burst([leave, {"t": "connect", "c": 2}, ev_join(2, "Attacker")], gaps)
            elif kind == "c":
                # both play to their step limit (both finals delivered), 0 asks for the reset and waits, 1 leaves instead of
                # asking: the departure completes the reset AND re-fires the episode-end bookkeeping; then the next episode
                # is played to its end with a replacement - nobody may be paid twice or start the episode already paid
                for _ in range(att["max_steps"]):
                    sess.do(ev_game(sess, 0, scan()))
                for _ in range(att["max_steps"]):
                    sess.do(ev_game(sess, 1, scan()))
                sess.do(ev_reset(0, rng.random() < 0.5))
                sess.do(leave)
                sess.do({"t": "connect", "c": 2})
                sess.do(ev_join(2, "Attacker"))
                for _ in range(att["max_steps"]):
                    sess.do(ev_game(sess, 0, scan()))
                for _ in range(att["max_steps"]):
                    sess.do(ev_game(sess, 2, scan()))
                sess.do(ev_game(sess, 0, scan()))      # one refused action after the end repeats the final reward
            else:
                for _ in range(rng.choice([0, 2])):              # warm-up resets: the world is re-labelled before the race
                    sess.do(ev_reset(0)); sess.do(ev_reset(1))
                sess.do(ev_game(sess, 0, Action(ActionType.FindData, {"source_host": IP("213.47.23.195"), "target_host": IP("213.47.23.195")})))
                sess.do(leave)
                sess.do_burst([ev_reset(0, rng.random() < 0.5), {"t": "connect", "c": 2}, ev_join(2, "Attacker")], gaps)
            sc = Script(sess, rng, {"bad": 0.0, "leave": 0.0, "burst": 0.0, "reuse": 0.0})
            for _ in range(6):
                if sess.broken:
                    break
                sess.do(sc.next())
            # a late joiner: somebody leaves, a new client takes the seat long after the last reset
            live = [c for c in sorted(sess.sim.conns) if not sess.sim.conns[c].task.done() and c not in sess.awaiting and c not in sess.pending_leave]
            if live and not sess.broken:
                sess.do({"t": "eof", "c": live[0], "exc": "reset"})
                nc = max(sess.next_cid, max(sess.sim.conns) + 1)
                sess.next_cid = nc + 1
                sess.do({"t": "connect", "c": nc})
                sess.do(ev_join(nc, rng.choice(["Attacker", "Defender"])))
            stats["directed_races"] = stats.get("directed_races", 0) + 1
        finally:
            sess.close()


def directed_shared_block(drv, rng, defender_tables, on_fail, stats, n):
    """Three players, two of them defenders that control the same host and put the SAME firewall block on it (each one's view
    then records it; the world holds it once).  Both leave in the same episode - the second one by an explicit QuitGame or
    otherwise - while the attacker stays; replacements connect and join.  Judged like every session."""
    def ev_game(sess, cid, a, roll=0.9):
        return {"t": "msg", "c": cid, "m": {"k": "game", "act": sess.akey(a)}, "raw_bytes": a.to_json().encode(), "roll": roll}

    def ev_join(cid, role):
        return {"t": "msg", "c": cid, "m": {"k": "join", "name": f"agent{cid}", "role": role}, "raw_bytes": J(ActionType.JoinGame, agent_info=AgentInfo(f"agent{cid}", role))}
    for i in range(n):
        cfg = gen_config(rng)
        cfg["env"].update({"required_players": 3, "use_dynamic_addresses": False, "use_firewall": True, "use_global_defender": rng.random() < 0.3})
        cfg["coordinator"]["agents"]["Attacker"]["start_position"]["controlled_hosts"] = ["213.47.23.195", "192.168.2.2"]
        cfg["coordinator"]["agents"]["Attacker"].pop("max_steps", None)
        cfg["coordinator"]["agents"]["Defender"]["start_position"]["controlled_hosts"] = ["192.168.1.2"]
        cfg["coordinator"]["agents"]["Defender"]["goal"]["known_blocks"] = {"192.168.1.6": ["213.47.23.195"]}      # not reached by the script
        cfg["coordinator"]["agents"]["Defender"].pop("max_steps", None)
        sess = Session(drv, rng, cfg, defender_tables, on_fail, stats, f"shared-block#{i}")
        try:
            if sess.sim.startup_error is not None or sess.sim.server_cb is None:
                continue
            roles = ["Defender", "Defender", "Attacker"]
            rng.shuffle(roles)
            d = [c for c in range(3) if roles[c] == "Defender"]
            for c in range(3):
                sess.do({"t": "connect", "c": c})
                sess.do(ev_join(c, roles[c]))
            blocked = IP(rng.choice(["192.168.2.2", "192.168.1.3", "213.47.23.195"]))
            blk = Action(ActionType.BlockIP, {"source_host": IP("192.168.1.2"), "target_host": IP("192.168.1.2"), "blocked_host": blocked})
            sess.do(ev_game(sess, d[0], blk))
            if rng.random() < 0.5:
                sess.do(ev_game(sess, d[1], blk))
            else:       # the second defender learns the block by looking at the host
                sess.do(ev_game(sess, d[1], Action(ActionType.FindData, {"source_host": IP("192.168.1.2"), "target_host": IP("192.168.1.2")})))
            if rng.random() < 0.3:
                sess.do(ev_game(sess, d[0], Action(ActionType.BlockIP, {"source_host": IP("192.168.1.2"), "target_host": IP("192.168.1.2"), "blocked_host": IP("192.168.1.4")})))
            order = d[:] if rng.random() < 0.5 else d[::-1]
            hows = [rng.choice(["quit", "eof", "readerr", "quit"]), rng.choice(["quit", "quit", "eof"])]
            for c, how in zip(order, hows):
                if sess.broken:
                    break
                sess.do({"t": "msg", "c": c, "m": {"k": "quit"}, "raw_bytes": J(ActionType.QuitGame)} if how == "quit" else {"t": how, "c": c, "exc": "reset"})
            for c in (3, 4):
                if sess.broken:
                    break
                sess.do({"t": "connect", "c": c})
                sess.do(ev_join(c, "Defender"))
            sess.next_cid = 5
            sc = Script(sess, rng, {"bad": 0.0, "leave": 0.1, "burst": 0.0, "reuse": 0.0})
            for _ in range(10):
                if sess.broken:
                    break
                sess.do(sc.next())
            stats["directed_shared_block"] = stats.get("directed_shared_block", 0) + 1
        finally:
            sess.close()


def directed_late_joiner(drv, rng, defender_tables, on_fail, stats, n):
    """Dynamic addresses: the players of the first episode(s) reset the game once or twice (every reset re-labels the
    network), then one of them leaves and a NEW agent connects and joins: its initial view must be the configured start
    position followed through the re-labellings so far (oracles: start-view-ghosts / start-view-missing), and play goes on."""
    def ev_join(cid, role):
        return {"t": "msg", "c": cid, "m": {"k": "join", "name": f"agent{cid}", "role": role}, "raw_bytes": J(ActionType.JoinGame, agent_info=AgentInfo(f"agent{cid}", role))}

    def ev_reset(cid, tr=False):
        return {"t": "msg", "c": cid, "m": {"k": "reset", "traj": tr}, "raw_bytes": J(ActionType.ResetGame, request_trajectory=tr)}
    for i in range(n):
        cfg = gen_config(rng)
        req = rng.choice([1, 1, 2])
        cfg["env"].update({"required_players": req, "use_dynamic_addresses": True, "use_firewall": True, "use_global_defender": False})
        att = cfg["coordinator"]["agents"]["Attacker"]
        att["start_position"]["controlled_hosts"] = ["213.47.23.195", "192.168.2.2"]
        att["start_position"]["known_hosts"] = rng.choice([[], ["192.168.1.3"], ["192.168.1.3", "192.168.2.1"]])
        att.pop("max_steps", None)
        if rng.random() < 0.7:      # a goal that names an address and is one scan away
            att["goal"].update({"known_networks": [], "known_hosts": ["192.168.1.2"], "controlled_hosts": [], "known_services": {}, "known_data": {}, "known_blocks": {}})
        cfg["coordinator"]["agents"]["Defender"]["start_position"]["controlled_hosts"] = rng.choice([["192.168.1.2"], ["192.168.1.2", "192.168.2.2"]])
        cfg["coordinator"]["agents"]["Defender"].pop("max_steps", None)
        sess = Session(drv, rng, cfg, defender_tables, on_fail, stats, f"late-joiner#{i}")
        try:
            if sess.sim.startup_error is not None or sess.sim.server_cb is None:
                continue
            roles = ["Attacker"] + [rng.choice(["Attacker", "Defender"]) for _ in range(req - 1)]
            for c in range(req):
                sess.do({"t": "connect", "c": c})
                sess.do(ev_join(c, roles[c]))
            sess.next_cid = req + 1
            sc = Script(sess, rng, {"bad": 0.0, "leave": 0.0, "burst": 0.0, "reuse": 0.0, "reset": 0.0})
            for _ in range(rng.randint(1, 2)):
                for _ in range(rng.randint(1, 4)):
                    if sess.broken:
                        break
                    sess.do(sc.next())
                for c in range(req):
                    if not sess.broken:
                        sess.do(ev_reset(c, rng.random() < 0.3))
            if sess.broken:
                continue
            # second or third episode, addresses re-labelled once or twice: agent 0 does what its goal asks for (one scan reveals
            # the goal host); the win condition in force must be the configured one under the CURRENT labelling
            try:
                mi, mn = sess.coord._ip_mapping, sess.coord._network_mapping
                scan = Action(ActionType.ScanNetwork, {"source_host": mi[IP("192.168.2.2")], "target_network": mn[Network("192.168.1.0", 24)]})
            except Exception:
                scan = None
            if scan is not None and not sess.coord._episode_ends.get(PEER(0)):
                plain_fail = sess.fail
                sess.fail = lambda tags, sig, desc, rep: plain_fail(set(tags) | {"C19", "C13"}, sig, desc, rep)
                try:
                    sess.do({"t": "msg", "c": 0, "m": {"k": "game", "act": sess.akey(scan)}, "raw_bytes": scan.to_json().encode(), "roll": 0.9})
                finally:
                    sess.fail = plain_fail
            if sess.broken:
                continue
            leaver = rng.randrange(req)
            sess.do({"t": "msg", "c": leaver, "m": {"k": "quit"}, "raw_bytes": J(ActionType.QuitGame)} if rng.random() < 0.5 else {"t": "eof", "c": leaver})
            sess.do({"t": "connect", "c": req})
            sess.do(ev_join(req, roles[leaver]))
            for _ in range(6):
                if sess.broken:
                    break
                sess.do(sc.next())
            stats["directed_late_joiner"] = stats.get("directed_late_joiner", 0) + 1
        finally:
            sess.close()


def directed_find_services(drv, rng, defender_tables, on_fail, stats, n):
    """One attacker scans the networks it knows and then asks for the services of EVERY host it knows - routers and hosts
    that expose nothing included - and for the data of every host it controls; then resets with the trajectory attached."""
    def ev_game(sess, cid, a, roll=0.9):
        return {"t": "msg", "c": cid, "m": {"k": "game", "act": sess.akey(a)}, "raw_bytes": a.to_json().encode(), "roll": roll}
    for i in range(n):
        cfg = gen_config(rng)
        cfg["env"].update({"required_players": 1, "use_dynamic_addresses": False, "use_firewall": rng.random() < 0.8, "use_global_defender": False})
        att = cfg["coordinator"]["agents"]["Attacker"]
        att["start_position"]["controlled_hosts"] = rng.choice([["213.47.23.195", "192.168.2.2"], ["192.168.2.2"], ["192.168.2.2", "192.168.1.2"]])
        att.pop("max_steps", None)
        att["goal"].update({"known_networks": [], "known_hosts": [], "controlled_hosts": [], "known_services": {}, "known_blocks": {},
                            "known_data": {"213.47.23.195": [["User9", "NoSuchData"]]}})
        if rng.random() < 0.5:      # the rarely used option: a service the agent knows from the start - on a host that runs nothing
            att["start_position"]["known_services"] = {rng.choice(["192.168.2.1", "192.168.1.1"]): ["ssh", "passive", "1.0", False]}
        sess = Session(drv, rng, cfg, defender_tables, on_fail, stats, f"find-services#{i}")
        try:
            if sess.sim.startup_error is not None or sess.sim.server_cb is None:
                continue
            sess.do({"t": "connect", "c": 0})
            sess.do({"t": "msg", "c": 0, "m": {"k": "join", "name": "agent0", "role": "Attacker"}, "raw_bytes": J(ActionType.JoinGame, agent_info=AgentInfo("agent0", "Attacker"))})
            v = sess.coord._agent_states.get(PEER(0))
            if v is None:
                continue
            src = IP("192.168.2.2")
            for net in sorted(v.known_networks, key=str):
                sess.do(ev_game(sess, 0, Action(ActionType.ScanNetwork, {"source_host": src, "target_network": net})))
            v = sess.coord._agent_states.get(PEER(0))
            hosts = sorted(v.known_hosts, key=str)
            rng.shuffle(hosts)
            for h in hosts[:12]:
                if sess.broken:
                    break
                sess.do(ev_game(sess, 0, Action(ActionType.FindServices, {"source_host": src, "target_host": h})))
            if not sess.broken:      # a valid action type with a required parameter left out: one refusal, and play goes on in step
                sess.do({"t": "msg", "c": 0, "m": {"k": "bad"}, "bad_kind": "missing-required",
                         "raw_bytes": json.dumps({"action_type": "ActionType.FindServices", "parameters": {"source_host": {"ip": str(src)}}}).encode()})
            for h in sorted(v.controlled_hosts, key=str):
                if not sess.broken:
                    sess.do(ev_game(sess, 0, Action(ActionType.FindData, {"source_host": h, "target_host": h})))
            if not sess.broken:
                sess.do({"t": "msg", "c": 0, "m": {"k": "reset", "traj": True}, "raw_bytes": J(ActionType.ResetGame, request_trajectory=True)})
            stats["directed_find_services"] = stats.get("directed_find_services", 0) + 1
        finally:
            sess.close()


def directed_empty_game(drv, rng, defender_tables, on_fail, stats, n):
    """One seat.  An attacker exfiltrates what it knows to its other host and leaves WITHOUT a reset - the game is empty.  The next
    attacker joins the still running episode (the copied data is legitimately there), asks for a reset and then looks at every
    host it controls: the world is the loaded one again, nothing of the first session is reported.  A third session repeats it."""
    def ev_game(sess, cid, a, roll=0.9):
        return {"t": "msg", "c": cid, "m": {"k": "game", "act": sess.akey(a)}, "raw_bytes": a.to_json().encode(), "roll": roll}
    for i in range(n):
        cfg = gen_config(rng)
        cfg["env"].update({"required_players": 1, "use_dynamic_addresses": False, "use_firewall": True, "use_global_defender": False})
        att = cfg["coordinator"]["agents"]["Attacker"]
        att["start_position"]["controlled_hosts"] = ["213.47.23.195", "192.168.2.2", "192.168.1.2"]      # the last one holds data of the scenario
        att["start_position"]["known_data"] = {}
        att.pop("max_steps", None)
        att["goal"].update({"known_networks": [], "known_hosts": [], "controlled_hosts": [], "known_services": {}, "known_blocks": {},
                            "known_data": {"213.47.23.195": [["User9", "NoSuchData"]]}})
        sess = Session(drv, rng, cfg, defender_tables, on_fail, stats, f"empty-game#{i}")
        try:
            if sess.sim.startup_error is not None or sess.sim.server_cb is None:
                continue
            src, cc = IP("192.168.1.2"), IP("213.47.23.195")
            for cid in range(3):
                if sess.broken:
                    break
                sess.do({"t": "connect", "c": cid})
                sess.do({"t": "msg", "c": cid, "m": {"k": "join", "name": f"agent{cid}", "role": "Attacker"}, "raw_bytes": J(ActionType.JoinGame, agent_info=AgentInfo(f"agent{cid}", "Attacker"))})
                if cid > 0:
                    sess.do({"t": "msg", "c": cid, "m": {"k": "reset", "traj": False}, "raw_bytes": J(ActionType.ResetGame, request_trajectory=False)})
                    for h in (cc, IP("192.168.2.2")):
                        if not sess.broken:
                            sess.do(ev_game(sess, cid, Action(ActionType.FindData, {"source_host": h, "target_host": h})))
                if sess.broken:
                    break
                sess.do(ev_game(sess, cid, Action(ActionType.FindData, {"source_host": src, "target_host": src})))
                vv = sess.coord._agent_states.get(PEER(cid))
                found = sorted(vv.known_data.get(src, ()), key=repr) if vv is not None else []
                for d in found[:2]:
                    if not sess.broken:
                        sess.do(ev_game(sess, cid, Action(ActionType.ExfiltrateData, {"source_host": src, "target_host": rng.choice([cc, IP("192.168.2.2")]), "data": d})))
                if rng.random() < 0.5:
                    sess.do(ev_game(sess, cid, Action(ActionType.BlockIP, {"source_host": src, "target_host": src, "blocked_host": IP("192.168.1.3")})))
                sess.do({"t": "msg", "c": cid, "m": {"k": "quit"}, "raw_bytes": J(ActionType.QuitGame)} if rng.random() < 0.5 else {"t": "eof", "c": cid})
            stats["directed_empty_game"] = stats.get("directed_empty_game", 0) + 1
        finally:
            sess.close()


def directed_defender(drv, rng, defender_tables, on_fail, stats, n):
    """Global defender on, one attacker, long episodes: an identical FindData / ExploitService is repeated with 5-8 other
    actions in between (fillers rolled high so that only the repeats can be detected), the repeats rolled 0: detection
    then depends on the EPISODE-wide repeat count, not on the last few actions."""
    def ev_game(sess, cid, a, roll):
        return {"t": "msg", "c": cid, "m": {"k": "game", "act": sess.akey(a)}, "raw_bytes": a.to_json().encode(), "roll": roll}
    src, c2 = IP("192.168.2.2"), IP("213.47.23.195")
    for i in range(n):
        cfg = gen_config(rng)
        cfg["env"].update({"required_players": 1, "use_dynamic_addresses": False, "use_firewall": True, "use_global_defender": True})
        if rng.random() < 0.5:      # the fail reward takes the configured value also when that is not a whole number
            cfg["env"]["rewards"] = rng.choice([{"step": -0.5, "success": 10.5, "fail": -7.5}, {"step": -0.25, "fail": -1.5}, {"step": -0.125, "success": 3.375, "fail": -0.625}, {"fail": -2.75}])
        att = cfg["coordinator"]["agents"]["Attacker"]
        att["start_position"]["controlled_hosts"] = ["213.47.23.195", "192.168.2.2"]
        att["max_steps"] = 60
        att["goal"].update({"known_networks": [], "known_hosts": [], "controlled_hosts": [], "known_services": {}, "known_blocks": {},
                            "known_data": {"213.47.23.195": [["User9", "NoSuchData"]]}})
        sess = Session(drv, rng, cfg, defender_tables, on_fail, stats, f"defender#{i}")
        try:
            if sess.sim.startup_error is not None or sess.sim.server_cb is None:
                continue
            sess.do({"t": "connect", "c": 0})
            sess.do({"t": "msg", "c": 0, "m": {"k": "join", "name": "agent0", "role": "Attacker"}, "raw_bytes": J(ActionType.JoinGame, agent_info=AgentInfo("agent0", "Attacker"))})
            X = rng.choice([Action(ActionType.FindData, {"source_host": src, "target_host": rng.choice([src, c2])}),
                            Action(ActionType.ExploitService, {"source_host": src, "target_host": IP("192.168.1.2"),
                                                               "target_service": Service("ssh", "passive", "8.1.0", False)})])
            fillers = [Action(ActionType.ScanNetwork, {"source_host": src, "target_network": Network("192.168.1.0", 24)}),
                       Action(ActionType.ScanNetwork, {"source_host": src, "target_network": Network("192.168.2.0", 24)}),
                       Action(ActionType.FindServices, {"source_host": src, "target_host": IP("192.168.1.2")}),
                       Action(ActionType.FindServices, {"source_host": src, "target_host": IP("192.168.1.3")}),
                       Action(ActionType.BlockIP, {"source_host": src, "target_host": src, "blocked_host": IP("192.168.1.4")}),
                       Action(ActionType.ExfiltrateData, {"source_host": src, "target_host": c2, "data": Data("u", "d")})]
            # half of the sessions: the fillers cannot be detected (only the repeats decide); the other half: a third of the
            # fillers is rolled 0, so threshold decisions on the window matter (and the window must hold what was really played)
            filler_roll = 0.9 if i % 2 == 0 else None      # None: each filler rolled 0.9 / 0.9 / 0 at random
            for rep in range(5):
                if sess.broken or sess.coord._episode_ends.get(PEER(0)):
                    break
                xa = X
                if rng.random() < 0.5:
                    items = list(X.parameters.items())
                    rng.shuffle(items)
                    xa = Action(X.type, dict(items))
                sess.do(ev_game(sess, 0, xa, 0.9 if rep == 0 else 0.0))
                for _ in range(rng.randint(5, 8)):
                    if sess.coord._episode_ends.get(PEER(0)):
                        break
                    sess.do(ev_game(sess, 0, rng.choice(fillers), filler_roll if filler_roll else rng.choice([0.9, 0.9, 0.0])))
            stats["directed_defender"] = stats.get("directed_defender", 0) + 1
        finally:
            sess.close()


def probe_all_attackers_goal(on_fail, stats):
    """The task-configuration comments document `known_blocks: {<host>: 'all_attackers'}` for the Defender goal (the shipped
    netsecenv_conf.yaml uses it).  One defender with that goal blocks an address on that very host: the action must be
    answered (C01), the episode-end rule must be evaluated (C04), the documented key must be honoured (C19).
    The modelled configuration domain has no wildcards inside goals, so this is a probe of the real code alone."""
    cfg = default_config(env={"required_players": 2})
    cfg["coordinator"]["agents"]["Defender"]["goal"]["known_blocks"] = {"192.168.1.2": "all_attackers"}
    cfg["coordinator"]["agents"]["Defender"]["start_position"]["controlled_hosts"] = ["192.168.1.2"]
    sim = Sim(cfg)
    try:
        if sim.startup_error is not None or sim.server_cb is None:
            on_fail({"C19"}, "finding:all_attackers-goal:startup", f"a configuration using the documented 'all_attackers' goal keyword is not accepted: {sim.startup_error!r}", {"kind": "config", "config": cfg})
            return
        sim.connect(0)
        sim.send(0, J(ActionType.JoinGame, agent_info=AgentInfo("a", "Attacker")))
        sim.connect(1)
        sim.send(1, J(ActionType.JoinGame, agent_info=AgentInfo("d", "Defender")))
        sim.outputs()
        sim.send(1, J(ActionType.BlockIP, source_host=IP("192.168.1.2"), target_host=IP("192.168.1.2"), blocked_host=IP("192.168.2.2")))
        outs = [(c, k) for c, k, p in sim.outputs()]
        died = [repr(u.get("exception"))[:160] for u in sim.loop.unhandled]
        stats["probe_all_attackers"] = stats.get("probe_all_attackers", 0) + 1
        # the defender's goal is not met by this block, an attacker still plays: the action is an ordinary step and must be answered at once
        if (1, "reply") not in outs or died:
            on_fail({"C01", "C04", "C19"}, "finding:all_attackers-goal:BlockIP-unanswered",
                    f"Defender goal known_blocks {{192.168.1.2: 'all_attackers'}} (documented keyword): the defender's BlockIP on 192.168.1.2 is "
                    f"{'not answered' if (1, 'reply') not in outs else 'answered'}; exception escaping the handler: {died}",
                    {"kind": "config-session", "config": cfg, "script": ["Attacker joins", "Defender joins", "Defender: BlockIP(192.168.1.2, 192.168.1.2, 192.168.2.2)"]})
    finally:
        sim.close()


def probe_unencodable_name(on_fail, stats):
    """save_trajectories on; an agent joins under a name that is valid JSON but cannot be written as UTF-8 (lone surrogate),
    plays a step and asks for a reset: RESET_DONE must come (C07) and the episode must be in a trajectory file (C16).
    (The Lean driver's JSON reader cannot carry such a string, so this is a probe of the real code alone.)"""
    import glob
    cfg = default_config(env={"required_players": 1, "save_trajectories": True})
    sim = Sim(cfg)
    try:
        if sim.startup_error is not None or sim.server_cb is None:
            return
        sim.connect(0)
        sim.send(0, b'{"action_type": "ActionType.JoinGame", "parameters": {"agent_info": {"name": "x\\ud800y", "role": "Attacker"}}}'.replace(b"\\\\", b"\\"))
        first = [(c, k) for c, k, p in sim.outputs()]
        sim.send(0, J(ActionType.ScanNetwork, source_host=IP("192.168.2.2"), target_network=Network("192.168.1.0", 24)))
        sim.outputs()
        sim.send(0, J(ActionType.ResetGame, request_trajectory=False))
        outs = [(c, k, (parse_reply(p)[1] or {}).get("status") if k == "reply" else None) for c, k, p in sim.outputs()]
        stats["probe_unencodable_name"] = stats.get("probe_unencodable_name", 0) + 1
        died = [repr(u.get("exception"))[:120] for u in sim.loop.unhandled]
        if (0, "reply") not in first:
            return      # such a name is refused at the door: nothing to store
        if (0, "reply", "GameStatus.RESET_DONE") not in outs:
            on_fail({"C07", "C01"}, "unencodable-name:no-reset-done", f"an agent named 'x\\ud800y' asked for a reset with save_trajectories on: replies {outs}, exceptions {died}",
                    {"kind": "config-session", "config": cfg, "script": ["join as x\\ud800y", "ScanNetwork", "ResetGame"]})
        files = glob.glob(os.path.join(sim.workdir, "trajectories", "*.jsonl"))
        n = 0
        for f in files:
            with open(f, encoding="utf-8", errors="replace") as fh:
                n += sum(1 for line in fh if line.strip())
        if n != 1:
            on_fail({"C16"}, "unencodable-name:no-file-record", f"the episode of an agent named 'x\\ud800y' is not in a trajectory file after the reset ({n} records in {len(files)} files)",
                    {"kind": "config-session", "config": cfg})
    finally:
        sim.close()


def probe_surrogate_echo(on_fail, stats):
    """Messages that are valid JSON but carry a lone UTF-16 surrogate in the text an error reply echoes (role, action type,
    parameter name).  Each must be answered with a refusal on the same connection, the connection must stay open, nobody's
    membership may change, and the game goes on (C01: one reply per request; C09: a refusal is the whole effect).
    (The Lean driver's JSON reader cannot carry such a string, so this is a probe of the real code alone.)"""
    cfg = default_config(env={"required_players": 2})
    sim = Sim(cfg)
    S = b"\\ud800"
    try:
        if sim.startup_error is not None or sim.server_cb is None:
            return
        sim.connect(0)
        sim.connect(1)
        sim.outputs()

        def refused(cid, what, raw, script):
            members0 = sorted(map(str, sim.coord.agents))
            sim.send(cid, raw)
            outs = [(c, k, (parse_reply(p)[1] or {}).get("status") if k == "reply" else None) for c, k, p in sim.outputs()]
            died = [repr(u.get("exception"))[:120] for u in sim.loop.unhandled]
            stats["probe_surrogate_echo"] = stats.get("probe_surrogate_echo", 0) + 1
            members = sorted(map(str, sim.coord.agents))
            if outs == [(cid, "reply", "GameStatus.BAD_REQUEST")] and members == members0 and not sim.conns[cid].writer.closed:
                return True
            on_fail({"C01", "C09"}, "surrogate-echo:" + what.split(" '")[0].replace(" ", "-"),
                    f"connection {cid} sent a message with {what} (valid JSON, lone surrogate): expected exactly one BAD_REQUEST reply on that connection and no other effect; "
                    f"got {outs}, members {members0} -> {members}, connection closed={sim.conns[cid].writer.closed}, exceptions {died}",
                    {"kind": "config-session", "config": cfg, "script": script + [f"connection {cid}: {raw.decode()}"]})
            return False
        script = ["two connections open (2 players required)"]
        # before joining
        if not refused(1, "join with role '\\ud800dmin'", b'{"action_type": "ActionType.JoinGame", "parameters": {"agent_info": {"name": "b", "role": "' + S + b'dmin"}}}', script):
            return
        if not refused(0, "not an object: '\\ud800'", b'"' + S + b'"', script):
            return
        sim.send(0, J(ActionType.JoinGame, agent_info=AgentInfo("a", "Attacker")))
        sim.send(1, J(ActionType.JoinGame, agent_info=AgentInfo("b", "Attacker")))
        outs = sorted((c, (parse_reply(p)[1] or {}).get("status")) for c, k, p in sim.outputs() if k == "reply")
        if outs != [(0, "GameStatus.CREATED"), (1, "GameStatus.CREATED")]:
            on_fail({"C01", "C09"}, "surrogate-echo:game-does-not-start", f"after two refused messages with lone surrogates both players join: expected CREATED for both, got {outs}",
                    {"kind": "config-session", "config": cfg})
            return
        script.append("a and b join: game started")
        # while playing
        if not refused(0, "action type '\\ud800Scan'", b'{"action_type": "' + S + b'Scan", "parameters": {}}', script):
            return
        if not refused(1, "parameter named '\\ud800x'", b'{"action_type": "ActionType.FindData", "parameters": {"' + S + b'x": 1}}', script):
            return
        steps0 = dict(sim.coord._agent_steps)
        sim.send(0, J(ActionType.ScanNetwork, source_host=IP("192.168.2.2"), target_network=Network("192.168.1.0", 24)))
        outs = [(c, (parse_reply(p)[1] or {}).get("status")) for c, k, p in sim.outputs() if k == "reply"]
        if outs != [(0, "GameStatus.OK")] or sim.coord._agent_steps.get(PEER(0)) != steps0.get(PEER(0), 0) + 1 or sim.coord._agent_steps.get(PEER(1)) != steps0.get(PEER(1), 0):
            on_fail({"C01", "C09"}, "surrogate-echo:game-does-not-go-on", f"after the refused messages agent a scans: expected one OK and one step counted for a only, got {outs}, step counters {steps0} -> {dict(sim.coord._agent_steps)}",
                    {"kind": "config-session", "config": cfg})
    finally:
        sim.close()


def probe_leave_unwritable_store(on_fail, stats):
    """save_trajectories on, but the trajectory store cannot be written (a FILE named ./trajectories is in the way).  No
    reset happens, so nothing has to be stored: agents that leave mid-episode (QuitGame / closing the connection) must be
    forgotten completely, their slots freed, and a new agent must be able to connect and join (C10, C18; the close is the
    answer to QuitGame, C01).  An environment fault the lock-step sessions do not inject: probe of the real code alone."""
    for how in ("quit", "eof"):
        cfg = default_config(env={"required_players": 2, "save_trajectories": True})
        sim = Sim(cfg)
        try:
            if sim.startup_error is not None or sim.server_cb is None:
                return
            with open(os.path.join(sim.workdir, "trajectories"), "w") as f:
                f.write("not a directory\n")
            sim.connect(0)
            sim.send(0, J(ActionType.JoinGame, agent_info=AgentInfo("a", "Attacker")))
            sim.connect(1)
            sim.send(1, J(ActionType.JoinGame, agent_info=AgentInfo("b", "Attacker")))
            sim.outputs()
            sim.send(0, J(ActionType.ScanNetwork, source_host=IP("192.168.2.2"), target_network=Network("192.168.1.0", 24)))
            sim.outputs()
            if how == "quit":
                sim.send(0, J(ActionType.QuitGame))
            else:
                sim.eof(0)
            outs = [(c, k) for c, k, p in sim.outputs()]
            died = [repr(u.get("exception"))[:120] for u in sim.loop.unhandled]
            stats["probe_leave_unwritable_store"] = stats.get("probe_leave_unwritable_store", 0) + 1
            rep = {"kind": "config-session", "config": cfg, "script": ["a file named ./trajectories blocks the store", "a, b join", "a: ScanNetwork", f"a leaves ({how})"]}
            if PEER(0) in sim.coord.agents or not sim.handler_done(0) or (how == "quit" and (0, "closed") not in outs):
                on_fail({"C10", "C18"} | ({"C01"} if how == "quit" else set()), f"leave-unwritable-store:{how}:not-forgotten",
                        f"trajectory store unwritable, agent a leaves by {how} mid-episode: still a member={PEER(0) in sim.coord.agents}, connection handler finished={sim.handler_done(0)}, outputs {outs}, exceptions {died}", rep)
                continue
            sim.connect(2)
            sim.send(2, J(ActionType.JoinGame, agent_info=AgentInfo("c", "Attacker")))
            sim.outputs()
            if sim.conns[2].writer.closed or PEER(2) not in sim.coord.agents:
                on_fail({"C10", "C18"}, f"leave-unwritable-store:{how}:no-rejoin",
                        f"trajectory store unwritable, agent a left by {how}: a new agent connecting afterwards is {'refused' if sim.conns[2].writer.closed else 'not registered by its JoinGame'}", rep)
        finally:
            sim.close()


def probe_marker_in_values(on_fail, stats):
    """Valid messages whose VALUES contain the text of the end-of-message marker ("EOF"), white space at their ends, or
    other text a careless splitter would trip over: an agent named GEOFF, a service called EOFd, a datapoint report_EOF_2024.
    Each must arrive at the game as it was sent: JoinGame confirmed, the action answered OK, and the action the coordinator
    remembers for the agent equal to the action sent (C14; an answer at all: C01; not a refusal: C09)."""
    from AIDojoCoordinator.game_components import ProtocolConfig
    marker = ProtocolConfig.END_OF_MESSAGE.decode() if isinstance(ProtocolConfig.END_OF_MESSAGE, bytes) else str(ProtocolConfig.END_OF_MESSAGE)
    cfg = default_config(env={"required_players": 1})
    for name in ("G" + marker + "F", marker, "x " + marker + " y", "Agent  Smith"):
        sim = Sim(cfg)
        try:
            if sim.startup_error is not None or sim.server_cb is None:
                return
            sim.connect(0)
            sim.send(0, J(ActionType.JoinGame, agent_info=AgentInfo(name, "Attacker")))
            outs = [(c, k, (parse_reply(p)[1] or {}).get("status") if k == "reply" else None) for c, k, p in sim.outputs()]
            stats["probe_marker_in_values"] = stats.get("probe_marker_in_values", 0) + 1
            rep = {"kind": "config-session", "config": cfg, "script": [f"JoinGame as {name!r}"]}
            if outs != [(0, "reply", "GameStatus.CREATED")] or sim.coord.agents.get(PEER(0), (None,))[0] != name:
                on_fail({"C14", "C01", "C09"}, "marker-in-value:join", f"JoinGame of an agent named {name!r}: expected CREATED and the name registered as sent, got {outs}, registered {sim.coord.agents.get(PEER(0))}", rep)
                continue
            src = IP("192.168.2.2")
            acts = [Action(ActionType.ExploitService, {"source_host": src, "target_host": IP("192.168.1.2"), "target_service": Service(marker + "d", "passive", "1." + marker, False)}),
                    Action(ActionType.ExfiltrateData, {"source_host": src, "target_host": IP("213.47.23.195"), "data": Data("User1", "report_" + marker + "_2024")}),
                    Action(ActionType.ExfiltrateData, {"source_host": src, "target_host": IP("213.47.23.195"), "data": Data(" lead", "trail ", 3, " t ")}),
                    Action(ActionType.ExfiltrateData, {"source_host": src, "target_host": IP("213.47.23.195"), "data": Data("User1", "Database   Data", 0, "two  blanks")}),
                    Action(ActionType.ExploitService, {"source_host": src, "target_host": IP("192.168.1.2"), "target_service": Service("remote  desktop", "passive", "10.0\t1", False)}),
                    Action(ActionType.ExploitService, {"source_host": src, "target_host": IP("192.168.1.3"), "target_service": Service(" ssh", "passive ", "14.3.0 ", False)})]
            for a in acts:
                sim.send(0, a.to_json())
                outs = [(c, k, (parse_reply(p)[1] or {}).get("status") if k == "reply" else None) for c, k, p in sim.outputs()]
                got = sim.coord._agent_last_action.get(PEER(0))
                if outs != [(0, "reply", "GameStatus.OK")] or not (got == a):
                    on_fail({"C14", "C01", "C09"}, "marker-in-value:" + str(a.type).split(".")[-1], f"a valid {a.type} whose values contain the marker text / white space at their ends ({a.to_json()[:200]}): "
                            f"expected OK and the action to arrive as sent, got {outs}, arrived as {str(got)[:200]}", dict(rep, script=rep["script"] + [a.to_json()]))
                    break
        finally:
            sim.close()


def probe_same_peer_slots(on_fail, stats):
    """Two connections that report the SAME peer name are served at the same time (asyncio reports peername None for a peer
    that is already gone when its handler starts); both end.  Their two slots must come back: two new agents can connect
    and join afterwards (C18)."""
    for peer in (None, ("127.0.0.1", 40000)):
        cfg = default_config(env={"required_players": 2})
        sim = Sim(cfg)
        try:
            if sim.startup_error is not None or sim.server_cb is None:
                return
            for cid in (0, 1):
                c = sim.connect(cid, settle=False)
                c.writer.peer = peer
            sim.settle()
            sim.eof(0)
            sim.eof(1)
            sim.outputs()
            stats["probe_same_peer_slots"] = stats.get("probe_same_peer_slots", 0) + 1
            served = []
            for cid in (2, 3):
                sim.connect(cid)
                sim.send(cid, J(ActionType.JoinGame, agent_info=AgentInfo(f"n{cid}", "Attacker")))
                served.append(not sim.conns[cid].writer.closed and PEER(cid) in sim.coord.agents)
            sim.outputs()
            if not all(served):
                on_fail({"C18"}, "same-peer-slots", f"two connections reporting the same peer name {peer!r} were served and ended; of the two agents connecting afterwards (limit 2) "
                        f"{served.count(False)} was/were refused: the server counts {getattr(sim.server_cb, 'current_connections', '?')} connections",
                        {"kind": "config-session", "config": cfg, "script": [f"two connections with peer name {peer!r}", "both: EOF", "two new agents connect and join"]})
        finally:
            sim.close()


def probe_defender_switch(on_fail, stats):
    """env.use_global_defender takes the configured value - in what the game DOES: with the switch on, an attacker that scans
    six times in a row (the detection draw pinned to 0) is detected and ends with Fail; with the switch off or absent the same
    script is never detected (C19; C17 for the 'on' half)."""
    orig = GD.random
    GD.random = lambda: 0.0
    try:
        for setting in (True, False, None):
            env = {"required_players": 1}
            if setting is not None:
                env["use_global_defender"] = setting
            cfg = default_config(env=env)
            if setting is None:
                cfg["env"].pop("use_global_defender", None)
            cfg["coordinator"]["agents"]["Attacker"]["max_steps"] = 50
            cfg["coordinator"]["agents"]["Attacker"]["goal"]["known_data"] = {"213.47.23.195": [["User9", "NoSuchData"]]}
            sim = Sim(cfg)
            try:
                if sim.startup_error is not None or sim.server_cb is None:
                    continue
                sim.connect(0)
                sim.send(0, J(ActionType.JoinGame, agent_info=AgentInfo("a", "Attacker")))
                sim.outputs()
                reasons = []
                for i in range(8):
                    sim.send(0, J(ActionType.ScanNetwork, source_host=IP("192.168.2.2"), target_network=Network("192.168.1.0", 24)))
                    for c, k, p in sim.outputs():
                        if k == "reply":
                            ob = (parse_reply(p)[1] or {}).get("observation") or {}
                            reasons.append((ob.get("end"), (ob.get("info") or {}).get("end_reason")))
                stats["probe_defender_switch"] = stats.get("probe_defender_switch", 0) + 1
                detected = any(r and "Fail" in str(r) for _, r in reasons)
                if detected != bool(setting):
                    on_fail({"C19"} | ({"C17"} if setting else set()), f"defender-switch:{setting}",
                            f"use_global_defender is {'absent' if setting is None else setting}: eight identical scans in a row with the detection draw pinned to 0 were "
                            f"{'detected' if detected else 'never detected'} (replies end/reason: {reasons})", {"kind": "config-session", "config": cfg, "script": ["join", "8 x ScanNetwork 192.168.1.0/24, detection draw 0.0"]})
            finally:
                sim.close()
    finally:
        GD.random = orig


def probe_start_position_without_blocks(on_fail, stats):
    """A task file whose start positions lack the never-read `known_blocks` key.  If the game starts with it, a JoinGame of that
    role must be answered (C01) with the configured hosts (C19), and when the client then closes, its slot comes back and
    the next agent is served (C18, C10)."""
    cfg = default_config(env={"required_players": 1})
    for role in ("Attacker", "Defender"):
        cfg["coordinator"]["agents"][role]["start_position"].pop("known_blocks", None)
    for role in ("Defender", "Attacker"):
        sim = Sim(cfg)
        try:
            if sim.startup_error is not None or sim.server_cb is None:
                return          # such a file is refused at start-up: nothing to judge
            sim.connect(0)
            sim.send(0, J(ActionType.JoinGame, agent_info=AgentInfo("a", role)))
            outs = [(c, k, (parse_reply(p)[1] or {}).get("status") if k == "reply" else None) for c, k, p in sim.outputs()]
            stats["probe_start_position_without_blocks"] = stats.get("probe_start_position_without_blocks", 0) + 1
            rep = {"kind": "config-session", "config": cfg, "script": [f"JoinGame as {role}", "client closes", "next agent connects and joins"]}
            if outs != [(0, "reply", "GameStatus.CREATED")]:
                on_fail({"C01", "C19"}, "start-without-blocks:join", f"start positions without the known_blocks key, the game started: JoinGame as {role} got {outs} instead of CREATED "
                        f"(exceptions {[repr(u.get('exception'))[:100] for u in sim.loop.unhandled][-1:]})", rep)
            sim.eof(0)
            sim.outputs()
            sim.connect(1)
            sim.send(1, J(ActionType.JoinGame, agent_info=AgentInfo("b", role)))
            if not sim.handler_done(0) or sim.conns[1].writer.closed:
                on_fail({"C18", "C10"}, "start-without-blocks:slot", f"start positions without the known_blocks key: after the {role} client closed its connection the handler "
                        f"{'is still running' if not sim.handler_done(0) else 'ended'}, and the next agent's connection is {'refused' if sim.conns[1].writer.closed else 'served'}", rep)
        finally:
            sim.close()


def probe_defender_rolls(on_fail, stats):
    """C17 needs the detection roll to be a fresh draw for every check.  With the REAL random source: one attacker repeats
    the same five-action episode three times; the sequences of values the defender draws in the episodes after the first and the
    second reset must differ (identical sequences mean the generator is rewound by the reset)."""
    cfg = default_config(env={"required_players": 1, "use_global_defender": True})
    cfg["coordinator"]["agents"]["Attacker"]["max_steps"] = 60
    cfg["coordinator"]["agents"]["Attacker"]["goal"]["known_data"] = {"213.47.23.195": [["User9", "NoSuchData"]]}
    sim = Sim(cfg)
    draws = []
    orig = GD.random

    def rec():
        x = orig()
        draws.append(x)
        return x
    GD.random = rec
    try:
        if sim.startup_error is not None or sim.server_cb is None:
            return
        sim.connect(0)
        sim.send(0, J(ActionType.JoinGame, agent_info=AgentInfo("a", "Attacker")))
        per_episode = []
        scan = J(ActionType.ScanNetwork, source_host=IP("192.168.2.2"), target_network=Network("192.168.1.0", 24))
        fs = J(ActionType.FindServices, source_host=IP("192.168.2.2"), target_host=IP("192.168.1.2"))
        for ep in range(4):
            n0 = len(draws)
            for k in range(14):
                if sim.coord._episode_ends.get(PEER(0)):
                    break
                sim.send(0, scan if k % 2 == 0 else fs)
            per_episode.append(tuple(draws[n0:]))
            sim.send(0, J(ActionType.ResetGame, request_trajectory=False))
        sim.outputs()
        stats["probe_defender_rolls"] = stats.get("probe_defender_rolls", 0) + 1
        later = [e for e in per_episode[1:] if len(e) >= 2]
        if len(later) >= 2 and len(set(later)) == 1:
            on_fail({"C17"}, "rolls-replayed", f"with the real random source the defender draws the SAME values in every episode after a reset ({later[0][:3]}...): detection is not an independent draw per check",
                    {"kind": "config-session", "config": cfg, "draws_per_episode": [list(e) for e in per_episode]})
    finally:
        GD.random = orig
        sim.close()


def directed_long_episode(drv, rng, defender_tables, on_fail, stats, n):
    """One agent plays a long episode on the full scenario and asks for its trajectory: the RESET_DONE message is far larger than
    any read buffer or log limit (about 100 kB) and must still be ONE well-formed document carrying the fresh view and the whole
    trajectory (C15 framing, C16 content), judged like every session."""
    for i in range(n):
        cfg = gen_config(rng)
        cfg["env"].update({"required_players": 1, "use_dynamic_addresses": False, "use_global_defender": False, "scenario": "scenario1"})
        att = cfg["coordinator"]["agents"]["Attacker"]
        att["start_position"]["controlled_hosts"] = ["213.47.23.195", "192.168.2.2"]
        att["max_steps"] = 100
        att["goal"].update({"known_networks": [], "known_hosts": [], "controlled_hosts": [], "known_services": {}, "known_blocks": {},
                            "known_data": {"213.47.23.195": [["User9", "NoSuchData"]]}})
        sess = Session(drv, rng, cfg, defender_tables, on_fail, stats, f"long#{i}")
        try:
            if sess.sim.startup_error is not None or sess.sim.server_cb is None:
                continue
            sess.do({"t": "connect", "c": 0})
            sess.do({"t": "msg", "c": 0, "m": {"k": "join", "name": "agent0", "role": "Attacker"}, "raw_bytes": J(ActionType.JoinGame, agent_info=AgentInfo("agent0", "Attacker"))})
            sc = Script(sess, rng, {"bad": 0.0, "leave": 0.0, "burst": 0.0, "reuse": 0.0, "early_reset": 0.0, "extra_connect": 0.0})
            # first grow the view (every network scanned, services of a dozen hosts), so that every recorded state is large
            v0 = sess.coord._agent_states.get(PEER(0))
            grow = [Action(ActionType.ScanNetwork, {"source_host": IP("192.168.2.2"), "target_network": nn}) for nn in sorted(v0.known_networks, key=str)] if v0 is not None else []
            for a in grow:
                if not sess.broken:
                    sess.do({"t": "msg", "c": 0, "m": {"k": "game", "act": sess.akey(a)}, "raw_bytes": a.to_json().encode(), "roll": 0.9})
            v0 = sess.coord._agent_states.get(PEER(0))
            for h in (sorted(v0.known_hosts, key=str)[:12] if v0 is not None else []):
                a = Action(ActionType.FindServices, {"source_host": IP("192.168.2.2"), "target_host": h})
                if not sess.broken:
                    sess.do({"t": "msg", "c": 0, "m": {"k": "game", "act": sess.akey(a)}, "raw_bytes": a.to_json().encode(), "roll": 0.9})
            for _ in range(rng.choice([65, 75])):
                if sess.broken or sess.coord._episode_ends.get(PEER(0)):
                    break
                a = sc.game_action(0)
                sess.do({"t": "msg", "c": 0, "m": {"k": "game", "act": sess.akey(a)}, "raw_bytes": a.to_json().encode(), "roll": 0.9})
            sess.do({"t": "msg", "c": 0, "m": {"k": "reset", "traj": True}, "raw_bytes": J(ActionType.ResetGame, request_trajectory=True)})
            stats["long_episodes"] = stats.get("long_episodes", 0) + 1
        finally:
            sess.close()


def _canon_outs(outs):
    r = []
    for o in outs or []:
        r.append(json.dumps([o.get("c"), o.get("k"), o.get("code"), o.get("obs"), o.get("maxSteps"), (o.get("traj") or {}).get("rewards"),
                             (o.get("traj") or {}).get("states")], sort_keys=True, default=str))
    return sorted(r)


def twin_sessions(drv, rng, defender_tables, on_fail, stats, n, n_events=40):
    """C09 on the real code alone, as a differential: a session is played with many malformed / out-of-order messages;
    then the SAME session is played again on a fresh coordinator (same configuration and seed) with every rejected message
    left out.  Everything else must be answered identically - a rejected message may not even shift hidden state such as
    the position of the random generator behind 'random' start hosts."""
    for i in range(n):
        cfg = gen_config(rng)
        cfg["env"]["use_dynamic_addresses"] = False
        if rng.random() < 0.7:
            cfg["env"]["scenario"] = "scenario1"
            cfg["coordinator"]["agents"]["Attacker"]["start_position"]["controlled_hosts"] = rng.choice([["random"], ["213.47.23.195", "random"]])
        if "213.47.23.195" in cfg["coordinator"]["agents"]["Attacker"]["start_position"]["controlled_hosts"]:
            # something known on a controlled host: messages the decoder accepts but the world cannot process can then reach the world
            cfg["coordinator"]["agents"]["Attacker"]["start_position"]["known_data"] = {"213.47.23.195": [["User1", "StartData"]]}
        sess = Session(drv, rng, cfg, defender_tables, on_fail, stats, f"twin#{i}")
        per_event = []
        try:
            if sess.sim.startup_error is not None or sess.sim.server_cb is None:
                continue
            sc = Script(sess, rng, {"bad": 0.2, "out_of_order": 0.3, "leave": 0.03, "burst": 0.0, "early_reset": 0.06, "unprocessable": 0.2})
            for _ in range(n_events):
                if sess.broken:
                    break
                n0 = len(sess.events)
                sess.last_real_outs = None
                sess.do(sc.next())
                if len(sess.events) == n0 + 1:
                    per_event.append((sess.events[-1], sess.last_real_outs or []))
            diverged = sess.diverged or sess.broken
        finally:
            sess.close()
        if diverged:
            continue
        rejected = [k for k, (e, outs) in enumerate(per_event)
                    if e["t"] == "msg" and outs and all(o.get("c") == e["c"] and o.get("k") == "reply" and o.get("code") == "BAD_REQUEST" for o in outs)]
        if not rejected:
            continue
        stats["twin_sessions"] = stats.get("twin_sessions", 0) + 1
        stats["twin_rejected_left_out"] = stats.get("twin_rejected_left_out", 0) + len(rejected)
        twin = Session(drv, random.Random(0), cfg, defender_tables, lambda *a: None, {}, "twin-b")
        twin.diverged = True          # real side only
        try:
            for k, (e, outs) in enumerate(per_event):
                if k in rejected:
                    continue
                ev = dict(e)
                if "raw_hex" in ev:
                    ev["raw_bytes"] = bytes.fromhex(ev["raw_hex"])
                twin.last_real_outs = None
                twin.do(ev)
                if _canon_outs(twin.last_real_outs) != _canon_outs(outs):
                    left = [per_event[r][0].get("bad_kind") or per_event[r][0]["m"]["k"] for r in rejected if r < k]
                    on_fail({"C09"}, f"twin:{e['t']}:{(e.get('m') or {}).get('k')}",
                            f"with the rejected messages {left} left out, event #{k} ({e['t']} {(e.get('m') or {}).get('k', '')} on connection {e['c']}) is answered differently: "
                            f"a rejected message changed what the coordinator does later",
                            {"kind": "coord-session", "config": cfg, "events": [x[0] for x in per_event], "rejected_indices": rejected, "first_difference_at": k})
                    break
        finally:
            twin.close()


def check_files(sess: Session, on_fail, stats):
    """C16: the trajectory files written by the real coordinator vs the model's abstract file log."""
    import glob
    import jsonlines
    files = sorted(glob.glob(os.path.join(sess.sim.workdir, "trajectories", "*.jsonl")))
    real = {}
    file_of, owners = {}, {}
    for f in files:
        with jsonlines.open(f) as rd:
            for rec in rd:
                # a record says whose episode it is; one file per (name, role), one (name, role) per file
                key = (rec.get("agent_name"), rec.get("agent_role"))
                real.setdefault(key, []).append(rec)
                file_of.setdefault(key, set()).add(f)
                owners.setdefault(f, set()).add(key)
    for key, fs in file_of.items():
        if len(fs) > 1:
            on_fail({"C16"}, "files-split", f"the episodes of {key[0][:40]!r}/{key[1]} are spread over several files {sorted(os.path.basename(x)[:60] for x in fs)}", sess.replay())
    import re as _re
    for key, fs in file_of.items():
        # "the trajectory file for that agent's name and role": for a name that needs no sanitising the file name carries both in full
        nm, rl = key
        if isinstance(nm, str) and isinstance(rl, str) and _re.fullmatch(r"[\w.-]{1,48}", nm):
            for f in fs:
                b = os.path.basename(f)
                if nm not in b or rl not in b:
                    on_fail({"C16"}, "files-name", f"the episodes of agent {nm!r} ({rl}) are stored in {b!r}, a file name that does not carry that name and role in full", sess.replay())
    for f, ks in owners.items():
        if len(ks) > 1:
            on_fail({"C16"}, "files-shared", f"trajectory file {os.path.basename(f)[:60]} holds episodes of different agents {sorted((k[0][:30], k[1]) for k in ks)}", sess.replay())
    m = sess.drv.ask({"op": "files"})["files"]
    model = {}
    for rec in m:
        model.setdefault((rec["name"], rec["role"]), []).append(rec)
    stats["file_records"] = stats.get("file_records", 0) + sum(len(v) for v in real.values())
    if {k: len(v) for k, v in real.items()} != {k: len(v) for k, v in model.items()}:
        on_fail({"C16"}, "files-count", f"trajectory file records per (name, role): real { {k: len(v) for k, v in real.items()} } vs model { {k: len(v) for k, v in model.items()} }", sess.replay())
        return
    for k in real:
        for rr, mm in zip(real[k], model[k]):
            tr = rr["trajectory"]
            if len(tr["actions"]) != len(mm["traj"]["steps"]) or [scaled(x) for x in tr["rewards"]] != [x["reward"] for x in mm["traj"]["steps"]] or len(tr["states"]) != len(tr["actions"]) + 1:
                on_fail({"C16"}, "files-content", f"trajectory file record of {k}: {len(tr['actions'])} actions rewards {tr['rewards']} vs model {[x['reward'] for x in mm['traj']['steps']]}", sess.replay())
                return


# -------------------------------------------------------------------------------- goal_check, directly
def check_goal_function(drv, rng, on_fail, stats, n):
    """C04: the real goal_check (coordinator.py) vs the model's goalCheck on random (goal, view) pairs."""
    sim = Sim(default_config())
    try:
        co = sim.coord
        addr = ("127.0.0.1", 49999)
        ips = [IP("192.168.1.%d" % i) for i in range(2, 6)] + [IP("213.47.23.195")]
        nets = [Network("192.168.1.0", 24), Network("192.168.2.0", 24), Network("10.0.0.0", 8)]
        svcs = [Service("ssh", "passive", "1", False), Service("bash", "passive", "5", True), Service("http", "passive", "2", False)]
        data = [Data("u", "a"), Data("u", "b", 3, "t"), Data("v", "a")]

        def sub(pool, pmax=3):
            return set(rng.sample(pool, rng.randint(0, min(pmax, len(pool)))))

        def dct(pool):
            d = {}
            for k in rng.sample(ips, rng.randint(0, 3)):
                d[k] = sub(pool, 2)
            return d
        reqs, cases = [], []
        for i in range(n):
            view = GameState(controlled_hosts=sub(ips), known_hosts=sub(ips, 5), known_services=dct(svcs), known_data=dct(data),
                             known_networks=sub(nets), known_blocks=dct(ips))
            if rng.random() < 0.6:
                # goal close to the view: a subset of it, possibly with one extra element
                goal = {"known_networks": set(rng.sample(sorted(view.known_networks, key=str), rng.randint(0, len(view.known_networks)))),
                        "known_hosts": set(rng.sample(sorted(view.known_hosts, key=str), rng.randint(0, len(view.known_hosts)))),
                        "controlled_hosts": set(rng.sample(sorted(view.controlled_hosts, key=str), rng.randint(0, len(view.controlled_hosts)))),
                        "known_services": {k: set(rng.sample(sorted(v, key=repr), rng.randint(0, len(v)))) for k, v in view.known_services.items() if rng.random() < 0.7},
                        "known_data": {k: set(rng.sample(sorted(v, key=repr), rng.randint(0, len(v)))) for k, v in view.known_data.items() if rng.random() < 0.7},
                        "known_blocks": {k: set(rng.sample(sorted(v, key=str), rng.randint(0, len(v)))) for k, v in view.known_blocks.items() if rng.random() < 0.7}}
                if rng.random() < 0.5:
                    part = rng.choice(list(goal))
                    if isinstance(goal[part], set):
                        goal[part].add(rng.choice({"known_networks": nets}.get(part, ips)))
                    else:
                        k = rng.choice(ips)
                        goal[part].setdefault(k, set()).add(rng.choice({"known_services": svcs, "known_data": data, "known_blocks": ips}[part]))
            else:
                goal = {"known_networks": sub(nets), "known_hosts": sub(ips), "controlled_hosts": sub(ips),
                        "known_services": dct(svcs), "known_data": dct(data), "known_blocks": dct(ips)}
            co._win_conditions_per_role["Attacker"] = goal
            co.agents[addr] = ("g", "Attacker")
            co._agent_states[addr] = view
            try:
                real = bool(co.goal_check(addr))
            except Exception as e:
                real = repr(e)
            cases.append((goal, view, real))
            reqs.append({"op": "goal", "goal": goal2j(goal), "view": C.view2j(view)})
        co.agents.pop(addr, None)
        co._agent_states.pop(addr, None)
        reps = drv.ask_many(reqs)
        for (goal, view, real), m in zip(cases, reps):
            stats["goal_cases"] = stats.get("goal_cases", 0) + 1
            if real is True:
                stats["goal_true"] = stats.get("goal_true", 0) + 1
            if real != m["goal"]:
                on_fail({"C04", "C05"}, f"goal_check:{real}|{m['goal']}", f"goal_check returned {real} but 'every goal component is contained in the view' is {m['goal']}",
                        {"kind": "goal", "goal": goal2j(goal), "view": C.view2j(view), "real": real, "model": m["goal"]})
    finally:
        sim.close()
