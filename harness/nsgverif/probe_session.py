"""Runs one fixed probe session against the real coordinator and prints a canonical transcript as
JSON (used by the C20 check in several interpreters with different PYTHONHASHSEED)."""
from __future__ import annotations

import json
import sys

from . import cyst_compat  # noqa: F401
from AIDojoCoordinator.game_components import Action, ActionType, AgentInfo, IP, Network, GameState
from .sim import Sim, default_config, parse_reply
from . import canon as C


def canon_reply(j):
    out = {"status": j.get("status")}
    ob = j.get("observation")
    if ob:
        st = GameState.from_dict(ob["state"])
        out["view"] = C.canon_view(C.view2j(st))
        out["reward"], out["end"], out["info"] = ob["reward"], ob["end"], ob.get("info")
    m = j.get("message")
    if isinstance(m, dict):
        out["message"] = {k: m[k] for k in ("max_steps", "goal_description", "configuration_hash") if k in m}
        if "last_trajectory" in m:
            lt = m["last_trajectory"]
            out["traj_rewards"] = lt["trajectory"]["rewards"]
            out["traj_actions"] = lt["trajectory"]["actions"]
            out["traj_states"] = [C.canon_view(C.view2j(GameState.from_dict(x))) for x in lt["trajectory"].get("states", [])]
            # everything else the record carries (names, roles, end reason, any further member) must be reproducible too
            out["traj_other"] = {k: v for k, v in lt.items() if k != "trajectory"}
            out["traj_other_members"] = {k: v for k, v in lt["trajectory"].items() if k not in ("rewards", "actions", "states")}
        other = {k: v for k, v in m.items() if k not in ("max_steps", "goal_description", "configuration_hash", "last_trajectory")}
        if other:
            out["message_other"] = other
    elif m is not None:
        out["message"] = m
    return out


def next_action(view: GameState, k: int):
    """deterministic policy over the canonical (sorted) content of the view"""
    ctrl = sorted(view.controlled_hosts, key=lambda x: C.ip2n(x))
    known = sorted(view.known_hosts, key=lambda x: C.ip2n(x))
    nets = sorted(view.known_networks, key=lambda n: (C.ip2n(n.ip), n.mask))
    src = ctrl[0]
    # runs and repeats on purpose: the global defender's thresholds are crossed, so detection rolls are drawn
    phase = [0, 0, 1, 1, 1, 3, 3, 4, 4, 5][k % 10]
    if phase == 0 and nets:
        return Action(ActionType.ScanNetwork, {"source_host": src, "target_network": nets[(k // 10) % len(nets)]})
    if phase == 1 and known:
        return Action(ActionType.FindServices, {"source_host": src, "target_host": known[(k // 10) % len(known)]})
    if phase == 3:
        ks = sorted(view.known_services, key=lambda x: C.ip2n(x))
        if ks:
            t = ks[(k // 10) % len(ks)]
            svcs = sorted(view.known_services[t], key=repr)
            if svcs:
                return Action(ActionType.ExploitService, {"source_host": src, "target_host": t, "target_service": svcs[0]})
    if phase == 4:
        return Action(ActionType.FindData, {"source_host": src, "target_host": ctrl[(k // 10) % len(ctrl)]})
    if phase == 5:
        for h in ctrl:
            ds = sorted(view.known_data.get(h, []), key=repr)
            if ds:
                return Action(ActionType.ExfiltrateData, {"source_host": h, "target_host": ctrl[0], "data": ds[0]})
        return Action(ActionType.BlockIP, {"source_host": src, "target_host": src, "blocked_host": known[-1]})
    return Action(ActionType.FindServices, {"source_host": src, "target_host": known[k % len(known)]})


def main():
    spec = json.loads(sys.argv[1])
    # "runs": n > 1 - the same session n times, one coordinator after the other in THIS interpreter; the transcript of the
    # last one is printed (a coordinator that is not the first of its process is a run of the coordinator like any other)
    for _ in range(int(spec.get("runs", 1))):
        transcript = session(spec)
    print(json.dumps(transcript, sort_keys=True))


def session(spec):
    cfg = default_config(env={"scenario": spec["scenario"], "use_dynamic_addresses": spec["dynamic"], "use_global_defender": spec["defender"],
                              "required_players": spec["players"], "use_firewall": True})
    cfg["coordinator"]["agents"]["Attacker"]["max_steps"] = spec["steps"]
    # a fixed host that is itself a start candidate, next to the wildcard
    fixed = "192.168.2.2" if spec["scenario"] == "scenario1_small" else "192.168.2.3"
    cfg["coordinator"]["agents"]["Attacker"]["start_position"]["controlled_hosts"] = ["213.47.23.195", fixed, "random"]
    cfg["coordinator"]["agents"]["Defender"]["start_position"]["controlled_hosts"] = ["all_local"] if not spec["dynamic"] else ["192.168.1.2"]
    cfg["coordinator"]["agents"]["Defender"]["goal"]["known_blocks"] = {"192.168.1.6": ["213.47.23.195"]}
    if spec.get("generic_start"):        # a scenario whose addresses this probe does not know: start wherever the scenario allows
        cfg["coordinator"]["agents"]["Attacker"]["start_position"]["controlled_hosts"] = ["random"]
        cfg["coordinator"]["agents"]["Attacker"]["goal"]["known_data"] = {}
        cfg["coordinator"]["agents"]["Defender"]["start_position"]["controlled_hosts"] = []
        cfg["coordinator"]["agents"]["Defender"]["goal"]["known_blocks"] = {}
    sim = Sim(cfg, seed=spec["seed"])
    transcript = [{"config_hash": sim.coord._CONFIG_FILE_HASH}]
    roles = ["Attacker", "Defender", "Attacker", "Attacker"][: spec["players"]]

    awaiting = set()

    def drain():
        for cid, kind, payload in sim.outputs():
            awaiting.discard(cid)
            if kind == "reply":
                ok, j = parse_reply(payload)
                transcript.append([cid, canon_reply(j) if ok else None])
            else:
                transcript.append([cid, kind])
    try:
        for cid, role in enumerate(roles):
            sim.connect(cid)
            sim.send(cid, Action(ActionType.JoinGame, {"agent_info": AgentInfo(f"p{cid}", role)}).to_json())
        drain()
        for ep in range(spec["episodes"]):
            for k in range(spec["steps"] + 3):
                for cid in range(len(roles)):
                    v = sim.coord._agent_states.get(("127.0.0.1", 40000 + cid))
                    if v is None or sim.conns[cid].task.done() or cid in awaiting:
                        continue
                    if sim.coord._episode_ends.get(("127.0.0.1", 40000 + cid)) and k < spec["steps"] + 2:
                        continue        # ended: one refused action at the very end only
                    awaiting.add(cid)
                    sim.send(cid, next_action(v, k + cid).to_json())
                    drain()
            for cid in range(len(roles)):
                if cid in awaiting or sim.conns[cid].task.done():
                    continue
                awaiting.add(cid)
                sim.send(cid, Action(ActionType.ResetGame, {"request_trajectory": ep % 2 == 0}).to_json())
            drain()
    finally:
        sim.close()
    return transcript


if __name__ == "__main__":
    main()
