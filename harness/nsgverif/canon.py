"""Conversions between the implementation's objects and the line-protocol JSON, and the canonical
form in which model and implementation outputs are compared (sets sorted and de-duplicated)."""
from __future__ import annotations

import ipaddress

from . import cyst_compat  # noqa: F401
from AIDojoCoordinator.game_components import IP, Network, Service, Data, GameState, Action, ActionType


_IPCACHE = {}


def ip2n(ip) -> int:
    s = ip.ip if isinstance(ip, IP) else str(ip)
    n = _IPCACHE.get(s)
    if n is None:
        try:
            n = int(ipaddress.IPv4Address(s))
        except ValueError:
            # an IPv6 literal is a different address from every IPv4 one, whatever its numeric value (the game compares the
            # text): numbered above the IPv4 range.  Only the canonical (compressed) spelling is ever generated.
            v6 = ipaddress.IPv6Address(s)
            if str(v6) != s:
                raise
            n = (1 << 32) + int(v6)
        _IPCACHE[s] = n
    return n


def n2ip(n: int) -> IP:
    if n >= (1 << 32):
        return IP(str(ipaddress.IPv6Address(n - (1 << 32))))
    return IP(str(ipaddress.IPv4Address(n)))


def net2j(net: Network):
    return [int(ipaddress.IPv4Address(str(net.ip))), int(net.mask)]


def j2net(j) -> Network:
    return Network(str(ipaddress.IPv4Address(j[0])), j[1])


def svc2j(s: Service):
    return [s.name, s.type, s.version, bool(s.is_local)]


def j2svc(j) -> Service:
    return Service(j[0], j[1], j[2], j[3])


def data2j(d: Data):
    return [d.owner, d.id, int(d.size), d.type]


def j2data(j) -> Data:
    return Data(j[0], j[1], j[2], j[3])


def _map(d, fk, fv):
    return [[fk(k), [fv(x) for x in vs]] for k, vs in d.items()]


def view2j(s: GameState):
    return {"controlled": [ip2n(x) for x in s.controlled_hosts], "known": [ip2n(x) for x in s.known_hosts],
            "services": _map(s.known_services, ip2n, svc2j), "data": _map(s.known_data, ip2n, data2j),
            "nets": [net2j(n) for n in s.known_networks], "blocks": _map(s.known_blocks, ip2n, ip2n)}


def j2view(j) -> GameState:
    return GameState(controlled_hosts={n2ip(x) for x in j["controlled"]}, known_hosts={n2ip(x) for x in j["known"]},
                     known_services={n2ip(k): {j2svc(x) for x in vs} for k, vs in j["services"]},
                     known_data={n2ip(k): {j2data(x) for x in vs} for k, vs in j["data"]},
                     known_networks={j2net(x) for x in j["nets"]},
                     known_blocks={n2ip(k): {n2ip(x) for x in vs} for k, vs in j["blocks"]})


def world2j(w):
    """All tables of an NSGCoordinator world."""
    return {"hostname": [[ip2n(k), v] for k, v in w._ip_to_hostname.items()],
            "nets": [[net2j(k), [ip2n(x) for x in v]] for k, v in w._networks.items()],
            "services": _map(w._services, str, svc2j), "data": _map(w._data, str, data2j),
            "fw": _map(w._firewall, ip2n, ip2n), "blocks": _map(w._fw_blocks, ip2n, ip2n),
            "dataOrig": _map(w._data_original, str, data2j), "fwOrig": _map(w._firewall_original, ip2n, ip2n)}


def worlddyn2j(w):
    return {"data": _map(w._data, str, data2j), "fw": _map(w._firewall, ip2n, ip2n), "blocks": _map(w._fw_blocks, ip2n, ip2n)}


def _t(x):
    return tuple(_t(y) for y in x) if isinstance(x, (list, tuple)) else x


def cset(l):
    return sorted({_t(x) for x in l}, key=repr)


def cmap(m):
    """association list (first binding live) -> sorted list of (key, sorted unique values)"""
    out = {}
    for k, vs in m:
        k = _t(k)
        if k not in out:
            out[k] = cset(vs)
    return sorted(out.items(), key=repr)


def canon_view(j):
    return {"controlled": cset(j["controlled"]), "known": cset(j["known"]), "services": cmap(j["services"]),
            "data": cmap(j["data"]), "nets": cset(j["nets"]), "blocks": cmap(j["blocks"])}


def canon_worlddyn(j):
    return {"data": cmap(j["data"]), "fw": cmap(j["fw"]), "blocks": cmap(j["blocks"])}


def diff_canon(a, b):
    """human-readable list of differing components"""
    out = []
    for k in a:
        if a[k] != b.get(k):
            out.append(k)
    return out


def action2j(a: Action):
    p = a.parameters
    t = a.type
    if t == ActionType.ScanNetwork:
        return {"t": "scan", "src": ip2n(p["source_host"]), "net": net2j(p["target_network"])}
    if t == ActionType.FindServices:
        return {"t": "findServices", "src": ip2n(p["source_host"]), "tgt": ip2n(p["target_host"])}
    if t == ActionType.FindData:
        return {"t": "findData", "src": ip2n(p["source_host"]), "tgt": ip2n(p["target_host"])}
    if t == ActionType.ExploitService:
        return {"t": "exploit", "src": ip2n(p["source_host"]), "tgt": ip2n(p["target_host"]), "svc": svc2j(p["target_service"])}
    if t == ActionType.ExfiltrateData:
        return {"t": "exfil", "src": ip2n(p["source_host"]), "tgt": ip2n(p["target_host"]), "data": data2j(p["data"])}
    if t == ActionType.BlockIP:
        return {"t": "block", "src": ip2n(p["source_host"]), "tgt": ip2n(p["target_host"]), "blocked": ip2n(p["blocked_host"])}
    raise ValueError(t)


def j2action(j) -> Action:
    t = j["t"]
    if t == "scan":
        return Action(ActionType.ScanNetwork, {"source_host": n2ip(j["src"]), "target_network": j2net(j["net"])})
    if t == "findServices":
        return Action(ActionType.FindServices, {"source_host": n2ip(j["src"]), "target_host": n2ip(j["tgt"])})
    if t == "findData":
        return Action(ActionType.FindData, {"source_host": n2ip(j["src"]), "target_host": n2ip(j["tgt"])})
    if t == "exploit":
        return Action(ActionType.ExploitService, {"source_host": n2ip(j["src"]), "target_host": n2ip(j["tgt"]), "target_service": j2svc(j["svc"])})
    if t == "exfil":
        return Action(ActionType.ExfiltrateData, {"source_host": n2ip(j["src"]), "target_host": n2ip(j["tgt"]), "data": j2data(j["data"])})
    if t == "block":
        return Action(ActionType.BlockIP, {"source_host": n2ip(j["src"]), "target_host": n2ip(j["tgt"]), "blocked_host": n2ip(j["blocked"])})
    raise ValueError(t)


# ---------------------------------------------------------------- re-labelling: tables of a world and their images
def tables(w):
    return {"hostname": {str(k): v for k, v in w._ip_to_hostname.items()},
            "nets": {str(k): sorted(str(x) for x in v) for k, v in w._networks.items()},
            "fw": {str(k): sorted(str(x) for x in v) for k, v in w._firewall.items()},
            "fw_orig": {str(k): sorted(str(x) for x in v) for k, v in w._firewall_original.items()},
            "services": {k: sorted(map(repr, v)) for k, v in w._services.items()},
            "data": {k: sorted(map(repr, v)) for k, v in w._data.items()},
            "start": sorted(str(x) for x in w.hosts_to_start), "blocks": {str(k): sorted(map(str, v)) for k, v in w._fw_blocks.items()}}


def push(t0, sig, tau):
    """initial tables pushed through the maps (sig: ip str -> ip str, tau: net str -> net str)"""
    return {"hostname": {sig[k]: v for k, v in t0["hostname"].items()},
            "nets": {tau[k]: sorted(sig[x] for x in v) for k, v in t0["nets"].items()},
            "fw": {sig[k]: sorted(sig[x] for x in v) for k, v in t0["fw"].items()},
            "fw_orig": {sig[k]: sorted(sig[x] for x in v) for k, v in t0["fw_orig"].items()},
            "services": t0["services"], "data": t0["data"], "start": sorted(sig[x] for x in t0["start"]), "blocks": {}}


