import Lean.Data.Json
import NSG.Model.Basic
import NSG.Model.World
import NSG.Model.Defender
/-!
Line-protocol driver: one JSON object per input line, one JSON object per output line.
Only executable model definitions are used here; nothing is defaulted - an unknown op or a
malformed field is answered with {"bad-op": ...}.
-/
open Lean NSG

abbrev R := Except String

def jnat (j : Json) : R Nat := j.getNat?
def jstr (j : Json) : R String := j.getStr?
def jbool (j : Json) : R Bool := j.getBool?
def jint (j : Json) : R Int := j.getInt?
def jarr (j : Json) : R (Array Json) := j.getArr?
def jfield (j : Json) (k : String) : R Json := j.getObjVal? k

def jlist {α} (f : Json → R α) (j : Json) : R (List α) := do
  let a ← jarr j
  a.toList.mapM f

def jpair {α β} (f : Json → R α) (g : Json → R β) (j : Json) : R (α × β) := do
  let a ← jarr j
  if a.size ≠ 2 then throw "pair expected" else
  return (← f a[0]!, ← g a[1]!)

def jnet (j : Json) : R Net := do
  let (a, m) ← jpair jnat jnat j
  return ⟨a, m⟩

def jservice (j : Json) : R Service := do
  let a ← jarr j
  if a.size ≠ 4 then throw "service expected" else
  return ⟨← jstr a[0]!, ← jstr a[1]!, ← jstr a[2]!, ← jbool a[3]!⟩

def jdata (j : Json) : R Data := do
  let a ← jarr j
  if a.size ≠ 4 then throw "data expected" else
  return ⟨← jstr a[0]!, ← jstr a[1]!, ← jint a[2]!, ← jstr a[3]!⟩

def jmap {κ ν} (f : Json → R κ) (g : Json → R ν) (j : Json) : R (AMap κ ν) := jlist (jpair f g) j

def jworld (j : Json) : R World := do
  return {
    hostname := ← jmap jnat jstr (← jfield j "hostname")
    nets := ← jmap jnet (jlist jnat) (← jfield j "nets")
    services := ← jmap jstr (jlist jservice) (← jfield j "services")
    data := ← jmap jstr (jlist jdata) (← jfield j "data")
    fw := ← jmap jnat (jlist jnat) (← jfield j "fw")
    blocks := ← jmap jnat (jlist jnat) (← jfield j "blocks")
    dataOrig := ← jmap jstr (jlist jdata) (← jfield j "dataOrig")
    fwOrig := ← jmap jnat (jlist jnat) (← jfield j "fwOrig") }

def jview (j : Json) : R View := do
  return {
    controlled := ← jlist jnat (← jfield j "controlled")
    known := ← jlist jnat (← jfield j "known")
    services := ← jmap jnat (jlist jservice) (← jfield j "services")
    data := ← jmap jnat (jlist jdata) (← jfield j "data")
    nets := ← jlist jnet (← jfield j "nets")
    blocks := ← jmap jnat (jlist jnat) (← jfield j "blocks") }

def jaction (j : Json) : R GAction := do
  let t ← jstr (← jfield j "t")
  match t with
  | "scan" => return .scan (← jnat (← jfield j "src")) (← jnet (← jfield j "net"))
  | "findServices" => return .findServices (← jnat (← jfield j "src")) (← jnat (← jfield j "tgt"))
  | "findData" => return .findData (← jnat (← jfield j "src")) (← jnat (← jfield j "tgt"))
  | "exploit" => return .exploit (← jnat (← jfield j "src")) (← jnat (← jfield j "tgt")) (← jservice (← jfield j "svc"))
  | "exfil" => return .exfil (← jnat (← jfield j "src")) (← jnat (← jfield j "tgt")) (← jdata (← jfield j "data"))
  | "block" => return .block (← jnat (← jfield j "src")) (← jnat (← jfield j "tgt")) (← jnat (← jfield j "blocked"))
  | _ => throw s!"unknown action {t}"

-- output ---------------------------------------------------------------------------------------
def onat (n : Nat) : Json := Json.num n
def olist {α} (f : α → Json) (l : List α) : Json := Json.arr (l.map f).toArray
def onet (n : Net) : Json := Json.arr #[onat n.addr, onat n.mask]
def oservice (s : Service) : Json := Json.arr #[s.name, s.typ, s.version, s.isLocal]
def odata (d : Data) : Json := Json.arr #[d.owner, d.id, Json.num (JsonNumber.fromInt d.size), d.typ]

/-- live bindings only: for each distinct key (first occurrence) its bound value -/
def liveKeys {κ ν} [DecidableEq κ] (m : AMap κ ν) : List κ := (akeys m).eraseDups

def omap {κ ν} [DecidableEq κ] (fk : κ → Json) (fv : ν → Json) (m : AMap κ (List ν)) : Json :=
  olist (fun k => Json.arr #[fk k, olist fv (agetD k m)]) (liveKeys m)

def oview (v : View) : Json := Json.mkObj [
  ("controlled", olist onat v.controlled), ("known", olist onat v.known),
  ("services", omap onat oservice v.services), ("data", omap onat odata v.data),
  ("nets", olist onet v.nets), ("blocks", omap onat onat v.blocks)]

def oworldDyn (w : World) : Json := Json.mkObj [
  ("data", omap (fun (s : String) => Json.str s) odata w.data), ("fw", omap onat onat w.fw), ("blocks", omap onat onat w.blocks)]

-- defender -------------------------------------------------------------------------------------
open NSG.Defender in
def jaty (j : Json) : R ATy := do
  match ← jstr j with
  | "ScanNetwork" => return .scanNetwork | "FindServices" => return .findServices
  | "FindData" => return .findData | "ExploitService" => return .exploitService
  | "ExfiltrateData" => return .exfiltrateData | "BlockIP" => return .blockIP
  | "JoinGame" => return .joinGame | "QuitGame" => return .quitGame | "ResetGame" => return .resetGame
  | s => throw s!"unknown action type {s}"

open NSG.Defender in
def jfrac (j : Json) : R Frac := do let (a, b) ← jpair jnat jnat j; return ⟨a, b⟩

open NSG.Defender in
def jtable {α} (f : Json → R α) (j : Json) : R (ATy → Option α) := do
  let l ← jlist (jpair jaty f) j
  return fun t => (l.find? (fun p => p.1 = t)).map (·.2)

open NSG.Defender in
def jtables (j : Json) : R Tables := do
  return { prob := ← jtable jfrac (← jfield j "prob"), ratio := ← jtable jfrac (← jfield j "ratio"),
           consec := ← jtable jnat (← jfield j "consec"), repeat_ := ← jtable jnat (← jfield j "repeat") }

open NSG.Defender in
def jact (j : Json) : R Act := do let (t, k) ← jpair jaty jnat j; return ⟨t, k⟩

-- state ----------------------------------------------------------------------------------------
structure DState where
  world : World := default
  tables : Option NSG.Defender.Tables := none

def handle (st : DState) (j : Json) : R (DState × Json) := do
  let op ← jstr (← jfield j "op")
  match op with
  | "world" =>
    let w ← jworld (← jfield j "world")
    return ({ st with world := w }, Json.mkObj [("ok", true)])
  | "step" =>
    let v ← jview (← jfield j "view")
    let a ← jaction (← jfield j "action")
    let p := pre st.world v a
    match step st.world v a with
    | none => return (st, Json.mkObj [("raised", true), ("pre", p), ("guards", olist (fun (b : Bool) => Json.bool b) (preGuards st.world v a))])
    | some (w', v') =>
      return ({ st with world := w' }, Json.mkObj [("raised", false), ("pre", p), ("guards", olist (fun (b : Bool) => Json.bool b) (preGuards st.world v a)), ("view", oview v'),
        ("world", oworldDyn w'), ("inv_before", invB st.world v), ("inv_after", invB w' v'), ("le", leB v v')])
  | "inv" =>
    let v ← jview (← jfield j "view")
    return (st, Json.mkObj [("inv", invB st.world v)])
  | "le" =>
    let v ← jview (← jfield j "a")
    let v' ← jview (← jfield j "b")
    return (st, Json.mkObj [("le", leB v v')])
  | "reset" =>
    let w' := st.world.reset
    return ({ st with world := w' }, Json.mkObj [("world", oworldDyn w')])
  | "getworld" => return (st, Json.mkObj [("world", oworldDyn st.world)])
  | "tables" =>
    let t ← jtables (← jfield j "tables")
    return ({ st with tables := some t }, Json.mkObj [("ok", true)])
  | "detect" =>
    match st.tables with
    | none => throw "no tables"
    | some T =>
      let tw ← jnat (← jfield j "tw")
      let hist ← jlist jact (← jfield j "hist")
      let a ← jact (← jfield j "act")
      let roll ← jfrac (← jfield j "roll")
      return (st, Json.mkObj [("detected", NSG.Defender.detect T tw hist a roll), ("trigger", NSG.Defender.trigger T tw hist a),
        ("monitored", NSG.Defender.monitored T a.ty), ("full", decide (tw ≤ hist.length + 1))])
  | _ => throw s!"unknown op {op}"

partial def loop (h : IO.FS.Stream) (out : IO.FS.Stream) (st : DState) : IO Unit := do
  let line ← h.getLine
  if line.isEmpty then return ()
  let (st', o) :=
    match Json.parse line >>= handle st with
    | .ok r => r
    | .error e => (st, Json.mkObj [("bad-op", e)])
  out.putStrLn o.compress
  out.flush
  loop h out st'

def main : IO Unit := do
  let out ← IO.getStdout
  loop (← IO.getStdin) out {}
  out.flush
