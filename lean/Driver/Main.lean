import Lean.Data.Json
import NSG.Model.Basic
import NSG.Model.World
import NSG.Model.Defender
import NSG.Model.Coord
import NSG.Model.Codec
import NSG.Model.Config
import NSG.Model.Scenario
import NSG.Model.Relabel
/-!
Line-protocol driver: one JSON object per input line, one JSON object per output line.
Only executable model definitions are used here; nothing is defaulted - an unknown op or a
malformed field is answered with {"bad-op": ...}.
-/
open Lean NSG

abbrev R := Except String

def jnat (j : Json) : R Nat := j.getNat?
def jstr (j : Json) : R String := j.getStr?
def jbool (j : Json) : R Bool := j.getBool?
def jint (j : Json) : R Int := j.getInt?
def jarr (j : Json) : R (Array Json) := j.getArr?
def jfield (j : Json) (k : String) : R Json := j.getObjVal? k

def jlist {α} (f : Json → R α) (j : Json) : R (List α) := do
  let a ← jarr j
  a.toList.mapM f

def jpair {α β} (f : Json → R α) (g : Json → R β) (j : Json) : R (α × β) := do
  let a ← jarr j
  if a.size ≠ 2 then throw "pair expected" else
  return (← f a[0]!, ← g a[1]!)

def jnet (j : Json) : R Net := do
  let (a, m) ← jpair jnat jnat j
  return ⟨a, m⟩

def jservice (j : Json) : R Service := do
  let a ← jarr j
  if a.size ≠ 4 then throw "service expected" else
  return ⟨← jstr a[0]!, ← jstr a[1]!, ← jstr a[2]!, ← jbool a[3]!⟩

def jdata (j : Json) : R Data := do
  let a ← jarr j
  if a.size ≠ 4 then throw "data expected" else
  return ⟨← jstr a[0]!, ← jstr a[1]!, ← jint a[2]!, ← jstr a[3]!⟩

def jmap {κ ν} (f : Json → R κ) (g : Json → R ν) (j : Json) : R (AMap κ ν) := jlist (jpair f g) j

def jworld (j : Json) : R World := do
  return {
    hostname := ← jmap jnat jstr (← jfield j "hostname")
    nets := ← jmap jnet (jlist jnat) (← jfield j "nets")
    services := ← jmap jstr (jlist jservice) (← jfield j "services")
    data := ← jmap jstr (jlist jdata) (← jfield j "data")
    fw := ← jmap jnat (jlist jnat) (← jfield j "fw")
    blocks := ← jmap jnat (jlist jnat) (← jfield j "blocks")
    dataOrig := ← jmap jstr (jlist jdata) (← jfield j "dataOrig")
    fwOrig := ← jmap jnat (jlist jnat) (← jfield j "fwOrig") }

def jview (j : Json) : R View := do
  return {
    controlled := ← jlist jnat (← jfield j "controlled")
    known := ← jlist jnat (← jfield j "known")
    services := ← jmap jnat (jlist jservice) (← jfield j "services")
    data := ← jmap jnat (jlist jdata) (← jfield j "data")
    nets := ← jlist jnet (← jfield j "nets")
    blocks := ← jmap jnat (jlist jnat) (← jfield j "blocks") }

def jaction (j : Json) : R GAction := do
  let t ← jstr (← jfield j "t")
  match t with
  | "scan" => return .scan (← jnat (← jfield j "src")) (← jnet (← jfield j "net"))
  | "findServices" => return .findServices (← jnat (← jfield j "src")) (← jnat (← jfield j "tgt"))
  | "findData" => return .findData (← jnat (← jfield j "src")) (← jnat (← jfield j "tgt"))
  | "exploit" => return .exploit (← jnat (← jfield j "src")) (← jnat (← jfield j "tgt")) (← jservice (← jfield j "svc"))
  | "exfil" => return .exfil (← jnat (← jfield j "src")) (← jnat (← jfield j "tgt")) (← jdata (← jfield j "data"))
  | "block" => return .block (← jnat (← jfield j "src")) (← jnat (← jfield j "tgt")) (← jnat (← jfield j "blocked"))
  | _ => throw s!"unknown action {t}"

-- output ---------------------------------------------------------------------------------------
def onat (n : Nat) : Json := Json.num n
def olist {α} (f : α → Json) (l : List α) : Json := Json.arr (l.map f).toArray
def onet (n : Net) : Json := Json.arr #[onat n.addr, onat n.mask]
def oservice (s : Service) : Json := Json.arr #[s.name, s.typ, s.version, s.isLocal]
def odata (d : Data) : Json := Json.arr #[d.owner, d.id, Json.num (JsonNumber.fromInt d.size), d.typ]

/-- live bindings only: for each distinct key (first occurrence) its bound value -/
def liveKeys {κ ν} [DecidableEq κ] (m : AMap κ ν) : List κ := (akeys m).eraseDups

def omap {κ ν} [DecidableEq κ] (fk : κ → Json) (fv : ν → Json) (m : AMap κ (List ν)) : Json :=
  olist (fun k => Json.arr #[fk k, olist fv (agetD k m)]) (liveKeys m)

def oview (v : View) : Json := Json.mkObj [
  ("controlled", olist onat v.controlled), ("known", olist onat v.known),
  ("services", omap onat oservice v.services), ("data", omap onat odata v.data),
  ("nets", olist onet v.nets), ("blocks", omap onat onat v.blocks)]

def oworldDyn (w : World) : Json := Json.mkObj [
  ("data", omap (fun (s : String) => Json.str s) odata w.data), ("fw", omap onat onat w.fw), ("blocks", omap onat onat w.blocks)]

-- defender -------------------------------------------------------------------------------------
open NSG.Defender in
def jaty (j : Json) : R ATy := do
  match ← jstr j with
  | "ScanNetwork" => return .scanNetwork | "FindServices" => return .findServices
  | "FindData" => return .findData | "ExploitService" => return .exploitService
  | "ExfiltrateData" => return .exfiltrateData | "BlockIP" => return .blockIP
  | "JoinGame" => return .joinGame | "QuitGame" => return .quitGame | "ResetGame" => return .resetGame
  | s => throw s!"unknown action type {s}"

open NSG.Defender in
def jfrac (j : Json) : R Frac := do let (a, b) ← jpair jnat jnat j; return ⟨a, b⟩

open NSG.Defender in
def jtable {α} (f : Json → R α) (j : Json) : R (ATy → Option α) := do
  let l ← jlist (jpair jaty f) j
  return fun t => (l.find? (fun p => p.1 = t)).map (·.2)

open NSG.Defender in
def jtables (j : Json) : R Tables := do
  return { prob := ← jtable jfrac (← jfield j "prob"), ratio := ← jtable jfrac (← jfield j "ratio"),
           consec := ← jtable jnat (← jfield j "consec"), repeat_ := ← jtable jnat (← jfield j "repeat") }

open NSG.Defender in
def jact (j : Json) : R Act := do let (t, k) ← jpair jaty jnat j; return ⟨t, k⟩

-- coordinator ----------------------------------------------------------------------------------
open NSG.Coord in
def jrole (j : Json) : R Role := do
  match ← jstr j with
  | "Attacker" => return .attacker | "Defender" => return .defender | "Benign" => return .benign
  | s => throw s!"unknown role {s}"

def orole : NSG.Coord.Role → Json
  | .attacker => "Attacker" | .defender => "Defender" | .benign => "Benign"

def ostatus : NSG.Coord.Status → Json
  | .playing => "Playing" | .playingWithTimeout => "PlayingWithTimeout" | .timeoutReached => "TimeoutReached"
  | .success => "Success" | .fail => "Fail"

def ocode : NSG.Coord.Code → Json
  | .ok => "OK" | .created => "CREATED" | .resetDone => "RESET_DONE" | .badRequest => "BAD_REQUEST" | .forbidden => "FORBIDDEN"

def oint (i : Int) : Json := Json.num (JsonNumber.fromInt i)
def oopt {α} (f : α → Json) : Option α → Json
  | none => Json.null
  | some x => f x

def jopt {α} (f : Json → R α) (j : Json) : R (Option α) := if j.isNull then return none else return some (← f j)

open NSG.Coord in
def jgoal (j : Json) : R Goal := do
  return { nets := ← jlist jnet (← jfield j "nets"), known := ← jlist jnat (← jfield j "known"),
           controlled := ← jlist jnat (← jfield j "controlled"),
           services := ← jmap jnat (jlist jservice) (← jfield j "services"),
           data := ← jmap jnat (jlist jdata) (← jfield j "data"),
           blocks := ← jmap jnat (jlist jnat) (← jfield j "blocks") }

open NSG.Coord in
def jsettings (tables : Option NSG.Defender.Tables) (j : Json) : R Settings := do
  let ms ← jfield j "maxSteps"
  let ga ← jgoal (← jfield (← jfield j "goal") "Attacker")
  let gd ← jgoal (← jfield (← jfield j "goal") "Defender")
  let gb ← jgoal (← jfield (← jfield j "goal") "Benign")
  let ma ← jopt jnat (← jfield ms "Attacker")
  let md ← jopt jnat (← jfield ms "Defender")
  let mb ← jopt jnat (← jfield ms "Benign")
  let useDef ← jbool (← jfield j "defender")
  if useDef && tables.isNone then throw "defender requested but no tables loaded"
  return { required := ← jnat (← jfield j "required"),
           maxSteps := fun r => match r with | .attacker => ma | .defender => md | .benign => mb,
           rStep := ← jint (← jfield j "rStep"), rSuccess := ← jint (← jfield j "rSuccess"), rFail := ← jint (← jfield j "rFail"),
           goal := fun r => match r with | .attacker => ga | .defender => gd | .benign => gb,
           defender := if useDef then tables else none, tw := ← jnat (← jfield j "tw"),
           storeTraj := ← jbool (← jfield j "storeTraj") }

open NSG.Coord in
def joracle (j : Json) : R Oracle := do
  let sv ← jopt jview (← jfield j "stepView")
  let iv ← jopt jview (← jfield j "initView")
  let rv ← jmap jnat jview (← jfield j "resetView")
  let roll ← jfrac (← jfield j "roll")
  return { stepView := sv, initView := iv.getD default, resetView := fun c => (alookup c rv).getD default, roll := roll }

open NSG.Coord in
def jmsg (j : Json) : R Msg := do
  match ← jstr (← jfield j "k") with
  | "bad" => return .bad
  | "join" => return .join (← jstr (← jfield j "name")) (← jopt jrole (← jfield j "role"))
  | "quit" => return .quit
  | "reset" => return .reset (← jbool (← jfield j "traj"))
  | "game" => return .game (← jact (← jfield j "act"))
  | k => throw s!"unknown msg kind {k}"

open NSG.Coord in
def jev (j : Json) : R Ev := do
  let c ← jnat (← jfield j "c")
  match ← jstr (← jfield j "t") with
  | "connect" => return .connect c
  | "msg" => return .msg c (← jmsg (← jfield j "m")) (← joracle (← jfield j "o"))
  | "leave" => return .leave c (← joracle (← jfield j "o"))
  | "arm" => return .armWriteFault c
  | t => throw s!"unknown event {t}"

def oact (a : NSG.Defender.Act) : Json := Json.arr #[Json.str (match a.ty with
  | .scanNetwork => "ScanNetwork" | .findServices => "FindServices" | .findData => "FindData"
  | .exploitService => "ExploitService" | .exfiltrateData => "ExfiltrateData" | .blockIP => "BlockIP"
  | .joinGame => "JoinGame" | .quitGame => "QuitGame" | .resetGame => "ResetGame"), onat a.key]

def oobs (o : NSG.Coord.Obs) : Json := Json.mkObj [("view", oview o.view), ("reward", oint o.reward), ("end", o.ended), ("reason", oopt ostatus o.reason)]

def otstep (t : NSG.Coord.TStep) : Json := Json.mkObj [("act", oact t.act), ("reward", oint t.reward), ("view", oview t.view)]

def otraj (t : View × List NSG.Coord.TStep) : Json := Json.mkObj [("init", oview t.1), ("steps", olist otstep t.2)]

def oreply (r : NSG.Coord.Reply) : List (String × Json) :=
  [("code", ocode r.code), ("obs", oopt oobs r.obs), ("maxSteps", oopt (oopt onat) r.maxSteps), ("hasMaxSteps", r.maxSteps.isSome), ("traj", oopt otraj r.traj)]

def oout : NSG.Coord.Out → Json
  | .reply c r => Json.mkObj ([("k", Json.str "reply"), ("c", onat c)] ++ oreply r)
  | .lost c r => Json.mkObj ([("k", Json.str "lost"), ("c", onat c)] ++ oreply r)
  | .closed c => Json.mkObj [("k", "closed"), ("c", onat c)]
  | .refused c => Json.mkObj [("k", "refused"), ("c", onat c)]

def ophase : NSG.Coord.Phase → Json
  | .absent => "absent" | .reading => "reading" | .dead => "dead" | .closed => "closed"
  | .parked .joinStart => "parked:joinStart" | .parked (.gameEnd _) => "parked:gameEnd"
  | .parked (.resetWait _) => "parked:resetWait" | .parked (.resetStart _) => "parked:resetStart"

def oagent (a : NSG.Coord.Agent) : Json := Json.mkObj [
  ("name", a.name), ("role", orole a.role), ("view", oview a.view), ("steps", onat a.steps), ("status", ostatus a.status),
  ("ended", a.ended), ("resetReq", a.resetReq), ("reward", oint a.reward), ("paid", a.paid), ("obs", oobs a.obs),
  ("trajInit", oview a.trajInit), ("traj", olist otstep a.traj)]

def ocoord (s : NSG.Coord.St) (seen : List Nat) : Json := Json.mkObj [
  ("slots", onat s.slots), ("ids", olist onat s.ids), ("startEv", s.startEv), ("files", onat s.files.length),
  ("conns", olist (fun c => Json.arr #[onat c, ophase (s.conn c)]) seen),
  ("agents", olist (fun c => Json.arr #[onat c, oagent (s.agent c)]) s.ids)]

-- codec ----------------------------------------------------------------------------------------
open NSG.Codec in
partial def toJ (j : Json) : R J :=
  match j with
  | .null => return .null
  | .bool b => return .bool b
  | .num n => if n.exponent = 0 then return .num n.mantissa else throw "non-integer number"
  | .str s => return .str s
  | .arr a => do return .arr (← a.toList.mapM toJ)
  | .obj o => do return .obj (← (o.toList.map (fun p => (p.1, p.2))).mapM (fun p => do return (p.1, ← toJ p.2)))

open NSG.Codec in
partial def ofJ : J → Json
  | .null => Json.null
  | .bool b => Json.bool b
  | .num n => Json.num (JsonNumber.fromInt n)
  | .str s => Json.str s
  | .arr l => Json.arr (l.map ofJ).toArray
  | .obj l => Json.mkObj (l.map (fun p => (p.1, ofJ p.2)))

open NSG.Codec in
def jval (j : Json) : R Val := do
  let ips ← jlist jstr (← jfield j "valid_ips")
  let nets ← jlist (jpair jstr jint) (← jfield j "valid_nets")
  return { ip := fun s => ips.contains s, net := fun a m => nets.contains (a, m) }

-- configuration --------------------------------------------------------------------------------
open NSG.Config in
partial def toY (j : Json) : R Y :=
  match j with
  | .null => return .null
  | .bool b => return .bool b
  | .num n => if n.exponent = 0 then return .int n.mantissa else throw "non-integer number"
  | .str s => return .str s
  | .arr a => do return .list (← a.toList.mapM toY)
  | .obj o => do return .map (← (o.toList.map (fun p => (p.1, p.2))).mapM (fun p => do return (p.1, ← toY p.2)))

def jsnet (j : Json) : R (String × Int) := jpair jstr jint j

open NSG.Config in
def jcval (j : Json) : R NSG.Config.Val := do
  let ips ← jlist jstr (← jfield j "valid_ips")
  let nets ← jlist (jpair jstr jsnet) (← jfield j "valid_nets")
  return { ip := fun s => ips.contains s, net := fun s => (nets.map (·.1)).contains s,
           split := fun s => (nets.find? (fun p => p.1 = s)).map (·.2) }

open NSG.Config in
def jworldinfo (j : Json) : R WorldInfo := do
  let sh ← jlist jstr (← jfield j "startHosts")
  let lh ← jlist jstr (← jfield j "localHosts")
  let no ← jlist (jpair jstr (jlist jsnet)) (← jfield j "netsOf")
  let pr ← jlist jsnet (← jfield j "private")
  let nb ← jlist (jpair jsnet (jlist jsnet)) (← jfield j "neighbours")
  return { startHosts := sh, localHosts := lh,
           netsOf := fun h => ((no.find? (fun p => p.1 = h)).map (·.2)).getD [],
           isPrivate := fun n => pr.contains n,
           neighbours := fun n => ((nb.find? (fun p => p.1 = n)).map (·.2)).getD [] }

def osnet (n : String × Int) : Json := Json.arr #[Json.str n.1, oint n.2]

def ohostitem : NSG.Config.HostItem → Json
  | .ip a => Json.str a
  | .random => Json.str "random"
  | .allLocal => Json.str "all_local"

def osection (s : NSG.Config.Section) : Json := Json.mkObj [
  ("nets", olist osnet s.nets), ("known", olist ohostitem s.known), ("controlled", olist ohostitem s.controlled),
  ("data", olist (fun (p : String × List (String × String)) => Json.arr #[Json.str p.1, olist (fun (d : String × String) => Json.arr #[Json.str d.1, Json.str d.2]) p.2]) s.data)]

def osettings (s : NSG.Config.Settings) : Json := Json.mkObj [
  ("maxStepsAttacker", oopt oint s.maxStepsAttacker), ("maxStepsDefender", oopt oint s.maxStepsDefender),
  ("rStep", oint s.rStep), ("rSuccess", oint s.rSuccess), ("rFail", oint s.rFail), ("required", oint s.required),
  ("firewall", s.firewall), ("dynamic", s.dynamic), ("defender", s.defender), ("saveTraj", s.saveTraj)]

def oiview (v : NSG.Config.IView) : Json := Json.mkObj [
  ("nets", olist osnet v.nets), ("known", olist (fun (s : String) => Json.str s) v.known),
  ("controlled", olist (fun (s : String) => Json.str s) v.controlled),
  ("data", olist (fun (p : String × List (String × String)) => Json.arr #[Json.str p.1, olist (fun (d : String × String) => Json.arr #[Json.str d.1, Json.str d.2]) p.2]) v.data)]

-- scenario loader --------------------------------------------------------------------------------
def jiface (j : Json) : R SIface := do return { ip := ← jnat (← jfield j "ip"), net := ← jnet (← jfield j "net") }

def jsservice (j : Json) : R SService := do
  return { name := ← jstr (← jfield j "name"), version := ← jstr (← jfield j "version"), isLocal := ← jbool (← jfield j "local"),
           data := ← jlist (jpair jstr jstr) (← jfield j "data") }

def jsnode (j : Json) : R SNode := do
  return { id := ← jstr (← jfield j "id"), ifaces := ← jlist jiface (← jfield j "ifaces"), services := ← jlist jsservice (← jfield j "services") }

def jsrule (j : Json) : R SRule := do
  return { src := ← jnet (← jfield j "src"), dst := ← jnet (← jfield j "dst"), allow := ← jbool (← jfield j "allow") }

def jsrouter (j : Json) : R SRouter := do
  return { id := ← jstr (← jfield j "id"), isInternet := ← jbool (← jfield j "internet"), ifaces := ← jlist jiface (← jfield j "ifaces"),
           rules := ← jlist jsrule (← jfield j "rules") }

def jscenario (j : Json) : R Scenario := do
  return { nodes := ← jlist jsnode (← jfield j "nodes"), routers := ← jlist jsrouter (← jfield j "routers") }

def oworldFull (w : World) : Json := Json.mkObj [
  ("hostname", olist (fun k => Json.arr #[onat k, Json.str ((alookup k w.hostname).getD "")]) (liveKeys w.hostname)),
  ("nets", omap onet onat w.nets), ("services", omap (fun (s : String) => Json.str s) oservice w.services),
  ("data", omap (fun (s : String) => Json.str s) odata w.data), ("fw", omap onat onat w.fw), ("blocks", omap onat onat w.blocks)]

-- state ----------------------------------------------------------------------------------------
structure DState where
  world : World := default
  tables : Option NSG.Defender.Tables := none
  settings : Option NSG.Coord.Settings := none
  cst : NSG.Coord.St := NSG.Coord.init
  saved : NSG.Coord.St := NSG.Coord.init
  seen : List Nat := []

def handle (st : DState) (j : Json) : R (DState × Json) := do
  let op ← jstr (← jfield j "op")
  match op with
  | "world" =>
    let w ← jworld (← jfield j "world")
    return ({ st with world := w }, Json.mkObj [("ok", true)])
  | "step" =>
    let v ← jview (← jfield j "view")
    let a ← jaction (← jfield j "action")
    let p := pre st.world v a
    match step st.world v a with
    | none => return (st, Json.mkObj [("raised", true), ("pre", p), ("guards", olist (fun (b : Bool) => Json.bool b) (preGuards st.world v a))])
    | some (w', v') =>
      return ({ st with world := w' }, Json.mkObj [("raised", false), ("pre", p), ("guards", olist (fun (b : Bool) => Json.bool b) (preGuards st.world v a)), ("view", oview v'),
        ("world", oworldDyn w'), ("inv_before", invB st.world v), ("inv_after", invB w' v'), ("le", leB v v')])
  | "inv" =>
    let v ← jview (← jfield j "view")
    return (st, Json.mkObj [("inv", invB st.world v)])
  | "le" =>
    let v ← jview (← jfield j "a")
    let v' ← jview (← jfield j "b")
    return (st, Json.mkObj [("le", leB v v')])
  | "reset" =>
    let w' := st.world.reset
    return ({ st with world := w' }, Json.mkObj [("world", oworldDyn w')])
  | "getworld" => return (st, Json.mkObj [("world", oworldDyn st.world)])
  | "tables" =>
    let t ← jtables (← jfield j "tables")
    return ({ st with tables := some t }, Json.mkObj [("ok", true)])
  | "detect" =>
    match st.tables with
    | none => throw "no tables"
    | some T =>
      let tw ← jnat (← jfield j "tw")
      let hist ← jlist jact (← jfield j "hist")
      let a ← jact (← jfield j "act")
      let roll ← jfrac (← jfield j "roll")
      return (st, Json.mkObj [("detected", NSG.Defender.detect T tw hist a roll), ("trigger", NSG.Defender.trigger T tw hist a),
        ("monitored", NSG.Defender.monitored T a.ty), ("full", decide (tw ≤ hist.length + 1))])
  | "coord_init" =>
    let S ← jsettings st.tables (← jfield j "settings")
    return ({ st with settings := some S, cst := NSG.Coord.init, seen := [] }, Json.mkObj [("ok", true)])
  | "coord_settings" =>
    -- the settings change between two events (a re-labelling changed the goals); the state is kept
    let S ← jsettings st.tables (← jfield j "settings")
    return ({ st with settings := some S }, Json.mkObj [("ok", true)])
  | "ev" =>
    match st.settings with
    | none => throw "no settings"
    | some S =>
      let e ← jev (← jfield j "ev")
      let c ← jnat (← jfield (← jfield j "ev") "c")
      let (s', outs) := NSG.Coord.deliver S st.cst e
      let seen := if c ∈ st.seen then st.seen else st.seen ++ [c]
      let full := (← jbool (← jfield j "full"))
      return ({ st with cst := s', seen := seen }, Json.mkObj [("out", olist oout outs),
        ("state", if full then ocoord s' seen else Json.null)])
  | "decode" =>
    let V ← jval j
    let x ← toJ (← jfield j "j")
    match NSG.Codec.decode V x with
    | none => return (st, Json.mkObj [("ok", false)])
    | some a => return (st, Json.mkObj [("ok", true), ("action", ofJ (NSG.Codec.encode a)),
        ("keys", olist (fun (p : NSG.Codec.PKey × NSG.Codec.PVal) => Json.str p.1.name) a.params)])
  | "acteq" =>
    let V ← jval j
    let a ← toJ (← jfield j "a")
    let b ← toJ (← jfield j "b")
    match NSG.Codec.decode V a, NSG.Codec.decode V b with
    | some x, some y => return (st, Json.mkObj [("ok", true), ("eq", decide (NSG.Codec.actionEq x y)),
        ("hasheq", decide (NSG.Codec.hashA id x = NSG.Codec.hashA id y))])
    | _, _ => return (st, Json.mkObj [("ok", false)])
  | "viewrt" =>
    let x ← toJ (← jfield j "j")
    match NSG.Codec.viewFromDict x with
    | none => return (st, Json.mkObj [("ok", false)])
    | some v => return (st, Json.mkObj [("ok", true), ("j", ofJ (NSG.Codec.viewAsDict v))])
  | "obsrt" =>
    let x ← toJ (← jfield j "j")
    match NSG.Codec.obsFromDict x with
    | none => return (st, Json.mkObj [("ok", false)])
    | some o => return (st, Json.mkObj [("ok", true), ("j", ofJ (NSG.Codec.obsAsDict o))])
  | "config" =>
    let V ← jcval j
    let cfg ← toY (← jfield j "cfg")
    let sec := fun (role kind : String) => osection (NSG.Config.readSection V cfg role kind)
    return (st, Json.mkObj [("settings", osettings (NSG.Config.readSettings cfg)),
      ("Attacker", Json.mkObj [("goal", sec "Attacker" "goal"), ("start_position", sec "Attacker" "start_position")]),
      ("Defender", Json.mkObj [("goal", sec "Defender" "goal"), ("start_position", sec "Defender" "start_position")])])
  | "initview" =>
    let V ← jcval j
    let cfg ← toY (← jfield j "cfg")
    let W ← jworldinfo (← jfield j "world")
    let role ← jstr (← jfield j "role")
    let picks ← jlist jstr (← jfield j "picks")
    return (st, Json.mkObj [("view", oiview (NSG.Config.initialView W (NSG.Config.readSection V cfg role "start_position") picks))])
  | "load" =>
    let sc ← jscenario (← jfield j "scenario")
    let fw ← jbool (← jfield j "use_firewall")
    return (st, Json.mkObj [("world", oworldFull (load sc fw))])
  | "goal" =>
    let g ← jgoal (← jfield j "goal")
    let v ← jview (← jfield j "view")
    return (st, Json.mkObj [("goal", NSG.Coord.goalCheck g v)])
  | "relabel_private" =>
    -- the generator of the re-labelling, private networks (sorted ascending), for the drawn value d
    let d ← jnat (← jfield j "d")
    let nets ← jlist jnet (← jfield j "nets")
    return (st, Json.mkObj [("nets", olist onet (NSG.relabelPrivate d nets))])
  | "relabel_loop" =>
    -- the whole retry loop over the values drawn one after the other
    let ds ← jlist jnat (← jfield j "draws")
    let nets ← jlist jnet (← jfield j "nets")
    -- the networks come in the order of the game's table; the generator sorts them itself (sortNets)
    let sorted := NSG.sortNets nets
    return (st, Json.mkObj [("map", olist (fun (p : Net × Net) => Json.arr #[onet p.1, onet p.2]) (sorted.zip (NSG.relabelLoop ds 0 sorted)))])
  | "draw_ips" =>
    -- host addresses: every network's hosts paired with the first entries of its shuffled address list
    let parts ← jlist (fun p => do
      let a ← jarr p
      if a.size != 2 then throw "part"
      return ((← jlist jnat a[0]!), (← jlist jnat a[1]!))) (← jfield j "parts")
    return (st, Json.mkObj [("map", olist (fun (kv : Nat × Nat) => Json.arr #[onat kv.1, onat kv.2]) (NSG.drawIPs parts))])
  | "snapshot" => return ({ st with saved := st.cst }, Json.mkObj [("ok", true)])
  | "restore" => return ({ st with cst := st.saved }, Json.mkObj [("ok", true)])
  | "files" =>
    return (st, Json.mkObj [("files", olist (fun (f : String × NSG.Coord.Role × View × List NSG.Coord.TStep) =>
      Json.mkObj [("name", f.1), ("role", orole f.2.1), ("traj", otraj f.2.2)]) st.cst.files)])
  | _ => throw s!"unknown op {op}"

partial def loop (h : IO.FS.Stream) (out : IO.FS.Stream) (st : DState) : IO Unit := do
  let line ← h.getLine
  if line.isEmpty then return ()
  let (st', o) :=
    match Json.parse line >>= handle st with
    | .ok r => r
    | .error e => (st, Json.mkObj [("bad-op", e)])
  out.putStrLn o.compress
  out.flush
  loop h out st'

def main : IO Unit := do
  let out ← IO.getStdout
  loop (← IO.getStdin) out {}
  out.flush
