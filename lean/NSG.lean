import NSG.Model.Basic
import NSG.Model.Defender
import NSG.Model.World
import NSG.Properties.C17
