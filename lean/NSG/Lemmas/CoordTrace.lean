import NSG.Model.Coord
/-!
How one delivery can change the record of an agent: every change is a composition of the
*background micro-steps* `BStep` (reward assignment, recording a released step, reset, trajectory
restart) - plus, for the sender only, its own request (`resetReq := true`, an executed action, a
fresh record on join) and, for a leaver, deletion.  Invariants of single agent records are proved
once over `BStep` and hold along every history.
-/
namespace NSG.Coord
open NSG NSG.Defender

/-- micro-steps the background tasks / releases apply to an agent record -/
inductive BStep (S : Settings) : Agent → Agent → Prop
  | refl (a) : BStep S a a
  | pay (a sa) : BStep S a (payOne S sa a)
  | record (a act) : BStep S a (recordStep act a)
  | reset (a v) : a.resetReq = true → BStep S a (resetOne v a)
  | restart (a) : BStep S a (restartTraj a)
  | trans {a b c} : BStep S a b → BStep S b c → BStep S a c

/-- `y` is obtained from `x` by background micro-steps (entries are never created) -/
def ORel (S : Settings) (x y : Option Agent) : Prop := ∀ a', y = some a' → ∃ a, x = some a ∧ BStep S a a'

theorem ORel.refl (S : Settings) (x : Option Agent) : ORel S x x := fun a' h => ⟨a', h, .refl a'⟩

theorem ORel.trans {S : Settings} {x y z : Option Agent} (h1 : ORel S x y) (h2 : ORel S y z) : ORel S x z := by
  intro a' hz
  obtain ⟨b, hb, hbz⟩ := h2 a' hz
  obtain ⟨a, ha, hab⟩ := h1 b hb
  exact ⟨a, ha, .trans hab hbz⟩

theorem ORel.map {S : Settings} (x : Option Agent) (f : Agent → Agent) (hf : ∀ a, x = some a → BStep S a (f a)) :
    ORel S x (x.map f) := by
  intro a' h
  cases x with
  | none => simp at h
  | some a => simp at h; exact ⟨a, rfl, h ▸ hf a rfl⟩

/-- a state transformer that only applies background micro-steps -/
def Bg (S : Settings) (s s' : St) : Prop := ∀ d, ORel S (s.agents d) (s'.agents d)

theorem Bg.refl (S : Settings) (s : St) : Bg S s s := fun d => ORel.refl S _
theorem Bg.trans {S : Settings} {s1 s2 s3 : St} (h1 : Bg S s1 s2) (h2 : Bg S s2 s3) : Bg S s1 s3 :=
  fun d => ORel.trans (h1 d) (h2 d)
theorem Bg.of_agents_eq {S : Settings} {s s' : St} (h : s'.agents = s.agents) : Bg S s s' := by
  intro d; rw [h]; exact ORel.refl S _

theorem bg_setConn (S : Settings) (s : St) (c : Nat) (p : Phase) : Bg S s (s.setConn c p) := Bg.of_agents_eq rfl

theorem bg_emit (S : Settings) (s : St) (c : Nat) (r : Reply) : Bg S s (emit s c r).1 := by
  unfold emit; split <;> exact bg_setConn S s c _

theorem bg_updAgent (S : Settings) (s : St) (c : Nat) (f : Agent → Agent) (hf : ∀ a, s.agents c = some a → BStep S a (f a)) :
    Bg S s (s.updAgent c f) := by
  intro d
  simp only [St.updAgent]
  by_cases h : d = c
  · subst h; simp only [if_true]; exact ORel.map _ f hf
  · simp only [h, if_false]; exact ORel.refl S _

theorem bg_finishGame (S : Settings) (s : St) (c : Nat) (a : Act) : Bg S s (finishGame s c a).1 :=
  (bg_updAgent S s c (recordStep a) (fun ag _ => .record ag a)).trans (bg_emit S _ c _)

theorem bg_finishReset (S : Settings) (s : St) (c : Nat) (t : Bool) : Bg S s (finishReset S s c t).1 :=
  (bg_updAgent S s c restartTraj (fun ag _ => .restart ag)).trans (bg_emit S _ c _)

theorem bg_rewardTask (S : Settings) (s : St) : Bg S s (rewardTask S s) := by
  intro d; exact ORel.map _ _ (fun a _ => .pay a _)

theorem bg_releaseEnd (S : Settings) (s : St) (l : List Nat) : Bg S s (releaseEnd s l).1 := by
  induction l generalizing s with
  | nil => exact Bg.refl S s
  | cons c cs ih =>
    simp only [releaseEnd]
    split
    · exact (bg_finishGame S s c _).trans (ih _)
    · exact ih s

theorem bg_releaseStart (S : Settings) (s : St) (l : List Nat) : Bg S s (releaseStart S s l).1 := by
  induction l generalizing s with
  | nil => exact Bg.refl S s
  | cons c cs ih =>
    simp only [releaseStart]
    split
    · exact (bg_emit S s c _).trans (ih _)
    · exact (bg_finishReset S s c _).trans (ih _)
    · exact ih s

/-- `allReset` only depends on membership and the reset flags -/
theorem allReset_iff (s : St) : s.allReset = true ↔ ∀ c ∈ s.ids, (s.agent c).resetReq = true := by
  simp [St.allReset, List.all_eq_true]

/-- agents in `ids` are present in the table -/
def IdsPresent (s : St) : Prop := ∀ c ∈ s.ids, (s.agents c).isSome

theorem bg_resetTask (S : Settings) (s : St) (o : Oracle) (hall : s.allReset = true) : Bg S s (resetTask S s o) := by
  intro d
  simp only [resetTask]
  by_cases h : d ∈ s.ids
  · simp only [h, if_true]
    apply ORel.map
    intro a ha
    have := (allReset_iff s).1 hall d h
    simp only [St.agent, ha, Option.getD_some] at this
    exact .reset a _ this
  · simp only [h, if_false]; exact ORel.refl S _

/-- the reset flags are not touched by reward assignment or by releasing finished actions -/
theorem resetReq_payOne (S : Settings) (sa : Bool) (a : Agent) : (payOne S sa a).resetReq = a.resetReq := by
  unfold payOne; split <;> (try rfl); split <;> (try rfl); split <;> rfl

theorem agent_rewardTask (S : Settings) (s : St) (c : Nat) (h : (s.agents c).isSome) :
    (rewardTask S s).agent c = payOne S s.successfulAttack (s.agent c) := by
  cases hc : s.agents c with
  | none => simp [hc] at h
  | some a => simp [rewardTask, St.agent, hc]

end NSG.Coord

namespace NSG.Coord
open NSG NSG.Defender

/-- membership and reset flags are the same in both states -/
def SameReq (s s' : St) : Prop := s'.ids = s.ids ∧ ∀ c, (s'.agent c).resetReq = (s.agent c).resetReq

theorem SameReq.refl (s : St) : SameReq s s := ⟨rfl, fun _ => rfl⟩
theorem SameReq.trans {a b c : St} (h1 : SameReq a b) (h2 : SameReq b c) : SameReq a c :=
  ⟨h2.1.trans h1.1, fun d => (h2.2 d).trans (h1.2 d)⟩

theorem SameReq.allReset {s s' : St} (h : SameReq s s') : s'.allReset = s.allReset := by
  simp only [St.allReset, h.1]
  congr 1; funext c; rw [h.2 c]

theorem sameReq_setConn (s : St) (c : Nat) (p : Phase) : SameReq s (s.setConn c p) := ⟨rfl, fun _ => rfl⟩

theorem sameReq_emit (s : St) (c : Nat) (r : Reply) : SameReq s (emit s c r).1 := by
  unfold emit; split <;> exact sameReq_setConn s c _

theorem sameReq_updAgent (s : St) (c : Nat) (f : Agent → Agent) (hf : ∀ a, (f a).resetReq = a.resetReq) :
    SameReq s (s.updAgent c f) := by
  refine ⟨rfl, fun d => ?_⟩
  simp only [St.agent, St.updAgent]
  by_cases h : d = c
  · subst h; simp only [if_true]; cases s.agents d <;> simp [hf]
  · simp [h]

theorem sameReq_finishGame (s : St) (c : Nat) (a : Act) : SameReq s (finishGame s c a).1 :=
  (sameReq_updAgent s c (recordStep a) (fun _ => rfl)).trans (sameReq_emit _ c _)

theorem sameReq_rewardTask (S : Settings) (s : St) : SameReq s (rewardTask S s) := by
  refine ⟨rfl, fun d => ?_⟩
  simp only [St.agent, rewardTask]
  cases s.agents d <;> simp [resetReq_payOne]

theorem sameReq_releaseEnd (s : St) (l : List Nat) : SameReq s (releaseEnd s l).1 := by
  induction l generalizing s with
  | nil => exact SameReq.refl s
  | cons c cs ih =>
    simp only [releaseEnd]
    split
    · exact (sameReq_finishGame s c _).trans (ih _)
    · exact ih s

/-- `settle` applies only background micro-steps, provided the reset task is started only on consensus -/
theorem bg_settle (S : Settings) (s : St) (o : Oracle) (e r : Bool) (hr : r = true → s.allReset = true) :
    Bg S s (settle S s o e r).1 := by
  unfold settle
  -- stage 1
  have h1 : Bg S s (if e then releaseEnd (rewardTask S s) s.ids else (s, [])).1 ∧
            SameReq s (if e then releaseEnd (rewardTask S s) s.ids else (s, [])).1 := by
    cases e
    · exact ⟨Bg.refl S s, SameReq.refl s⟩
    · exact ⟨(bg_rewardTask S s).trans (bg_releaseEnd S _ _), (sameReq_rewardTask S s).trans (sameReq_releaseEnd _ _)⟩
  generalize (if e then releaseEnd (rewardTask S s) s.ids else (s, [])) = p1 at h1
  obtain ⟨s1, o1⟩ := p1
  simp only at h1 ⊢
  have h2 : Bg S s1 (if r then resetTask S s1 o else s1) := by
    cases hrr : r
    · exact Bg.refl S s1
    · simp only [if_true]; exact bg_resetTask S s1 o (by rw [h1.2.allReset]; exact hr hrr)
  generalize (if r then resetTask S s1 o else s1) = s2 at h2
  have h3 : Bg S s2 (if s2.startEv then releaseStart S s2 s2.ids else (s2, [])).1 := by
    split
    · exact bg_releaseStart S s2 _
    · exact Bg.refl S s2
  generalize (if s2.startEv then releaseStart S s2 s2.ids else (s2, [])) = p3 at h3
  obtain ⟨s3, o3⟩ := p3
  exact h1.1.trans (h2.trans h3)

end NSG.Coord

namespace NSG.Coord
open NSG NSG.Defender

/-- what an agent's own message can do to its record before the background steps -/
inductive OwnStep (S : Settings) : Agent → Agent → Prop
  | req (a) : OwnStep S a { a with resetReq := true }
  | play (a act v roll e) : a.ended = false →
      ((playedAgent S a act v roll).status.terminal = true → e = true) →      -- `_update_agent_episode_end`: a terminal status always ends the episode
      OwnStep S a { playedAgent S a act v roll with ended := e }

def sender : Ev → Option Nat
  | .msg c _ _ => some c
  | _ => none

theorem allReset_setConn (s : St) (c : Nat) (p : Phase) : (s.setConn c p).allReset = s.allReset := rfl

theorem removeAgent_resetEv (s : St) (c : Nat) : (removeAgent s c).2.2 = true → (removeAgent s c).1.allReset = true := by
  unfold removeAgent
  split
  · simp only [Bool.and_eq_true]; intro h; exact h.2
  · simp

theorem bg_removeAgent (S : Settings) (s : St) (c : Nat) : Bg S s (removeAgent s c).1 := by
  unfold removeAgent
  split
  · intro d a' h
    simp only at h
    by_cases hd : d = c
    · simp [hd] at h
    · simp only [hd, if_false] at h; exact ⟨a', h, .refl a'⟩
  · exact Bg.refl S s

theorem removeAgent_gone (s : St) (c : Nat) : (removeAgent s c).1.agents c = none := by
  unfold removeAgent
  split
  · simp
  · rename_i h; simp only [St.inGame] at h; cases hc : s.agents c <;> simp_all

/-- leaving (quit, EOF, error): background steps for everybody, the leaver's record is gone -/
theorem bg_leave (S : Settings) (s : St) (c : Nat) (o : Oracle) :
    Bg S s (settle S (closeConn (removeAgent s c).1 c) o (removeAgent s c).2.1 (removeAgent s c).2.2).1 := by
  refine (bg_removeAgent S s c).trans (Bg.trans (Bg.of_agents_eq rfl) (bg_settle S _ o _ _ ?_))
  intro h; exact removeAgent_resetEv s c h

theorem leave_gone (S : Settings) (s : St) (c : Nat) (o : Oracle) :
    (settle S (closeConn (removeAgent s c).1 c) o (removeAgent s c).2.1 (removeAgent s c).2.2).1.agents c = none := by
  have hbg : Bg S (closeConn (removeAgent s c).1 c) (settle S (closeConn (removeAgent s c).1 c) o (removeAgent s c).2.1 (removeAgent s c).2.2).1 :=
    bg_settle S _ o _ _ (fun h => removeAgent_resetEv s c h)
  cases hc : (settle S (closeConn (removeAgent s c).1 c) o (removeAgent s c).2.1 (removeAgent s c).2.2).1.agents c with
  | none => rfl
  | some a' =>
    obtain ⟨a, ha, _⟩ := hbg c a' hc
    have : (closeConn (removeAgent s c).1 c).agents c = none := removeAgent_gone s c
    rw [this] at ha; cases ha

def TraceConcl (S : Settings) (s : St) (e : Ev) (d : Nat) (a' : Agent) : Prop :=
    (∃ a, s.agents d = some a ∧ BStep S a a') ∨
    (sender e = some d ∧ ∃ a a1, s.agents d = some a ∧ OwnStep S a a1 ∧ BStep S a1 a') ∨
    (sender e = some d ∧ s.agents d = none ∧ ∃ n r v, BStep S (newAgent n r v) a')

/-- **Trace theorem.**  After any delivery the record of any agent `d` is obtained from its record
before by background micro-steps only - except for the sender of a message, whose record may first
undergo its own step (request flag, executed action) or be freshly created by a join. -/
theorem deliver_trace (S : Settings) (s : St) (e : Ev) (d : Nat) (a' : Agent)
    (h : (deliver S s e).1.agents d = some a') : TraceConcl S s e d a' := by
  unfold TraceConcl
  cases e with
  | connect c =>
    simp only [deliver] at h
    split at h
    · split at h <;> exact Or.inl ⟨a', h, .refl a'⟩
    · exact Or.inl ⟨a', h, .refl a'⟩
  | armWriteFault c => exact Or.inl ⟨a', h, .refl a'⟩
  | leave c o =>
    simp only [deliver] at h
    split at h
    · exact Or.inl (bg_leave S s c o d a' h)
    · exact Or.inl (bg_leave S s c o d a' h)
    · exact Or.inl ⟨a', h, .refl a'⟩
  | msg c m o =>
    simp only [deliver] at h
    split at h
    case h_2 => exact Or.inl ⟨a', h, .refl a'⟩
    case h_1 hc =>
      cases m with
      | bad => exact Or.inl (bg_emit S s c _ d a' h)
      | quit => exact Or.inl (bg_leave S s c o d a' h)
      | reset t =>
        simp only [handle] at h
        split at h
        · exact Or.inl (bg_emit S s c _ d a' h)
        · -- own step: resetReq := true, then settle
          have hbg := bg_settle S ((s.updAgent c (fun ag => { ag with resetReq := true })).setConn c (.parked (.resetWait t))) o false
            (s.updAgent c (fun ag => { ag with resetReq := true })).allReset (fun hh => hh)
          obtain ⟨b, hb, hbs⟩ := hbg d a' h
          simp only [St.setConn, St.updAgent] at hb
          by_cases hd : d = c
          · subst hd
            simp only [if_true] at hb
            cases hs : s.agents d with
            | none => simp [hs] at hb
            | some a =>
              simp only [hs, Option.map_some, Option.some.injEq] at hb
              exact Or.inr (Or.inl ⟨rfl, a, _, rfl, .req a, hb ▸ hbs⟩)
          · simp only [hd, if_false] at hb
            exact Or.inl ⟨b, hb, hbs⟩
      | join n r =>
        simp only [handle] at h
        split at h
        · exact Or.inl (bg_emit S s c _ d a' h)
        · rename_i hin
          cases r with
          | none => exact Or.inl (bg_emit S s c _ d a' h)
          | some r =>
            simp only at h
            have hbg := fun st => bg_settle S st o false false (fun hh => by cases hh)
            obtain ⟨b, hb, hbs⟩ := hbg _ d a' h
            by_cases hd : d = c
            · subst hd
              have hnone : s.agents d = none := by
                simp only [St.inGame] at hin; cases hs : s.agents d <;> simp_all
              refine Or.inr (Or.inr ⟨rfl, hnone, n, r, o.initView, ?_⟩)
              have : b = newAgent n r o.initView := by
                split at hb <;> simp [St.setConn, St.setAgent] at hb <;> exact hb.symm
              exact this ▸ hbs
            · refine Or.inl ⟨b, ?_, hbs⟩
              split at hb <;> simp [St.setConn, St.setAgent, hd] at hb <;> exact hb
      | game a =>
        simp only [handle] at h
        split at h
        · exact Or.inl (bg_emit S s c _ d a' h)
        · split at h
          · exact Or.inl (bg_emit S s c _ d a' h)
          · rename_i hend
            split at h
            · exact Or.inl (bg_emit S s c _ d a' h)
            · rename_i v' hv
              -- both branches: own step `play`, then background steps
              have key : ∀ st' : St, Bg S (s.updAgent c (fun _ => { playedAgent S (s.agent c) a v' o.roll with
                    ended := episodeEnds s c (playedAgent S (s.agent c) a v' o.roll) })) st' →
                  st'.agents d = some a' → TraceConcl S s (.msg c (.game a) o) d a' := by
                intro st' hbg hst
                obtain ⟨b, hb, hbs⟩ := hbg d a' hst
                simp only [St.updAgent] at hb
                by_cases hd : d = c
                · subst hd
                  simp only [if_true] at hb
                  cases hs : s.agents d with
                  | none => simp [hs] at hb
                  | some ag =>
                    simp only [hs, Option.map_some, Option.some.injEq] at hb
                    have hag : s.agent d = ag := by simp [St.agent, hs]
                    have he : ag.ended = false := by rw [← hag]; simpa using hend
                    unfold TraceConcl
                    exact Or.inr (Or.inl ⟨rfl, ag, _, hs, .play ag a v' o.roll (episodeEnds s d (playedAgent S ag a v' o.roll)) he (by intro ht; simp [episodeEnds, ht]), by rw [← hag]; exact hb ▸ hbs⟩)
                · simp only [hd, if_false] at hb
                  exact Or.inl ⟨b, hb, hbs⟩
              unfold TraceConcl at key
              split at h
              · exact key _ (Bg.trans (bg_setConn S _ c _) (bg_settle S _ o _ false (fun hh => by cases hh))) h
              · exact key _ (bg_finishGame S _ c a) h

end NSG.Coord
