import NSG.Lemmas.CoordBarrier
import NSG.Properties.C18
/-!
Membership invariant of the sequential coordinator model: the agents in the game are exactly the
members of `ids`, they are pairwise distinct, each of them holds a live connection, there are never
more of them than the configured number of players, and

    the start event is up  ⇔  the number of agents in the game equals the required number.

Proved for every history (`memberInv_run`).
-/
namespace NSG.Coord
open NSG NSG.Defender

theorem settle_startEv (S : Settings) (s : St) (o : Oracle) (e r : Bool) : (settle S s o e r).1.startEv = s.startEv := by
  unfold settle
  have h1 : (if e then releaseEnd (rewardTask S s) s.ids else (s, [])).1.startEv = s.startEv := by
    cases e
    · rfl
    · exact ((keeps_rewardTask S s).trans (keeps_releaseEnd _ _)).startEv
  generalize (if e then releaseEnd (rewardTask S s) s.ids else (s, [])) = p1 at h1
  obtain ⟨s1, o1⟩ := p1
  simp only at h1 ⊢
  have h2 : (if r then resetTask S s1 o else s1).startEv = s1.startEv := by cases r <;> rfl
  generalize (if r then resetTask S s1 o else s1) = s2 at h2
  have h3 : (if s2.startEv then releaseStart S s2 s2.ids else (s2, [])).1.startEv = s2.startEv := by
    split
    · exact (keeps_releaseStart S s2 _).startEv
    · rfl
  generalize (if s2.startEv then releaseStart S s2 s2.ids else (s2, [])) = p3 at h3
  obtain ⟨s3, o3⟩ := p3
  simp only at h3 ⊢
  rw [h3, h2, h1]

/-- membership, liveness of every connection, slot counter and start event all unchanged -/
structure Quiet (s s' : St) : Prop where
  sm : SameMembers s s'
  sl : SameSlots s s'
  st : s'.startEv = s.startEv

theorem Quiet.refl (s : St) : Quiet s s := ⟨SameMembers.refl s, SameSlots.refl s, rfl⟩
theorem Quiet.trans {a b c : St} (h1 : Quiet a b) (h2 : Quiet b c) : Quiet a c :=
  ⟨h1.sm.trans h2.sm, h1.sl.trans h2.sl, h2.st.trans h1.st⟩

theorem quiet_emit (s : St) (c : Nat) (r : Reply) (h : (s.conn c).live = true) : Quiet s (emit s c r).1 :=
  ⟨sm_emit s c r, sameSlots_emit s c r h, (keeps_emit s c r).startEv⟩
theorem quiet_updAgent (s : St) (c : Nat) (f : Agent → Agent) : Quiet s (s.updAgent c f) :=
  ⟨sm_updAgent s c f, sameSlots_updAgent s c f, rfl⟩
theorem quiet_setConn (s : St) (c : Nat) (p : Phase) (h : p.live = (s.conn c).live) : Quiet s (s.setConn c p) :=
  ⟨sm_setConn s c p, sameSlots_setConn s c p h, rfl⟩
theorem quiet_settle (S : Settings) (s : St) (o : Oracle) (e r : Bool) : Quiet s (settle S s o e r).1 :=
  ⟨sm_settle S s o e r, sameSlots_settle S s o e r, settle_startEv S s o e r⟩
theorem quiet_finishGame (s : St) (c : Nat) (a : Act) (h : (s.conn c).live = true) : Quiet s (finishGame s c a).1 :=
  (quiet_updAgent s c _).trans (quiet_emit _ c _ (by simpa [St.updAgent] using h))

/-- every message other than a successful JoinGame and QuitGame leaves membership, slots and the
start event alone -/
theorem quiet_handle (S : Settings) (s : St) (c : Nat) (m : Msg) (o : Oracle) (hc : s.conn c = .reading)
    (hq : m ≠ .quit) (hj : ∀ n r, m = .join n (some r) → s.inGame c = true) : Quiet s (handle S s c m o).1 := by
  have hl : (s.conn c).live = true := by simp [hc, Phase.live]
  cases m with
  | bad => exact quiet_emit s c _ hl
  | quit => exact absurd rfl hq
  | join n r =>
    simp only [handle]
    split
    · exact quiet_emit s c _ hl
    · rename_i hin
      cases r with
      | none => exact quiet_emit s c _ hl
      | some r => exact absurd (hj n r rfl) hin
  | reset t =>
    simp only [handle]
    split
    · exact quiet_emit s c _ hl
    · refine Quiet.trans ?_ (quiet_settle S _ o false _)
      exact (quiet_updAgent s c _).trans (quiet_setConn _ c _ (by simp [St.updAgent, hc, Phase.live]))
  | game a =>
    simp only [handle]
    split
    · exact quiet_emit s c _ hl
    · split
      · exact quiet_emit s c _ hl
      · split
        · exact quiet_emit s c _ hl
        · split
          · refine Quiet.trans ?_ (quiet_settle S _ o _ false)
            exact (quiet_updAgent s c _).trans (quiet_setConn _ c _ (by simp [St.updAgent, hc, Phase.live]))
          · exact (quiet_updAgent s c _).trans (quiet_finishGame _ c a (by simpa [St.updAgent] using hl))

/-- **Membership invariant.** -/
structure MemberInv (S : Settings) (s : St) : Prop where
  nodup : s.ids.Nodup
  live : ∀ c ∈ s.ids, (s.conn c).live = true
  ingame : ∀ c ∈ s.ids, s.inGame c = true
  member : ∀ c, s.inGame c = true → c ∈ s.ids
  fin : ∃ L : List Nat, L.Nodup ∧ ∀ c, (s.conn c).live = true → c ∈ L
  slots : SlotInv S s
  start : s.startEv = true ↔ s.ids.length = S.required

/-- a live connection that is not in the game still fits: the game is not full -/
theorem MemberInv.room {S : Settings} {s : St} (h : MemberInv S s) (c : Nat) (hl : (s.conn c).live = true) (hn : c ∉ s.ids) :
    s.ids.length + 1 ≤ S.required := by
  obtain ⟨L, hL, hall⟩ := h.fin
  have hc := h.slots.count L hL hall
  have hb := h.slots.bound
  have hnd : (c :: s.ids).Nodup := List.nodup_cons.2 ⟨hn, h.nodup⟩
  have hsub : (c :: s.ids) ⊆ L.filter (fun d => (s.conn d).live) := by
    intro d hd
    have hdl : (s.conn d).live = true := by
      cases hd with
      | head => exact hl
      | tail _ hd' => exact h.live d hd'
    exact List.mem_filter.2 ⟨hall d hdl, hdl⟩
  have := hnd.length_le_of_subset hsub
  simp only [List.length_cons] at this
  unfold liveCount at hc
  omega

/-- the number of agents in the game never exceeds the required number -/
theorem MemberInv.le {S : Settings} {s : St} (h : MemberInv S s) : s.ids.length ≤ S.required := by
  obtain ⟨L, hL, hall⟩ := h.fin
  have hc := h.slots.count L hL hall
  have hb := h.slots.bound
  have hsub : s.ids ⊆ L.filter (fun d => (s.conn d).live) :=
    fun d hd => List.mem_filter.2 ⟨hall d (h.live d hd), h.live d hd⟩
  have := h.nodup.length_le_of_subset hsub
  unfold liveCount at hc
  omega

theorem fin_step (S : Settings) (s : St) (e : Ev)
    (h : ∃ L : List Nat, L.Nodup ∧ ∀ c, (s.conn c).live = true → c ∈ L) :
    ∃ L : List Nat, L.Nodup ∧ ∀ c, ((deliver S s e).1.conn c).live = true → c ∈ L := by
  obtain ⟨L, hL, hall⟩ := h
  have hm := C18_slot_move S s e
  generalize (deliver S s e).1 = s' at hm
  cases hm with
  | same hs => exact ⟨L, hL, fun c hc => hall c (by rw [← hs.2 c]; exact hc)⟩
  | taken c _ h0 _ _ ho =>
    have hcL : c ∉ L ∨ c ∈ L := (Classical.em _).symm
    rcases hcL with hcL | hcL
    · refine ⟨c :: L, List.nodup_cons.2 ⟨hcL, hL⟩, fun d hd => ?_⟩
      by_cases hdc : d = c
      · subst hdc; exact List.mem_cons_self
      · exact List.mem_cons_of_mem _ (hall d (by rw [← ho d hdc]; exact hd))
    · refine ⟨L, hL, fun d hd => ?_⟩
      by_cases hdc : d = c
      · subst hdc; exact hcL
      · exact hall d (by rw [← ho d hdc]; exact hd)
  | freed c h1 h0 _ ho =>
    refine ⟨L, hL, fun d hd => ?_⟩
    by_cases hdc : d = c
    · subst hdc; exact hall d h1
    · exact hall d (by rw [← ho d hdc]; exact hd)

/-- a step that is quiet keeps the invariant -/
theorem MemberInv.of_quiet {S : Settings} {s s' : St} (h : MemberInv S s) (q : Quiet s s')
    (hfin : ∃ L : List Nat, L.Nodup ∧ ∀ c, (s'.conn c).live = true → c ∈ L) (hsl : SlotInv S s') : MemberInv S s' :=
  ⟨by rw [q.sm.1]; exact h.nodup,
   fun c hc => by rw [q.sl.2 c]; exact h.live c (q.sm.1 ▸ hc),
   fun c hc => by rw [q.sm.2 c]; exact h.ingame c (q.sm.1 ▸ hc),
   fun c hc => by rw [q.sm.1]; exact h.member c (q.sm.2 c ▸ hc),
   hfin, hsl,
   by rw [q.st, q.sm.1]; exact h.start⟩

theorem memberInv_leave (S : Settings) (s : St) (c : Nat) (o : Oracle) (h : MemberInv S s)
    (hfin : ∃ L : List Nat, L.Nodup ∧ ∀ d, (((settle S (closeConn (removeAgent s c).1 c) o (removeAgent s c).2.1 (removeAgent s c).2.2).1).conn d).live = true → d ∈ L)
    (hsl : SlotInv S (settle S (closeConn (removeAgent s c).1 c) o (removeAgent s c).2.1 (removeAgent s c).2.2).1) :
    MemberInv S (settle S (closeConn (removeAgent s c).1 c) o (removeAgent s c).2.1 (removeAgent s c).2.2).1 := by
  have q := quiet_settle S (closeConn (removeAgent s c).1 c) o (removeAgent s c).2.1 (removeAgent s c).2.2
  generalize (settle S (closeConn (removeAgent s c).1 c) o (removeAgent s c).2.1 (removeAgent s c).2.2).1 = s3 at q hfin hsl
  by_cases hg : s.inGame c = true
  · have hrem : (removeAgent s c).1 = { s with agents := fun d => if d = c then none else s.agents d, ids := s.ids.filter (fun d => d ≠ c), startEv := false } := by
      simp [removeAgent, hg]
    rw [hrem] at q
    have hcm : c ∈ s.ids := h.member c hg
    have hids : s3.ids = s.ids.filter (fun d => d ≠ c) := q.sm.1
    have hlt : (s.ids.filter (fun d => d ≠ c)).length < s.ids.length := by
      apply List.length_filter_lt_length_iff_exists.2
      exact ⟨c, hcm, by simp⟩
    have hle := h.le
    refine ⟨by rw [hids]; exact h.nodup.filter _, fun d hd => ?_, fun d hd => ?_, fun d hd => ?_, hfin, hsl, ?_⟩
    · rw [hids] at hd
      obtain ⟨hd1, hd2⟩ := List.mem_filter.1 hd
      have hdc : d ≠ c := by simpa using hd2
      rw [q.sl.2 d]; simp only [closeConn, St.setConn, hdc, if_false]; exact h.live d hd1
    · rw [hids] at hd
      obtain ⟨hd1, hd2⟩ := List.mem_filter.1 hd
      have hdc : d ≠ c := by simpa using hd2
      rw [q.sm.2 d]; simp only [closeConn, St.setConn, St.inGame, hdc, if_false]; exact h.ingame d hd1
    · rw [q.sm.2 d] at hd
      simp only [closeConn, St.setConn, St.inGame] at hd
      by_cases hdc : d = c
      · simp [hdc] at hd
      · simp only [hdc, if_false] at hd
        rw [hids]; exact List.mem_filter.2 ⟨h.member d hd, by simpa using hdc⟩
    · rw [q.st, hids]
      simp only [closeConn, St.setConn]
      constructor
      · intro hf; cases hf
      · intro he; omega
  · have hgf : s.inGame c = false := by simpa using hg
    have hrem : (removeAgent s c).1 = s := by simp [removeAgent, hgf]
    rw [hrem] at q
    have hcn : c ∉ s.ids := fun hc => hg (h.ingame c hc)
    refine ⟨by rw [q.sm.1]; exact h.nodup, fun d hd => ?_, fun d hd => ?_, fun d hd => ?_, hfin, hsl, ?_⟩
    · have hd' : d ∈ s.ids := by simpa [q.sm.1, closeConn, St.setConn] using hd
      have hdc : d ≠ c := fun e => hcn (e ▸ hd')
      rw [q.sl.2 d]; simp only [closeConn, St.setConn, hdc, if_false]; exact h.live d hd'
    · have hd' : d ∈ s.ids := by simpa [q.sm.1, closeConn, St.setConn] using hd
      rw [q.sm.2 d]; exact h.ingame d hd'
    · rw [q.sm.2 d] at hd
      rw [q.sm.1]; exact h.member d hd
    · rw [q.st, q.sm.1]; exact h.start

theorem memberInv_deliver (S : Settings) (s : St) (e : Ev) (h : MemberInv S s) : MemberInv S (deliver S s e).1 := by
  have hfin := fin_step S s e h.fin
  have hsl := slotInv_step S s e h.slots
  cases e with
  | connect c =>
    simp only [deliver] at hfin hsl ⊢
    split
    · rename_i hc
      have hl : (s.conn c).live = false := by cases hcc : s.conn c <;> simp_all [Phase.isFree, Phase.live]
      have hcn : c ∉ s.ids := fun hm => by have := h.live c hm; rw [hl] at this; cases this
      split
      · rename_i hfull
        simp only [hc, hfull, if_true] at hfin hsl
        exact h.of_quiet (quiet_setConn s c _ (by rw [hl]; rfl)) hfin hsl
      · rename_i hfull
        simp only [hc, hfull, if_true, if_false] at hfin hsl
        refine ⟨h.nodup, fun d hd => ?_, h.ingame, h.member, hfin, hsl, h.start⟩
        have hdc : d ≠ c := fun e => hcn (e ▸ hd)
        simp only [St.setConn, hdc, if_false]; exact h.live d hd
    · rename_i hc
      simp only [hc] at hfin hsl
      exact h
  | armWriteFault c => exact ⟨h.nodup, h.live, h.ingame, h.member, h.fin, ⟨h.slots.count, h.slots.bound⟩, h.start⟩
  | leave c o =>
    simp only [deliver] at hfin hsl ⊢
    split
    · rename_i hc; simp only [hc] at hfin hsl; exact memberInv_leave S s c o h hfin hsl
    · rename_i hc; simp only [hc] at hfin hsl; exact memberInv_leave S s c o h hfin hsl
    · exact h
  | msg c m o =>
    simp only [deliver] at hfin hsl ⊢
    split
    case h_2 => exact h
    case h_1 hc =>
      simp only [hc] at hfin hsl
      have hl : (s.conn c).live = true := by simp [hc, Phase.live]
      by_cases hq : m = .quit
      · subst hq
        simp only [handle] at hfin hsl ⊢
        exact memberInv_leave S s c o h hfin hsl
      · by_cases hj : ∀ n r, m = .join n (some r) → s.inGame c = true
        · exact h.of_quiet (quiet_handle S s c m o hc hq hj) hfin hsl
        · -- a successful JoinGame
          have : ∃ n r, m = .join n (some r) ∧ s.inGame c = false := by
            apply Classical.byContradiction
            intro hne
            apply hj
            intro n r hm
            cases hg : s.inGame c
            · exact absurd ⟨n, r, hm, hg⟩ hne
            · rfl
          obtain ⟨n, r, hm, hg⟩ := this
          subst hm
          have hcn : c ∉ s.ids := fun hc' => by have := h.ingame c hc'; rw [hg] at this; cases this
          have hroom := h.room c hl hcn
          simp only [handle, hg, Bool.false_eq_true, if_false] at hfin hsl ⊢
          -- the state handed to `settle`
          generalize hs4 : (St.setConn (if ({ (s.setAgent c (newAgent n r o.initView)) with ids := s.ids ++ [c] } : St).ids.length = S.required
              then { ({ (s.setAgent c (newAgent n r o.initView)) with ids := s.ids ++ [c] } : St) with startEv := true }
              else ({ (s.setAgent c (newAgent n r o.initView)) with ids := s.ids ++ [c] } : St)) c (.parked .joinStart)) = s4 at hfin hsl ⊢
          have q := quiet_settle S s4 o false false
          have h4ids : s4.ids = s.ids ++ [c] := by
            rw [← hs4]; simp only [St.setConn]; split <;> rfl
          have h4conn : ∀ d, (s4.conn d).live = (s.conn d).live := by
            intro d; rw [← hs4]; simp only [St.setConn, St.setAgent]
            by_cases hdc : d = c
            · subst hdc; simp only [if_true]; rw [hl]; rfl
            · simp only [hdc, if_false]; split <;> rfl
          have h4in : ∀ d, s4.inGame d = (if d = c then true else s.inGame d) := by
            intro d; rw [← hs4]; simp only [St.setConn, St.inGame, St.setAgent]
            split <;> (by_cases hdc : d = c <;> simp [hdc])
          have h4st : s4.startEv = true ↔ (s.ids ++ [c]).length = S.required := by
            rw [← hs4]; simp only [St.setConn]
            split
            · rename_i heq; simp only [List.length_append, List.length_cons, List.length_nil] at heq ⊢; simp [heq]
            · rename_i hne
              simp only [List.length_append, List.length_cons, List.length_nil] at hne ⊢
              constructor
              · intro hst
                have := h.start.1 hst
                omega
              · intro he; exact absurd he hne
          refine ⟨?_, fun d hd => ?_, fun d hd => ?_, fun d hd => ?_, hfin, hsl, ?_⟩
          · rw [q.sm.1, h4ids]
            exact List.nodup_append.2 ⟨h.nodup, (by simp), fun a ha b hb => by
              have : b = c := by simpa using hb
              subst this; intro e; exact hcn (e ▸ ha)⟩
          · rw [q.sm.1, h4ids] at hd
            rw [q.sl.2 d, h4conn d]
            rcases List.mem_append.1 hd with hd | hd
            · exact h.live d hd
            · have : d = c := by simpa using hd
              subst this; exact hl
          · rw [q.sm.1, h4ids] at hd
            rw [q.sm.2 d, h4in d]
            rcases List.mem_append.1 hd with hd | hd
            · split
              · rfl
              · exact h.ingame d hd
            · have : d = c := by simpa using hd
              simp [this]
          · rw [q.sm.2 d, h4in d] at hd
            rw [q.sm.1, h4ids]
            by_cases hdc : d = c
            · subst hdc; simp
            · simp only [hdc, if_false] at hd
              exact List.mem_append_left _ (h.member d hd)
          · rw [q.st, q.sm.1, h4ids]; exact h4st

theorem memberInv_init (S : Settings) (hreq : 0 < S.required) : MemberInv S init := by
  refine ⟨List.nodup_nil, ?_, ?_, ?_, ⟨[], List.nodup_nil, ?_⟩, slotInv_init S, ?_⟩
  · intro c hc; simp [init] at hc
  · intro c hc; simp [init] at hc
  · intro c hc; simp [init, St.inGame] at hc
  · intro c hc; simp [init, Phase.live] at hc
  · simp only [init, List.length_nil]; constructor
    · intro hf; cases hf
    · intro he; omega

theorem memberInv_run (S : Settings) (hreq : 0 < S.required) (es : List Ev) : MemberInv S (run S init es).1 := by
  suffices h : ∀ s, MemberInv S s → MemberInv S (run S s es).1 from h init (memberInv_init S hreq)
  induction es with
  | nil => intro s hs; exact hs
  | cons e es ih =>
    intro s hs
    simp only [run]
    exact ih _ (memberInv_deliver S s e hs)

end NSG.Coord
