import NSG.Model.World
/-! Helper lemmas about the association-list operations used by the world model. -/
namespace NSG

variable {κ ν : Type} [DecidableEq κ]

theorem agetD_addTo_same (k : κ) (new : List ν) (m : AMap κ (List ν)) :
    agetD k (addTo k new m) = agetD k m ++ new := by
  unfold addTo agetD
  cases h : alookup k m <;> simp

theorem alookup_addTo_other (k k' : κ) (new : List ν) (m : AMap κ (List ν)) (h : k ≠ k') :
    alookup k' (addTo k new m) = alookup k' m := by
  unfold addTo
  cases alookup k m <;> simp [h]

theorem agetD_addTo_other (k k' : κ) (new : List ν) (m : AMap κ (List ν)) (h : k ≠ k') :
    agetD k' (addTo k new m) = agetD k' m := by
  simp [agetD, alookup_addTo_other k k' new m h]

theorem mem_agetD_addTo (k k' : κ) (new : List ν) (m : AMap κ (List ν)) (x : ν) :
    x ∈ agetD k' (addTo k new m) ↔ x ∈ agetD k' m ∨ (k = k' ∧ x ∈ new) := by
  by_cases h : k = k'
  · subst h; simp [agetD_addTo_same]
  · simp [agetD_addTo_other k k' new m h, h]

theorem mem_keys_addTo (k k' : κ) (new : List ν) (m : AMap κ (List ν)) :
    k' ∈ akeys (addTo k new m) ↔ k' = k ∨ k' ∈ akeys m := by
  unfold addTo
  cases h : alookup k m with
  | none => simp [aset, akeys]
  | some old => simp [aset, akeys]

theorem alookup_discardFrom_other (k k' : κ) (x : IP) (m : AMap κ (List IP)) (h : k ≠ k') :
    alookup k' (discardFrom k x m) = alookup k' m := by
  unfold discardFrom
  cases alookup k m <;> simp [h]

theorem alookup_discardFrom_same (k : κ) (x : IP) (m : AMap κ (List IP)) :
    alookup k (discardFrom k x m) = (alookup k m).map (fun l => l.filter (fun y => y ≠ x)) := by
  unfold discardFrom
  cases h : alookup k m <;> simp [h]

theorem mem_agetD_discardFrom (k k' : κ) (x y : IP) (m : AMap κ (List IP)) :
    y ∈ agetD k' (discardFrom k x m) ↔ y ∈ agetD k' m ∧ ¬ (k = k' ∧ y = x) := by
  by_cases h : k = k'
  · subst h
    simp only [agetD, alookup_discardFrom_same]
    cases alookup k m <;> simp
  · simp [agetD, alookup_discardFrom_other k k' x m h, h]

theorem mem_keys_discardFrom (k k' : κ) (x : IP) (m : AMap κ (List IP)) :
    k' ∈ akeys (discardFrom k x m) ↔ k' ∈ akeys m := by
  unfold discardFrom
  cases h : alookup k m with
  | none => simp
  | some old =>
    have : k ∈ akeys m := (alookup_isSome_iff_mem_keys k m).1 (by simp [h])
    simp only [aset, akeys, List.map_cons, List.mem_cons]
    constructor
    · rintro (rfl | h') <;> simp_all [akeys]
    · intro h'; exact Or.inr h'

/-- `allowed` through `agetD`. -/
theorem World.allowed_iff (w : World) (s d : IP) : w.allowed s d = true ↔ d ∈ agetD s w.fw := by
  unfold World.allowed agetD
  cases alookup s w.fw <;> simp

end NSG
