import NSG.Lemmas.CoordBarrier
/-!
Where the views the coordinator holds come from.  `settle` without the reset flag leaves every view
untouched; with the reset flag every agent in the game gets exactly the fresh view the world built for
it (`o.resetView`).  Used by the closed-system model (`Model/System.lean`).
-/
namespace NSG.Coord
open NSG NSG.Defender

/-- the view held for connection `d`, if it has an agent record -/
def St.viewOf (s : St) (d : Nat) : Option View := (s.agents d).map (·.view)

/-- every view is kept -/
def SameViews (s s' : St) : Prop := ∀ d, s'.viewOf d = s.viewOf d

theorem SameViews.refl (s : St) : SameViews s s := fun _ => rfl
theorem SameViews.trans {a b c : St} (h1 : SameViews a b) (h2 : SameViews b c) : SameViews a c :=
  fun d => (h2 d).trans (h1 d)

theorem sv_setConn (s : St) (c : Nat) (p : Phase) : SameViews s (s.setConn c p) := fun _ => rfl
theorem sv_emit (s : St) (c : Nat) (r : Reply) : SameViews s (emit s c r).1 := by
  unfold emit; split <;> exact sv_setConn s c _
theorem sv_updAgent (s : St) (c : Nat) (f : Agent → Agent) (hf : ∀ a, (f a).view = a.view) : SameViews s (s.updAgent c f) := by
  intro d
  simp only [St.viewOf, St.updAgent]
  by_cases h : d = c
  · subst h; simp only [if_true]; cases s.agents d <;> simp [hf]
  · simp [h]
theorem sv_finishGame (s : St) (c : Nat) (a : Act) : SameViews s (finishGame s c a).1 :=
  (sv_updAgent s c (recordStep a) (fun _ => rfl)).trans (sv_emit _ c _)
theorem sv_finishReset (S : Settings) (s : St) (c : Nat) (t : Bool) : SameViews s (finishReset S s c t).1 :=
  (sv_updAgent s c restartTraj (fun _ => rfl)).trans (sv_emit _ c _)
theorem view_payOne (S : Settings) (sa : Bool) (a : Agent) : (payOne S sa a).view = a.view := by
  unfold payOne; split
  · rfl
  · split
    · rfl
    · split <;> rfl
    · rfl
theorem sv_rewardTask (S : Settings) (s : St) : SameViews s (rewardTask S s) := by
  intro d; simp only [St.viewOf, rewardTask]; cases s.agents d <;> simp [view_payOne]
theorem sv_releaseEnd (s : St) (l : List Nat) : SameViews s (releaseEnd s l).1 := by
  induction l generalizing s with
  | nil => exact SameViews.refl s
  | cons c cs ih => simp only [releaseEnd]; split
                    · exact (sv_finishGame s c _).trans (ih _)
                    · exact ih s
theorem sv_releaseStart (S : Settings) (s : St) (l : List Nat) : SameViews s (releaseStart S s l).1 := by
  induction l generalizing s with
  | nil => exact SameViews.refl s
  | cons c cs ih => simp only [releaseStart]; split
                    · exact (sv_emit s c _).trans (ih _)
                    · exact (sv_finishReset S s c _).trans (ih _)
                    · exact ih s

/-- what the reset task does to the views: agents in the game get their fresh view, the others keep theirs -/
theorem viewOf_resetTask (S : Settings) (s : St) (o : Oracle) (d : Nat) :
    (resetTask S s o).viewOf d = if d ∈ s.ids then (s.viewOf d).map (fun _ => o.resetView d) else s.viewOf d := by
  simp only [St.viewOf, resetTask]
  split
  · cases s.agents d <;> simp [resetOne]
  · rfl

/-- **Without a reset `settle` keeps every view.** -/
theorem sv_settle_noreset (S : Settings) (s : St) (o : Oracle) (e : Bool) : SameViews s (settle S s o e false).1 := by
  unfold settle
  have h1 : SameViews s (if e then releaseEnd (rewardTask S s) s.ids else (s, [])).1 := by
    cases e
    · exact SameViews.refl s
    · exact (sv_rewardTask S s).trans (sv_releaseEnd _ _)
  generalize (if e then releaseEnd (rewardTask S s) s.ids else (s, [])) = p1 at h1
  obtain ⟨s1, o1⟩ := p1
  simp only at h1 ⊢
  have h3 : SameViews s1 (if s1.startEv then releaseStart S s1 s1.ids else (s1, [])).1 := by
    split
    · exact sv_releaseStart S s1 _
    · exact SameViews.refl s1
  simp only [Bool.false_eq_true, if_false]
  generalize (if s1.startEv then releaseStart S s1 s1.ids else (s1, [])) = p3 at h3
  obtain ⟨s3, o3⟩ := p3
  exact h1.trans h3

/-- **With a reset every agent in the game holds exactly its fresh view afterwards**, the others keep theirs. -/
theorem viewOf_settle_reset (S : Settings) (s : St) (o : Oracle) (e : Bool) (d : Nat) :
    (settle S s o e true).1.viewOf d = if d ∈ s.ids then (s.viewOf d).map (fun _ => o.resetView d) else s.viewOf d := by
  unfold settle
  have h1 : SameViews s (if e then releaseEnd (rewardTask S s) s.ids else (s, [])).1 := by
    cases e
    · exact SameViews.refl s
    · exact (sv_rewardTask S s).trans (sv_releaseEnd _ _)
  have hm : SameMembers s (if e then releaseEnd (rewardTask S s) s.ids else (s, [])).1 := by
    cases e
    · exact SameMembers.refl s
    · exact (sm_rewardTask S s).trans (sm_releaseEnd _ _)
  generalize (if e then releaseEnd (rewardTask S s) s.ids else (s, [])) = p1 at h1 hm
  obtain ⟨s1, o1⟩ := p1
  simp only at h1 hm ⊢
  simp only [if_true]
  have h3 : SameViews (resetTask S s1 o) (if (resetTask S s1 o).startEv then releaseStart S (resetTask S s1 o) (resetTask S s1 o).ids else (resetTask S s1 o, [])).1 := by
    split
    · exact sv_releaseStart S _ _
    · exact SameViews.refl _
  generalize (if (resetTask S s1 o).startEv then releaseStart S (resetTask S s1 o) (resetTask S s1 o).ids else (resetTask S s1 o, [])) = p3 at h3
  obtain ⟨s3, o3⟩ := p3
  simp only at h3 ⊢
  rw [h3 d, viewOf_resetTask, hm.1, h1 d]

end NSG.Coord
