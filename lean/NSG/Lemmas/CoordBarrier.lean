import NSG.Lemmas.CoordTrace
import NSG.Properties.C01
/-!
Barrier invariant of the sequential coordinator model: at every quiescent point a parked request
waits at a barrier that is *not* met -
  join / reset-done waiting for players  =>  the start event is down,
  final action                           =>  some agent in the game has not finished,
  reset request                          =>  some agent in the game has not asked -
so a request is answered in the very delivery that meets its barrier.
-/
namespace NSG.Coord
open NSG NSG.Defender

def Phase.waitsStart : Phase → Bool
  | .parked .joinStart | .parked (.resetStart _) => true
  | _ => false
def Phase.waitsEnd : Phase → Bool
  | .parked (.gameEnd _) => true
  | _ => false
def Phase.waitsReset : Phase → Bool
  | .parked (.resetWait _) => true
  | _ => false

structure BarrierInv (s : St) : Prop where
  present : ∀ c, (s.conn c).pend = 1 → c ∈ s.ids
  start : ∀ c, (s.conn c).waitsStart = true → s.startEv = false
  ended : ∀ c, (s.conn c).waitsEnd = true → s.allEnded = false
  reset : ∀ c, (s.conn c).waitsReset = true → s.allReset = false

/-- a transformer that only answers parked requests and touches neither membership, the start event,
the ended flags nor the request flags -/
structure Keeps (s s' : St) : Prop where
  ids : s'.ids = s.ids
  startEv : s'.startEv = s.startEv
  ended : ∀ c, (s'.agent c).ended = (s.agent c).ended
  req : ∀ c, (s'.agent c).resetReq = (s.agent c).resetReq
  conn : ∀ c, s'.conn c = s.conn c ∨ (s'.conn c).pend = 0

theorem Keeps.refl (s : St) : Keeps s s := ⟨rfl, rfl, fun _ => rfl, fun _ => rfl, fun _ => Or.inl rfl⟩

theorem Keeps.trans {a b c : St} (h1 : Keeps a b) (h2 : Keeps b c) : Keeps a c := by
  refine ⟨h2.ids.trans h1.ids, h2.startEv.trans h1.startEv, fun d => (h2.ended d).trans (h1.ended d),
    fun d => (h2.req d).trans (h1.req d), fun d => ?_⟩
  rcases h2.conn d with h | h
  · rw [h]; exact h1.conn d
  · exact Or.inr h

theorem Keeps.allEnded {s s' : St} (h : Keeps s s') : s'.allEnded = s.allEnded := by
  simp only [St.allEnded, h.ids]; congr 1; funext c; rw [h.ended c]

theorem Keeps.allReset {s s' : St} (h : Keeps s s') : s'.allReset = s.allReset := by
  simp only [St.allReset, h.ids]; congr 1; funext c; rw [h.req c]

theorem pend_zero_flags {p : Phase} (h : p.pend = 0) : p.waitsStart = false ∧ p.waitsEnd = false ∧ p.waitsReset = false := by
  cases p with
  | parked q => simp [Phase.pend] at h
  | _ => simp [Phase.waitsStart, Phase.waitsEnd, Phase.waitsReset]

theorem waits_pend {p : Phase} (h : p.waitsStart = true ∨ p.waitsEnd = true ∨ p.waitsReset = true) : p.pend = 1 := by
  cases p with
  | parked q => rfl
  | _ => simp [Phase.waitsStart, Phase.waitsEnd, Phase.waitsReset] at h

/-- answering parked requests never breaks the invariant -/
theorem BarrierInv.keeps {s s' : St} (hi : BarrierInv s) (hk : Keeps s s') : BarrierInv s' := by
  refine ⟨fun c hc => ?_, fun c hc => ?_, fun c hc => ?_, fun c hc => ?_⟩
  · rcases hk.conn c with h | h
    · rw [hk.ids]; exact hi.present c (h ▸ hc)
    · omega
  · rcases hk.conn c with h | h
    · rw [hk.startEv]; exact hi.start c (h ▸ hc)
    · rw [(pend_zero_flags h).1] at hc; cases hc
  · rcases hk.conn c with h | h
    · rw [hk.allEnded]; exact hi.ended c (h ▸ hc)
    · rw [(pend_zero_flags h).2.1] at hc; cases hc
  · rcases hk.conn c with h | h
    · rw [hk.allReset]; exact hi.reset c (h ▸ hc)
    · rw [(pend_zero_flags h).2.2] at hc; cases hc

theorem keeps_emit (s : St) (c : Nat) (r : Reply) : Keeps s (emit s c r).1 := by
  unfold emit
  split <;> refine ⟨rfl, rfl, fun _ => rfl, fun _ => rfl, fun d => ?_⟩ <;>
    (simp only [St.setConn]; by_cases h : d = c <;> simp [h, Phase.pend])

theorem keeps_updAgent (s : St) (c : Nat) (f : Agent → Agent) (he : ∀ a, (f a).ended = a.ended) (hr : ∀ a, (f a).resetReq = a.resetReq) :
    Keeps s (s.updAgent c f) := by
  refine ⟨rfl, rfl, fun d => ?_, fun d => ?_, fun _ => Or.inl rfl⟩ <;>
    (simp only [St.agent, St.updAgent]; by_cases h : d = c
     · subst h; simp only [if_true]; cases s.agents d <;> simp [he, hr]
     · simp [h])

theorem keeps_finishGame (s : St) (c : Nat) (a : Act) : Keeps s (finishGame s c a).1 :=
  (keeps_updAgent s c (recordStep a) (fun _ => rfl) (fun _ => rfl)).trans (keeps_emit _ c _)

theorem keeps_finishReset (S : Settings) (s : St) (c : Nat) (t : Bool) : Keeps s (finishReset S s c t).1 :=
  (keeps_updAgent s c restartTraj (fun _ => rfl) (fun _ => rfl)).trans (keeps_emit _ c _)

theorem ended_payOne (S : Settings) (sa : Bool) (a : Agent) : (payOne S sa a).ended = a.ended := by
  unfold payOne; split <;> (try rfl); split <;> (try rfl); split <;> rfl

theorem keeps_rewardTask (S : Settings) (s : St) : Keeps s (rewardTask S s) := by
  refine ⟨rfl, rfl, fun d => ?_, fun d => ?_, fun _ => Or.inl rfl⟩ <;>
    (simp only [St.agent, rewardTask]; cases s.agents d <;> simp [ended_payOne, resetReq_payOne])

theorem keeps_releaseEnd (s : St) (l : List Nat) : Keeps s (releaseEnd s l).1 := by
  induction l generalizing s with
  | nil => exact Keeps.refl s
  | cons c cs ih =>
    simp only [releaseEnd]; split
    · exact (keeps_finishGame s c _).trans (ih _)
    · exact ih s

theorem keeps_releaseStart (S : Settings) (s : St) (l : List Nat) : Keeps s (releaseStart S s l).1 := by
  induction l generalizing s with
  | nil => exact Keeps.refl s
  | cons c cs ih =>
    simp only [releaseStart]; split
    · exact (keeps_emit s c _).trans (ih _)
    · exact (keeps_finishReset S s c _).trans (ih _)
    · exact ih s

/-- after `releaseEnd` over a list nobody in the list still waits at the end barrier -/
theorem releaseEnd_done (s : St) (l : List Nat) (c : Nat) (hc : c ∈ l) : ((releaseEnd s l).1.conn c).waitsEnd = false := by
  induction l generalizing s with
  | nil => cases hc
  | cons d ds ih =>
    simp only [releaseEnd]
    by_cases hd : c = d
    · subst hd
      split
      · -- just answered: stays answered through the rest (Keeps: phases only move to pend = 0)
        rename_i a hconn
        have h1 : ((finishGame s c a).1.conn c).pend = 0 := by
          simp only [finishGame]; unfold emit; split <;> simp [St.setConn, Phase.pend]
        rcases (keeps_releaseEnd (finishGame s c a).1 ds).conn c with h | h
        · rw [h]; exact (pend_zero_flags h1).2.1
        · exact (pend_zero_flags h).2.1
      · rename_i hne
        rcases (keeps_releaseEnd s ds).conn c with h | h
        · rw [h]; cases hp : s.conn c with
          | parked q => cases q with
            | gameEnd a => exact absurd hp (hne a)
            | _ => rfl
          | _ => rfl
        · exact (pend_zero_flags h).2.1
    · have hc' : c ∈ ds := by cases hc with | head => exact absurd rfl hd | tail _ h => exact h
      split
      · exact ih _ hc'
      · exact ih s hc'

theorem releaseStart_done (S : Settings) (s : St) (l : List Nat) (c : Nat) (hc : c ∈ l) :
    ((releaseStart S s l).1.conn c).waitsStart = false := by
  induction l generalizing s with
  | nil => cases hc
  | cons d ds ih =>
    simp only [releaseStart]
    by_cases hd : c = d
    · subst hd
      split
      · have h1 : ((emit s c (createdReply S (s.agent c))).1.conn c).pend = 0 := by
          unfold emit; split <;> simp [St.setConn, Phase.pend]
        rcases (keeps_releaseStart S (emit s c (createdReply S (s.agent c))).1 ds).conn c with h | h
        · rw [h]; exact (pend_zero_flags h1).1
        · exact (pend_zero_flags h).1
      · rename_i t _
        have h1 : ((finishReset S s c t).1.conn c).pend = 0 := by
          simp only [finishReset]; unfold emit; split <;> simp [St.setConn, Phase.pend]
        rcases (keeps_releaseStart S (finishReset S s c t).1 ds).conn c with h | h
        · rw [h]; exact (pend_zero_flags h1).1
        · exact (pend_zero_flags h).1
      · rename_i h1 h2
        rcases (keeps_releaseStart S s ds).conn c with h | h
        · rw [h]; cases hp : s.conn c with
          | parked q => cases q with
            | joinStart => exact absurd hp h1
            | resetStart t => exact absurd hp (h2 t)
            | _ => rfl
          | _ => rfl
        · exact (pend_zero_flags h).1
    · have hc' : c ∈ ds := by cases hc with | head => exact absurd rfl hd | tail _ h => exact h
      split
      · exact ih _ hc'
      · exact ih _ hc'
      · exact ih s hc'

end NSG.Coord

namespace NSG.Coord
open NSG NSG.Defender

theorem keeps_conn_waits {s s' : St} (hk : Keeps s s') (c : Nat) (hp : (s'.conn c).pend = 1) : s'.conn c = s.conn c := by
  rcases hk.conn c with h | h
  · exact h
  · omega

theorem resetTask_conn (S : Settings) (s : St) (o : Oracle) (c : Nat) :
    ((resetTask S s o).conn c).waitsReset = false ∧
    ((resetTask S s o).conn c).waitsEnd = (s.conn c).waitsEnd ∧
    ((resetTask S s o).conn c).pend = (s.conn c).pend := by
  simp only [resetTask]
  split <;> simp_all [Phase.waitsReset, Phase.waitsEnd, Phase.pend]
  all_goals (cases h : s.conn c <;> simp_all [Phase.waitsReset, Phase.waitsEnd, Phase.pend])
  all_goals (rename_i p _; cases p <;> simp_all [Phase.waitsReset, Phase.waitsEnd, Phase.pend])

theorem resetTask_ended (S : Settings) (s : St) (o : Oracle) (c : Nat) (hc : c ∈ s.ids) :
    ((resetTask S s o).agent c).ended = false := by
  simp only [St.agent, resetTask, hc, if_true]
  cases s.agents c <;> simp [resetOne]
  rfl

/-- what `settle` needs to know about the events it is told -/
structure SettlePre (s : St) (e r : Bool) : Prop where
  present : ∀ c, (s.conn c).pend = 1 → c ∈ s.ids
  endExact : ∀ c, (s.conn c).waitsEnd = true → s.allEnded = true → e = true
  resetExact : ∀ c, (s.conn c).waitsReset = true → s.allReset = true → r = true

theorem settle_barrier (S : Settings) (s : St) (o : Oracle) (e r : Bool) (hp : SettlePre s e r) :
    BarrierInv (settle S s o e r).1 := by
  unfold settle
  -- stage 1: reward task + release of the end barrier
  have h1 : Keeps s (if e then releaseEnd (rewardTask S s) s.ids else (s, [])).1 ∧
      (∀ c, ((if e then releaseEnd (rewardTask S s) s.ids else (s, [])).1.conn c).waitsEnd = true →
        (if e then releaseEnd (rewardTask S s) s.ids else (s, [])).1.allEnded = false) := by
    cases he : e
    · refine ⟨Keeps.refl s, fun c hc => ?_⟩
      simp only [Bool.false_eq_true, if_false] at hc ⊢
      cases ha : s.allEnded with
      | false => rfl
      | true => have := hp.endExact c hc ha; rw [he] at this; cases this
    · have hk : Keeps s (releaseEnd (rewardTask S s) s.ids).1 := (keeps_rewardTask S s).trans (keeps_releaseEnd _ _)
      refine ⟨hk, fun c hc => ?_⟩
      simp only [if_true] at hc
      have hpend : ((releaseEnd (rewardTask S s) s.ids).1.conn c).pend = 1 := waits_pend (Or.inr (Or.inl hc))
      have hsame := keeps_conn_waits hk c hpend
      have hin : c ∈ s.ids := hp.present c (hsame ▸ hpend)
      have := releaseEnd_done (rewardTask S s) s.ids c hin
      rw [this] at hc; cases hc
  generalize (if e then releaseEnd (rewardTask S s) s.ids else (s, [])) = p1 at h1
  obtain ⟨s1, o1⟩ := p1
  simp only at h1 ⊢
  obtain ⟨hk1, hend1⟩ := h1
  have hpres1 : ∀ c, (s1.conn c).pend = 1 → c ∈ s1.ids := by
    intro c hc; rw [hk1.ids]; exact hp.present c (keeps_conn_waits hk1 c hc ▸ hc)
  have hres1 : ∀ c, (s1.conn c).waitsReset = true → s1.allReset = true → r = true := by
    intro c hc ha
    have hpend := waits_pend (Or.inr (Or.inr hc))
    rw [keeps_conn_waits hk1 c hpend] at hc
    exact hp.resetExact c hc (hk1.allReset ▸ ha)
  -- stage 2: reset task
  have h2 : (∀ c, ((if r then resetTask S s1 o else s1).conn c).pend = 1 → c ∈ (if r then resetTask S s1 o else s1).ids) ∧
      (∀ c, ((if r then resetTask S s1 o else s1).conn c).waitsEnd = true → (if r then resetTask S s1 o else s1).allEnded = false) ∧
      (∀ c, ((if r then resetTask S s1 o else s1).conn c).waitsReset = true → (if r then resetTask S s1 o else s1).allReset = false) := by
    cases hr : r
    · simp only [Bool.false_eq_true, if_false]
      refine ⟨hpres1, hend1, fun c hc => ?_⟩
      cases ha : s1.allReset with
      | false => rfl
      | true => have := hres1 c hc ha; rw [hr] at this; cases this
    · simp only [if_true]
      refine ⟨fun c hc => ?_, fun c hc => ?_, fun c hc => ?_⟩
      · rw [(resetTask_conn S s1 o c).2.2] at hc; exact hpres1 c hc
      · rw [(resetTask_conn S s1 o c).2.1] at hc
        have hin : c ∈ s1.ids := hpres1 c (waits_pend (Or.inr (Or.inl hc)))
        have hfalse := resetTask_ended S s1 o c hin
        simp only [St.allEnded, List.all_eq_false]
        exact ⟨c, hin, by simpa using hfalse⟩
      · rw [(resetTask_conn S s1 o c).1] at hc; cases hc
  generalize (if r then resetTask S s1 o else s1) = s2 at h2
  obtain ⟨hpres2, hend2, hres2⟩ := h2
  -- stage 3: release of the start barrier
  by_cases hs : s2.startEv = true
  · simp only [hs, if_true]
    have hk3 := keeps_releaseStart S s2 s2.ids
    generalize hp3 : releaseStart S s2 s2.ids = p3 at hk3
    obtain ⟨s3, o3⟩ := p3
    refine ⟨fun c hc => ?_, fun c hc => ?_, fun c hc => ?_, fun c hc => ?_⟩
    · rw [hk3.ids]; exact hpres2 c (keeps_conn_waits hk3 c hc ▸ hc)
    · have hpend := waits_pend (Or.inl hc)
      have hin : c ∈ s2.ids := hpres2 c (keeps_conn_waits hk3 c hpend ▸ hpend)
      have := releaseStart_done S s2 s2.ids c hin
      rw [hp3] at this; rw [this] at hc; cases hc
    · have hpend := waits_pend (Or.inr (Or.inl hc))
      rw [hk3.allEnded]; exact hend2 c (keeps_conn_waits hk3 c hpend ▸ hc)
    · have hpend := waits_pend (Or.inr (Or.inr hc))
      rw [hk3.allReset]; exact hres2 c (keeps_conn_waits hk3 c hpend ▸ hc)
  · simp only [hs, if_false]
    exact ⟨hpres2, fun c _ => by simpa using hs, hend2, hres2⟩

end NSG.Coord

namespace NSG.Coord
open NSG NSG.Defender

/-- membership (`ids`, presence in the tables) untouched -/
def SameMembers (s s' : St) : Prop := s'.ids = s.ids ∧ ∀ c, s'.inGame c = s.inGame c

theorem SameMembers.refl (s : St) : SameMembers s s := ⟨rfl, fun _ => rfl⟩
theorem SameMembers.trans {a b c : St} (h1 : SameMembers a b) (h2 : SameMembers b c) : SameMembers a c :=
  ⟨h2.1.trans h1.1, fun d => (h2.2 d).trans (h1.2 d)⟩

theorem sm_setConn (s : St) (c : Nat) (p : Phase) : SameMembers s (s.setConn c p) := ⟨rfl, fun _ => rfl⟩
theorem sm_emit (s : St) (c : Nat) (r : Reply) : SameMembers s (emit s c r).1 := by
  unfold emit; split <;> exact sm_setConn s c _
theorem sm_updAgent (s : St) (c : Nat) (f : Agent → Agent) : SameMembers s (s.updAgent c f) := by
  refine ⟨rfl, fun d => ?_⟩
  simp only [St.inGame, St.updAgent]; by_cases h : d = c
  · subst h; simp only [if_true]; cases s.agents d <;> rfl
  · simp [h]
theorem sm_finishGame (s : St) (c : Nat) (a : Act) : SameMembers s (finishGame s c a).1 :=
  (sm_updAgent s c _).trans (sm_emit _ c _)
theorem sm_finishReset (S : Settings) (s : St) (c : Nat) (t : Bool) : SameMembers s (finishReset S s c t).1 :=
  (sm_updAgent s c _).trans (sm_emit _ c _)
theorem sm_rewardTask (S : Settings) (s : St) : SameMembers s (rewardTask S s) := by
  refine ⟨rfl, fun d => ?_⟩; simp only [St.inGame, rewardTask]; cases s.agents d <;> rfl
theorem sm_resetTask (S : Settings) (s : St) (o : Oracle) : SameMembers s (resetTask S s o) := by
  refine ⟨rfl, fun d => ?_⟩; simp only [St.inGame, resetTask]; split <;> (cases s.agents d <;> rfl)
theorem sm_releaseEnd (s : St) (l : List Nat) : SameMembers s (releaseEnd s l).1 := by
  induction l generalizing s with
  | nil => exact SameMembers.refl s
  | cons c cs ih => simp only [releaseEnd]; split
                    · exact (sm_finishGame s c _).trans (ih _)
                    · exact ih s
theorem sm_releaseStart (S : Settings) (s : St) (l : List Nat) : SameMembers s (releaseStart S s l).1 := by
  induction l generalizing s with
  | nil => exact SameMembers.refl s
  | cons c cs ih => simp only [releaseStart]; split
                    · exact (sm_emit s c _).trans (ih _)
                    · exact (sm_finishReset S s c _).trans (ih _)
                    · exact ih s
theorem sm_settle (S : Settings) (s : St) (o : Oracle) (e r : Bool) : SameMembers s (settle S s o e r).1 := by
  unfold settle
  have h1 : SameMembers s (if e then releaseEnd (rewardTask S s) s.ids else (s, [])).1 := by
    cases e
    · exact SameMembers.refl s
    · exact (sm_rewardTask S s).trans (sm_releaseEnd _ _)
  generalize (if e then releaseEnd (rewardTask S s) s.ids else (s, [])) = p1 at h1
  obtain ⟨s1, o1⟩ := p1
  simp only at h1 ⊢
  have h2 : SameMembers s1 (if r then resetTask S s1 o else s1) := by
    cases r
    · exact SameMembers.refl s1
    · exact sm_resetTask S s1 o
  generalize (if r then resetTask S s1 o else s1) = s2 at h2
  have h3 : SameMembers s2 (if s2.startEv then releaseStart S s2 s2.ids else (s2, [])).1 := by
    split
    · exact sm_releaseStart S s2 _
    · exact SameMembers.refl s2
  generalize (if s2.startEv then releaseStart S s2 s2.ids else (s2, [])) = p3 at h3
  obtain ⟨s3, o3⟩ := p3
  exact h1.trans (h2.trans h3)

structure FullInv (s : St) : Prop where
  barrier : BarrierInv s
  member : ∀ c, s.inGame c = true → c ∈ s.ids

theorem FullInv.of_keeps {s s' : St} (hi : FullInv s) (hk : Keeps s s') (hm : SameMembers s s') : FullInv s' :=
  ⟨hi.barrier.keeps hk, fun c hc => by rw [hm.1]; exact hi.member c (hm.2 c ▸ hc)⟩

theorem fullInv_settle (S : Settings) (s : St) (o : Oracle) (e r : Bool) (hp : SettlePre s e r)
    (hm : ∀ c, s.inGame c = true → c ∈ s.ids) : FullInv (settle S s o e r).1 :=
  ⟨settle_barrier S s o e r hp, fun c hc => by
    have := sm_settle S s o e r
    rw [this.1]; exact hm c (this.2 c ▸ hc)⟩

theorem allEnded_closeConn (s : St) (c : Nat) : (closeConn s c).allEnded = s.allEnded := rfl
theorem allReset_closeConn (s : St) (c : Nat) : (closeConn s c).allReset = s.allReset := rfl
theorem conn_closeConn (s : St) (c d : Nat) (h : d ≠ c) : (closeConn s c).conn d = s.conn d := by simp [closeConn, St.setConn, h]
theorem conn_closeConn_self (s : St) (c : Nat) : (closeConn s c).conn c = .closed := by simp [closeConn, St.setConn]

/-- leaving: removal + close + settle -/
theorem fullInv_leave (S : Settings) (s : St) (c : Nat) (o : Oracle) (hi : FullInv s) :
    FullInv (settle S (closeConn (removeAgent s c).1 c) o (removeAgent s c).2.1 (removeAgent s c).2.2).1 := by
  by_cases hg : s.inGame c = true
  · -- the state after removal
    let s' : St := { s with agents := fun d => if d = c then none else s.agents d, ids := s.ids.filter (fun d => d ≠ c), startEv := false }
    have hrem : removeAgent s c = (s', s'.allEnded, !(s.ids.filter (fun d => d ≠ c)).isEmpty && s'.allReset) := by
      simp [removeAgent, hg, s']
    rw [hrem]
    have hmem : ∀ d, d ≠ c → d ∈ s.ids → d ∈ s'.ids := fun d hdc hd => List.mem_filter.2 ⟨hd, by simpa using hdc⟩
    apply fullInv_settle
    · refine ⟨fun d hd => ?_, fun d hd ha => ?_, fun d hd ha => ?_⟩
      · by_cases hdc : d = c
        · subst hdc; rw [conn_closeConn_self] at hd; simp [Phase.pend] at hd
        · rw [conn_closeConn _ _ _ hdc] at hd
          exact hmem d hdc (hi.barrier.present d hd)
      · rw [allEnded_closeConn] at ha; exact ha
      · by_cases hdc : d = c
        · subst hdc; rw [conn_closeConn_self] at hd; simp [Phase.waitsReset] at hd
        · rw [conn_closeConn _ _ _ hdc] at hd
          have hin : d ∈ s.ids.filter (fun d => d ≠ c) := hmem d hdc (hi.barrier.present d (waits_pend (Or.inr (Or.inr hd))))
          have hne : (s.ids.filter (fun d => d ≠ c)).isEmpty = false := by
            cases h : s.ids.filter (fun d => d ≠ c) with
            | nil => rw [h] at hin; cases hin
            | cons _ _ => rfl
          rw [allReset_closeConn] at ha
          have ha' : s'.allReset = true := ha
          show (!(s.ids.filter (fun d => d ≠ c)).isEmpty && s'.allReset) = true
          rw [hne, ha']; rfl
    · intro d hd
      have hd' : s'.inGame d = true := hd
      by_cases hdc : d = c
      · subst hdc; simp [St.inGame, s'] at hd'
      · have : s.inGame d = true := by simpa [St.inGame, s', hdc] using hd'
        exact hmem d hdc (hi.member d this)
  · have hrem : removeAgent s c = (s, false, false) := by simp [removeAgent, hg]
    rw [hrem]
    apply fullInv_settle
    · refine ⟨fun d hd => ?_, fun d hd ha => ?_, fun d hd ha => ?_⟩
      · by_cases hdc : d = c
        · subst hdc; rw [conn_closeConn_self] at hd; simp [Phase.pend] at hd
        · rw [conn_closeConn _ _ _ hdc] at hd; exact hi.barrier.present d hd
      · by_cases hdc : d = c
        · subst hdc; rw [conn_closeConn_self] at hd; simp [Phase.waitsEnd] at hd
        · rw [conn_closeConn _ _ _ hdc] at hd
          rw [allEnded_closeConn] at ha
          rw [hi.barrier.ended d hd] at ha; cases ha
      · by_cases hdc : d = c
        · subst hdc; rw [conn_closeConn_self] at hd; simp [Phase.waitsReset] at hd
        · rw [conn_closeConn _ _ _ hdc] at hd
          rw [allReset_closeConn] at ha
          rw [hi.barrier.reset d hd] at ha; cases ha
    · intro d hd; exact hi.member d hd

end NSG.Coord

namespace NSG.Coord
open NSG NSG.Defender

theorem allEnded_setConn (s : St) (c : Nat) (p : Phase) : (s.setConn c p).allEnded = s.allEnded := rfl

theorem pend_reading {s : St} {c : Nat} (h : s.conn c = .reading) : (s.conn c).pend = 0 := by simp [h, Phase.pend]

/-- the handlers that answer directly -/
theorem fullInv_emit (s : St) (c : Nat) (r : Reply) (hi : FullInv s) : FullInv (emit s c r).1 :=
  hi.of_keeps (keeps_emit s c r) (sm_emit s c r)

theorem agent_updAgent_other (s : St) (c d : Nat) (f : Agent → Agent) (h : d ≠ c) : (s.updAgent c f).agent d = s.agent d := by
  simp [St.agent, St.updAgent, h]

theorem agent_updAgent_self (s : St) (c : Nat) (f : Agent → Agent) (a : Agent) (h : s.agents c = some a) :
    (s.updAgent c f).agent c = f a := by
  simp [St.agent, St.updAgent, h]

theorem inGame_agent (s : St) (c : Nat) (h : s.inGame c = true) : s.agents c = some (s.agent c) := by
  simp only [St.inGame] at h; simp only [St.agent]
  cases hc : s.agents c <;> simp_all

/-- **One delivery preserves the barrier invariant.** -/
theorem fullInv_deliver (S : Settings) (s : St) (e : Ev) (hi : FullInv s) : FullInv (deliver S s e).1 := by
  cases e with
  | connect c =>
    simp only [deliver]
    split
    · rename_i hc
      split
      · refine hi.of_keeps ⟨rfl, rfl, fun _ => rfl, fun _ => rfl, fun d => ?_⟩ (sm_setConn s c _)
        simp only [St.setConn]; by_cases h : d = c <;> simp [h, Phase.pend]
      · refine hi.of_keeps ⟨rfl, rfl, fun _ => rfl, fun _ => rfl, fun d => ?_⟩ ⟨rfl, fun _ => rfl⟩
        simp only [St.setConn]; by_cases h : d = c <;> simp [h, Phase.pend]
    · exact hi
  | armWriteFault c => exact hi.of_keeps ⟨rfl, rfl, fun _ => rfl, fun _ => rfl, fun _ => Or.inl rfl⟩ ⟨rfl, fun _ => rfl⟩
  | leave c o =>
    simp only [deliver]
    split
    · exact fullInv_leave S s c o hi
    · exact fullInv_leave S s c o hi
    · exact hi
  | msg c m o =>
    simp only [deliver]
    split
    case h_2 => exact hi
    case h_1 hc =>
      cases m with
      | bad => exact fullInv_emit s c _ hi
      | quit => exact fullInv_leave S s c o hi
      | join n r =>
        simp only [handle]
        split
        · exact fullInv_emit s c _ hi
        · rename_i hin
          cases r with
          | none => exact fullInv_emit s c _ hi
          | some r =>
            simp only
            -- the state handed to settle: new agent c, c appended to ids, maybe the start event, c parked
            have key : ∀ (b : Bool), FullInv (settle S
                (({ (s.setAgent c (newAgent n r o.initView)) with ids := s.ids ++ [c], startEv := b } : St).setConn c (.parked .joinStart)) o false false).1 := by
              intro b
              have hcin : c ∈ s.ids ++ [c] := by simp
              have hag : (({ (s.setAgent c (newAgent n r o.initView)) with ids := s.ids ++ [c], startEv := b } : St).setConn c (.parked .joinStart)).agent c
                  = newAgent n r o.initView := by simp [St.agent, St.setConn, St.setAgent]
              apply fullInv_settle
              · refine ⟨fun d hd => ?_, fun d _ ha => ?_, fun d _ ha => ?_⟩
                · by_cases hdc : d = c
                  · subst hdc; exact hcin
                  · simp only [St.setConn, hdc, if_false] at hd
                    exact List.mem_append_left _ (hi.barrier.present d hd)
                · exfalso
                  have := (List.all_eq_true.1 ha) c hcin
                  rw [hag] at this; simp [newAgent] at this
                · exfalso
                  have := (List.all_eq_true.1 ha) c hcin
                  rw [hag] at this; simp [newAgent] at this
              · intro d hd
                by_cases hdc : d = c
                · subst hdc; exact hcin
                · have : s.inGame d = true := by simpa [St.inGame, St.setConn, St.setAgent, hdc] using hd
                  exact List.mem_append_left _ (hi.member d this)
            split
            · have := key true
              simpa [St.setAgent, St.setConn] using this
            · have := key s.startEv
              simpa [St.setAgent, St.setConn] using this
      | reset t =>
        simp only [handle]
        split
        · exact fullInv_emit s c _ hi
        · rename_i hin
          have hg : s.inGame c = true := by simpa using hin
          have hag := inGame_agent s c hg
          apply fullInv_settle
          · refine ⟨fun d hd => ?_, fun d hd ha => ?_, fun d hd ha => ?_⟩
            · by_cases hdc : d = c
              · subst hdc; exact hi.member d hg
              · simp only [St.setConn, hdc, if_false, St.updAgent] at hd; exact hi.barrier.present d hd
            · exfalso
              by_cases hdc : d = c
              · subst hdc; simp [St.setConn, Phase.waitsEnd] at hd
              · simp only [St.setConn, hdc, if_false, St.updAgent] at hd
                have h0 := hi.barrier.ended d hd
                have : s.allEnded = true := by
                  have ha' : (s.updAgent c (fun ag => { ag with resetReq := true })).allEnded = true := ha
                  simp only [St.allEnded, List.all_eq_true] at ha' ⊢
                  intro x hx
                  have := ha' x hx
                  by_cases hxc : x = c
                  · subst hxc; rw [agent_updAgent_self s x _ _ hag] at this; exact this
                  · rw [agent_updAgent_other s c x _ hxc] at this; exact this
                rw [this] at h0; cases h0
            · exact ha
          · intro d hd
            have := (sm_updAgent s c (fun ag => { ag with resetReq := true })).2 d
            exact hi.member d (this ▸ hd)
      | game a =>
        simp only [handle]
        split
        · exact fullInv_emit s c _ hi
        · rename_i hin
          have hg : s.inGame c = true := by simpa using hin
          have hag := inGame_agent s c hg
          split
          · exact fullInv_emit s c _ hi
          · rename_i hend
            have hne : (s.agent c).ended = false := by simpa using hend
            split
            · exact fullInv_emit s c _ hi
            · rename_i v' hv
              split
              · rename_i hE
                -- final: park at the end barrier and let the background run with the exact end event
                apply fullInv_settle
                · refine ⟨fun d hd => ?_, fun d hd ha => ?_, fun d hd ha => ?_⟩
                  · by_cases hdc : d = c
                    · subst hdc; exact hi.member d hg
                    · simp only [St.setConn, hdc, if_false, St.updAgent] at hd; exact hi.barrier.present d hd
                  · exact ha
                  · exfalso
                    by_cases hdc : d = c
                    · subst hdc; simp [St.setConn, Phase.waitsReset] at hd
                    · simp only [St.setConn, hdc, if_false, St.updAgent] at hd
                      have h0 := hi.barrier.reset d hd
                      have : s.allReset = true := by
                        have ha' : (s.updAgent c (fun _ => { playedAgent S (s.agent c) a v' o.roll with
                            ended := episodeEnds s c (playedAgent S (s.agent c) a v' o.roll) })).allReset = true := ha
                        simp only [St.allReset, List.all_eq_true] at ha' ⊢
                        intro x hx
                        have := ha' x hx
                        by_cases hxc : x = c
                        · subst hxc
                          rw [agent_updAgent_self s x _ _ hag] at this
                          simpa [playedAgent] using this
                        · rw [agent_updAgent_other s c x _ hxc] at this; exact this
                      rw [this] at h0; cases h0
                · intro d hd
                  have := (sm_updAgent s c (fun _ => { playedAgent S (s.agent c) a v' o.roll with ended := episodeEnds s c (playedAgent S (s.agent c) a v' o.roll) })).2 d
                  exact hi.member d (this ▸ hd)
              · rename_i hE
                have hE' : episodeEnds s c (playedAgent S (s.agent c) a v' o.roll) = false := by simpa using hE
                -- non-final: the ended / request flags of c are what they were
                have hk : Keeps s (s.updAgent c (fun _ => { playedAgent S (s.agent c) a v' o.roll with ended := episodeEnds s c (playedAgent S (s.agent c) a v' o.roll) })) := by
                  refine ⟨rfl, rfl, fun d => ?_, fun d => ?_, fun _ => Or.inl rfl⟩
                  · by_cases hdc : d = c
                    · subst hdc; rw [agent_updAgent_self s d _ _ hag]; simp [hE', hne]
                    · rw [agent_updAgent_other s c d _ hdc]
                  · by_cases hdc : d = c
                    · subst hdc; rw [agent_updAgent_self s d _ _ hag]; simp [playedAgent]
                    · rw [agent_updAgent_other s c d _ hdc]
                exact (hi.of_keeps hk (sm_updAgent s c _)).of_keeps (keeps_finishGame _ c a) (sm_finishGame _ c a)

theorem fullInv_init : FullInv init :=
  ⟨⟨fun c h => by simp [init, Phase.pend] at h, fun c h => by simp [init, Phase.waitsStart] at h,
    fun c h => by simp [init, Phase.waitsEnd] at h, fun c h => by simp [init, Phase.waitsReset] at h⟩,
   fun c h => by simp [init, St.inGame] at h⟩

/-- **At every quiescent point of every history** a parked request waits at a barrier that is not met. -/
theorem fullInv_run (S : Settings) (es : List Ev) : FullInv (run S init es).1 := by
  suffices H : ∀ s, FullInv s → FullInv (run S s es).1 from H init fullInv_init
  induction es with
  | nil => intro s h; simpa [run] using h
  | cons e es ih => intro s h; simp only [run]; exact ih _ (fullInv_deliver S s e h)

end NSG.Coord
