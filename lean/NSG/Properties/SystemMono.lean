import NSG.Properties.SystemInv
/-!
# C11 at system level: within an episode an agent's view never shrinks

`C11_mono` is a statement about one world step.  Here it is lifted to the closed system (coordinator + world): for EVERY
external event that neither completes a reset nor is a JoinGame message of that very connection, the view the coordinator holds for any
connection after the event contains the view it held before - whoever sent the event, whatever it did to the shared
tables - and therefore along every event sequence without completed resets and joins.
-/
namespace NSG.Sys
open NSG NSG.Coord NSG.Defender World

/-- a JoinGame message sent on connection `d` itself -/
def isJoinOf (d : Nat) : SEv → Bool
  | .msg c (.join _ _) _ => c == d
  | _ => false

/-- one event -/
theorem sys_view_grows (E : Env) (S : Settings) (sys : SysSt) (ev : SEv) (d : Nat) (v v' : View)
    (hm : ∀ x, sys.st.inGame x = true → x ∈ sys.st.ids)
    (hnf : resetFired sys.st (toEv E sys ev) = false) (hnj : isJoinOf d ev = false)
    (hb : sys.st.viewOf d = some v) (ha : (sysDeliver E S sys ev).1.st.viewOf d = some v') : v.le v' := by
  rcases views_after_deliver S sys.st (toEv E sys ev) hm d v' ha with ⟨hf, _⟩ | ⟨_, hold | hown⟩
  · rw [hnf] at hf; cases hf
  · rw [hb] at hold; cases hold; exact View.le_refl _
  · rcases hown with ⟨n, r, o, he, _⟩ | ⟨a, o, he, _, hin, _, hsv⟩
    · -- a JoinGame message: excluded
      cases ev <;> simp [toEv, isJoinOf] at he hnj
      obtain ⟨rfl, rfl, _⟩ := he
      simp [isJoinOf] at hnj
    · -- the connection's own executed game action: one world step from the view held before
      cases ev with
      | connect c => simp [toEv] at he
      | leave c => simp [toEv] at he
      | armWriteFault c => simp [toEv] at he
      | msg c m roll =>
        simp only [toEv, Ev.msg.injEq] at he
        obtain ⟨rfl, rfl, rfl⟩ := he
        have hv : sys.st.viewOf c = some (sys.st.agent c).view := agent_of_inGame hin
        rw [hb] at hv; cases hv
        simp only [oracle] at hsv
        cases hsem : E.sem a with
        | none => rw [hsem] at hsv; cases hsv
        | some ga =>
          rw [hsem] at hsv
          simp only [Option.bind_some] at hsv
          cases hst : step sys.w (sys.st.agent c).view ga with
          | none => rw [hst] at hsv; cases hsv
          | some p =>
            obtain ⟨w', v''⟩ := p
            rw [hst] at hsv
            simp only [Option.map_some, Option.some.injEq] at hsv
            subst hsv
            exact C11_mono _ _ _ _ _ hst

theorem View.le_trans {a b c : View} (h1 : a.le b) (h2 : b.le c) : a.le c :=
  ⟨fun x h => h2.nets x (h1.nets x h), fun x h => h2.known x (h1.known x h), fun x h => h2.controlled x (h1.controlled x h),
   fun k x h => h2.data k x (h1.data k x h), fun k x h => h2.blocks k x (h1.blocks k x h),
   fun x h => h2.dataKeys x (h1.dataKeys x h), fun x h => h2.blockKeys x (h1.blockKeys x h)⟩

/-- an event sequence in which no delivery completes a reset and `d` itself sends no JoinGame, and connection `d` holds a
view at every point of it -/
def Quiet (E : Env) (S : Settings) (d : Nat) : SysSt → List SEv → Prop
  | _, [] => True
  | sys, e :: es =>
    resetFired sys.st (toEv E sys e) = false ∧ isJoinOf d e = false ∧
    (∃ u, (sysDeliver E S sys e).1.st.viewOf d = some u) ∧ Quiet E S d (sysDeliver E S sys e).1 es

/-- **C11 at system level**: along every such sequence - any mix of game actions, refused and malformed messages,
reset requests that do not complete, connections, joins, departures and write faults of ANY other agents - the view held for `d`
at the end contains the view held at the beginning. -/
theorem sys_view_grows_run (E : Env) (S : Settings) (hf : E.w0.Fresh) (hs : ∀ r, Inv E.w0 (E.start r)) (d : Nat) :
    ∀ (es : List SEv) (sys : SysSt), SysInv E sys →
      Quiet E S d sys es → ∀ v v', sys.st.viewOf d = some v → (sysRun E S sys es).1.st.viewOf d = some v' → v.le v' := by
  intro es
  induction es with
  | nil =>
    intro sys _ _ v v' hb ha
    simp only [sysRun] at ha
    rw [hb] at ha; cases ha; exact View.le_refl _
  | cons e es ih =>
    intro sys hi hq v v' hb ha
    obtain ⟨hnf, hnj, ⟨u, hu⟩, hq'⟩ := hq
    simp only [sysRun] at ha
    have h1 : v.le u := sys_view_grows E S sys e d v u hi.full.member hnf hnj hb hu
    exact View.le_trans h1 (ih _ (sysInv_deliver E S hf hs sys e hi) hq' u v' hu ha)

/-- from the start of the system: every reachable state satisfies the invariant, so the statement holds after any history -/
theorem sys_view_grows_reachable (E : Env) (S : Settings) (hf : E.w0.Fresh) (hs : ∀ r, Inv E.w0 (E.start r)) (d : Nat)
    (history es : List SEv) (hq : Quiet E S d (sysRun E S (sysInit E) history).1 es) (v v' : View)
    (hb : (sysRun E S (sysInit E) history).1.st.viewOf d = some v)
    (ha : (sysRun E S (sysRun E S (sysInit E) history).1 es).1.st.viewOf d = some v') : v.le v' :=
  sys_view_grows_run E S hf hs d es _ (sysInv_run E S hf hs history) hq v v' hb ha

end NSG.Sys

namespace NSG.Sys
open NSG NSG.Coord NSG.Defender World
/-! non-vacuity: one attacker joins a one-player game on a world whose only host holds one datapoint and plays FindData;
the sequence `[game FindData]` is `Quiet` after the history `[connect, join]`, and the view really grows -/
def w2 : World :=
  { hostname := [(1, "h")], nets := [], services := [("h", [])], data := [("h", [⟨"u", "d", 0, ""⟩])], fw := [(1, [1])], blocks := [],
    dataOrig := [("h", [⟨"u", "d", 0, ""⟩])], fwOrig := [(1, [1])] }
def v0 : View := { controlled := [1], known := [1], services := [], data := [], nets := [], blocks := [] }
def E2 : Env := ⟨w2, fun _ => some (.findData 1 1), fun _ => v0⟩
def g2 : Goal := { nets := [], known := [], controlled := [99], services := [], data := [], blocks := [] }
def S2 : Settings := { required := 1, maxSteps := (fun _ => none), rStep := 0, rSuccess := 0, rFail := 0, goal := (fun _ => g2), defender := none, tw := 5, storeTraj := false }
def hist2 : List SEv := [.connect 0, .msg 0 (.join "a" (some .attacker)) ⟨1, 2⟩]
def evs2 : List SEv := [.msg 0 (.game ⟨.findData, 0⟩) ⟨1, 2⟩]

example : w2.Fresh ∧ Inv w2 v0 := ⟨⟨rfl, rfl, rfl⟩, (invB_iff w2 v0).1 (by decide)⟩
example : (sysRun E2 S2 (sysInit E2) hist2).1.st.viewOf 0 = some v0 := rfl
example : Quiet E2 S2 0 (sysRun E2 S2 (sysInit E2) hist2).1 evs2 :=
  ⟨by decide, rfl, ⟨_, rfl⟩, trivial⟩
example : (sysRun E2 S2 (sysRun E2 S2 (sysInit E2) hist2).1 evs2).1.st.viewOf 0
    = some { v0 with data := [(1, [⟨"u", "d", 0, ""⟩])] } := rfl
end NSG.Sys

namespace NSG.Sys
open NSG NSG.Coord NSG.Defender World

/-- **C02 at system level, whole delivery**: a game message whose meant action has a false precondition (for the view
the coordinator holds for the sender and the shared tables) leaves the shared tables and the view held for EVERY
connection exactly as they were - whatever else the coordinator does with the message (count a step, end the episode). -/
theorem sys_refused_nothing_changes (E : Env) (S : Settings) (sys : SysSt) (c : Nat) (a : Act) (ga : GAction) (roll : Frac)
    (hm : ∀ x, sys.st.inGame x = true → x ∈ sys.st.ids)
    (hsem : E.sem a = some ga) (hp : pre sys.w (sys.st.agent c).view ga = false) :
    (sysDeliver E S sys (.msg c (.game a) roll)).1.w = sys.w ∧
    ∀ d v, (sysDeliver E S sys (.msg c (.game a) roll)).1.st.viewOf d = some v → sys.st.viewOf d = some v := by
  have hnf : resetFired sys.st (toEv E sys (.msg c (.game a) roll)) = false := by simp [toEv, resetFired]
  constructor
  · show nextWorld E sys (.msg c (.game a) roll) = sys.w
    unfold nextWorld
    rw [hnf]
    simp only [Bool.false_eq_true, if_false, stepWorld]
    cases hx : executes E sys c a with
    | none => rfl
    | some p => obtain ⟨w', v'⟩ := p; exact (sys_refused_no_effect E sys c a ga w' v' hsem hp hx).1
  · intro d v hd
    rcases views_after_deliver S sys.st (toEv E sys (.msg c (.game a) roll)) hm d v hd with ⟨hf, _⟩ | ⟨_, hold | hown⟩
    · rw [hnf] at hf; cases hf
    · exact hold
    · rcases hown with ⟨n, r, o, he, _⟩ | ⟨a', o, he, _, hin, _, hsv⟩
      · simp [toEv] at he
      · simp only [toEv, Ev.msg.injEq, Msg.game.injEq] at he
        obtain ⟨rfl, rfl, rfl⟩ := he
        simp only [oracle, hsem, Option.bind_some] at hsv
        rw [C02_no_effect sys.w (sys.st.agent c).view ga hp] at hsv
        simp only [Option.map_some, Option.some.injEq] at hsv
        rw [← hsv]
        exact agent_of_inGame hin

end NSG.Sys

namespace NSG.Sys
open NSG NSG.Coord NSG.Defender World

/-- **C10 at system level**: a departure (connection closed or lost, at any point of the protocol) that does not complete a
reset leaves the shared tables untouched, and every view still held afterwards was held before by the same connection. -/
theorem sys_leave_frame (E : Env) (S : Settings) (sys : SysSt) (c : Nat)
    (hm : ∀ x, sys.st.inGame x = true → x ∈ sys.st.ids)
    (hnf : resetFired sys.st (toEv E sys (.leave c)) = false) :
    (sysDeliver E S sys (.leave c)).1.w = sys.w ∧
    ∀ d v, (sysDeliver E S sys (.leave c)).1.st.viewOf d = some v → sys.st.viewOf d = some v := by
  constructor
  · show nextWorld E sys (.leave c) = sys.w
    unfold nextWorld
    rw [hnf]
    simp [stepWorld]
  · intro d v hd
    rcases views_after_deliver S sys.st (toEv E sys (.leave c)) hm d v hd with ⟨hf, _⟩ | ⟨_, hold | hown⟩
    · rw [hnf] at hf; cases hf
    · exact hold
    · rcases hown with ⟨n, r, o, he, _⟩ | ⟨a', o, he, _⟩ <;> simp [toEv] at he

/-- ... and the same for messages that are not game actions (malformed, JoinGame of somebody else, ResetGame that does not
complete the reset, QuitGame): the shared tables are untouched -/
theorem sys_nongame_world_same (E : Env) (S : Settings) (sys : SysSt) (ev : SEv)
    (hng : ∀ c a roll, ev ≠ .msg c (.game a) roll)
    (hnf : resetFired sys.st (toEv E sys ev) = false) : (sysDeliver E S sys ev).1.w = sys.w := by
  show nextWorld E sys ev = sys.w
  unfold nextWorld
  rw [hnf]
  cases ev with
  | msg c m roll =>
    cases m with
    | game a => exact absurd rfl (hng c a roll)
    | _ => simp [stepWorld]
  | _ => simp [stepWorld]

end NSG.Sys
