import NSG.Properties.C02
/-! # C08 — a reset restores the world: episodes are independent of earlier episodes -/
namespace NSG

/-- run a sequence of actions by arbitrary agents (each with an arbitrary view) through the world;
a step that raises leaves the world as it was (the coordinator answers BAD_REQUEST). -/
def runWorld (w : World) : List (View × GAction) → World
  | [] => w
  | (v, a) :: xs =>
    match step w v a with
    | some (w', _) => runWorld w' xs
    | none => runWorld w xs

/-- a world as the loader leaves it: working tables equal to the pristine copies, no blocks -/
def World.Fresh (w : World) : Prop := w.data = w.dataOrig ∧ w.fw = w.fwOrig ∧ w.blocks = []

theorem C08_pristine (w : World) (v : View) (a : GAction) (w' : World) (v' : View)
    (h : step w v a = some (w', v')) : w'.dataOrig = w.dataOrig ∧ w'.fwOrig = w.fwOrig :=
  let ⟨_, _, _, h4, h5⟩ := C02_world_frame w v a w' v' h; ⟨h4, h5⟩

theorem runWorld_frame (w : World) (xs : List (View × GAction)) :
    (runWorld w xs).hostname = w.hostname ∧ (runWorld w xs).nets = w.nets ∧
    (runWorld w xs).services = w.services ∧ (runWorld w xs).dataOrig = w.dataOrig ∧
    (runWorld w xs).fwOrig = w.fwOrig := by
  induction xs generalizing w with
  | nil => simp [runWorld]
  | cons p xs ih =>
    obtain ⟨v, a⟩ := p
    simp only [runWorld]
    cases h : step w v a with
    | none => exact ih w
    | some r =>
      obtain ⟨w', v'⟩ := r
      obtain ⟨h1, h2, h3, h4, h5⟩ := C02_world_frame w v a w' v' h
      obtain ⟨i1, i2, i3, i4, i5⟩ := ih w'
      exact ⟨i1.trans h1, i2.trans h2, i3.trans h3, i4.trans h4, i5.trans h5⟩

/-- After any sequence of actions of any agents - including successful exfiltrations and BlockIP -
a reset gives back exactly the world the episode started from. -/
theorem C08_reset (w0 : World) (hf : w0.Fresh) (xs : List (View × GAction)) :
    (runWorld w0 xs).reset = w0 := by
  obtain ⟨h1, h2, h3, h4, h5⟩ := runWorld_frame w0 xs
  obtain ⟨f1, f2, f3⟩ := hf
  cases w0
  simp_all [World.reset]

/-- Consequently (static addresses) any script of actions yields the same observations in every
episode, whatever happened in the episodes before: the next episode runs on an equal world. -/
theorem C08_episodes (w0 : World) (hf : w0.Fresh) (earlier : List (View × GAction)) (v : View) (a : GAction) :
    step (runWorld w0 earlier).reset v a = step w0 v a := by
  rw [C08_reset w0 hf earlier]

/-- and the reset world is again fresh, so the argument repeats for any number of episodes -/
theorem C08_reset_fresh (w : World) : w.reset.Fresh := by simp [World.reset, World.Fresh]

theorem C08_many (w0 : World) (hf : w0.Fresh) (episodes : List (List (View × GAction))) :
    episodes.foldl (fun w ep => (runWorld w ep).reset) w0 = w0 := by
  induction episodes with
  | nil => rfl
  | cons ep eps ih => simp [List.foldl, C08_reset w0 hf ep, ih]

/-- non-vacuity: a fresh world in which an exfiltration and a block change the tables, then reset -/
def exW : World :=
  { hostname := [(1, "a"), (2, "b")], nets := [(⟨0, 24⟩, [1, 2])], services := [],
    data := [("a", [⟨"u", "d", 0, ""⟩])], fw := [(1, [1, 2]), (2, [1, 2])], blocks := [],
    dataOrig := [("a", [⟨"u", "d", 0, ""⟩])], fwOrig := [(1, [1, 2]), (2, [1, 2])] }
def exV : View := { controlled := [1, 2], known := [1, 2], services := [], data := [(1, [⟨"u", "d", 0, ""⟩])], nets := [], blocks := [] }

example : exW.Fresh := by simp [World.Fresh, exW]
example : (runWorld exW [(exV, .exfil 1 2 ⟨"u", "d", 0, ""⟩), (exV, .block 1 2 1)]).data ≠ exW.data := by decide
example : (runWorld exW [(exV, .exfil 1 2 ⟨"u", "d", 0, ""⟩), (exV, .block 1 2 1)]).allowed 2 1 = false := by decide

end NSG
