import NSG.Properties.C04Budget
/-! # C16 / C19 — an agent keeps its name and role for as long as it is in the game

The trajectory file is chosen by the agent's name and role at reset time (`C16_files`); by the trace
theorem no delivery - of any event of any connection - changes either of them for an agent that is
in the game before and after it.  So every record of an agent's stay goes to the same file. -/
namespace NSG.Coord
open NSG NSG.Defender

theorem identity_bstep (S : Settings) (a b : Agent) (hs : BStep S a b) : b.name = a.name ∧ b.role = a.role := by
  induction hs with
  | refl a => exact ⟨rfl, rfl⟩
  | pay a sa =>
    refine ⟨?_, (payOne_frame S sa a).1⟩
    unfold payOne; split <;> (try simp); split <;> (try simp); split <;> simp
  | record a act => exact ⟨rfl, rfl⟩
  | reset a v _ => exact ⟨rfl, rfl⟩
  | restart a => exact ⟨rfl, rfl⟩
  | trans _ _ ih1 ih2 => exact ⟨ih2.1.trans ih1.1, ih2.2.trans ih1.2⟩

theorem identity_own (S : Settings) (a b : Agent) (hs : OwnStep S a b) : b.name = a.name ∧ b.role = a.role := by
  cases hs with
  | req => exact ⟨rfl, rfl⟩
  | play act v roll e he hterm => exact ⟨rfl, rfl⟩

/-- one delivery of any event never changes the name or role of an agent that stays in the game -/
theorem C16_identity_kept (S : Settings) (s : St) (e : Ev) (d : Nat) (a a' : Agent)
    (ha : s.agents d = some a) (ha' : (deliver S s e).1.agents d = some a') : a'.name = a.name ∧ a'.role = a.role := by
  rcases deliver_trace S s e d a' ha' with ⟨a0, ha0, hb⟩ | ⟨_, a0, a1, ha0, ho, hb⟩ | ⟨_, hnone, _⟩
  · rw [ha] at ha0; cases ha0; exact identity_bstep S a a' hb
  · rw [ha] at ha0; cases ha0
    have h1 := identity_own S a a1 ho
    have h2 := identity_bstep S a1 a' hb
    exact ⟨h2.1.trans h1.1, h2.2.trans h1.2⟩
  · rw [ha] at hnone; cases hnone

/-- **Along any history** during which the agent is never out of the game its name and role are those
it joined with: `stays` says the record exists after every prefix of the events delivered. -/
theorem C16_identity_history (S : Settings) (es : List Ev) (s : St) (d : Nat) (a a' : Agent)
    (ha : s.agents d = some a)
    (stays : ∀ k, ((run S s (es.take k)).1.agents d).isSome = true)
    (ha' : (run S s es).1.agents d = some a') : a'.name = a.name ∧ a'.role = a.role := by
  induction es generalizing s a with
  | nil => simp [run] at ha'; rw [ha] at ha'; cases ha'; exact ⟨rfl, rfl⟩
  | cons e es ih =>
    have h1 := stays 1
    simp only [List.take_succ_cons, List.take_zero, run] at h1
    cases hm : (deliver S s e).1.agents d with
    | none => simp [hm] at h1
    | some am =>
      have hk := C16_identity_kept S s e d a am ha hm
      have := ih (deliver S s e).1 am hm (fun k => by simpa [run] using stays (k + 1)) (by simpa [run] using ha')
      exact ⟨this.1.trans hk.1, this.2.trans hk.2⟩

end NSG.Coord
