import NSG.Model.Sched
import NSG.Properties.C20
/-!
# C01 / C20 — schedules of arrivals and dispatches are linearizable in queue order

For every interleaving of arrivals and dispatches the state and the outputs are those of the
sequential model run on the already dispatched prefix of the arrival sequence, and the queue holds
the rest: *when* handlers run does not matter, only the order in which messages entered the queue.
What the theorem assumes is the atomicity of one `deliver` (a handler runs from its dispatch to its
next suspension without another handler's writes in between) - that is the generated obligation
`gen_atomic_handlers` plus the linearizability exploration of the real event loop.
-/
namespace NSG.Coord

/-- invariant of a schedule: processed prefix ++ queue = arrivals so far -/
theorem sched_inv (S : Settings) (ms : List Micro) :
    ∃ done : List Ev,
      done ++ (microRun S SSt.init ms).queue = arrivals ms ∧
      ((microRun S SSt.init ms).core, (microRun S SSt.init ms).outs) = run S init done := by
  suffices h : ∀ (s : SSt) (pre : List Ev), (s.core, s.outs) = run S init pre →
      ∃ done : List Ev, done ++ (microRun S s ms).queue = pre ++ s.queue ++ arrivals ms ∧
        ((microRun S s ms).core, (microRun S s ms).outs) = run S init done by
    obtain ⟨d, h1, h2⟩ := h SSt.init [] (by simp [SSt.init, run])
    exact ⟨d, by simpa [SSt.init] using h1, h2⟩
  induction ms with
  | nil => intro s pre hs; exact ⟨pre, by simp [microRun, arrivals], by simpa [microRun] using hs⟩
  | cons m ms ih =>
    intro s pre hs
    cases m with
    | arrive e =>
      obtain ⟨d, h1, h2⟩ := ih { s with queue := s.queue ++ [e] } pre hs
      refine ⟨d, ?_, ?_⟩
      · simpa [microRun, microStep, arrivals, List.append_assoc] using h1
      · simpa [microRun, microStep] using h2
    | dispatch =>
      cases hq : s.queue with
      | nil =>
        obtain ⟨d, h1, h2⟩ := ih s pre hs
        refine ⟨d, ?_, ?_⟩
        · simpa [microRun, microStep, arrivals, hq] using h1
        · simpa [microRun, microStep, hq] using h2
      | cons e q =>
        have hs' : ((deliver S s.core e).1, s.outs ++ (deliver S s.core e).2) = run S init (pre ++ [e]) := by
          rw [C20_run_append]
          have h1 : (run S init pre).1 = s.core := by rw [← hs]
          have h2 : (run S init pre).2 = s.outs := by rw [← hs]
          simp [run, h1, h2]
        obtain ⟨d, h1, h2⟩ := ih { core := (deliver S s.core e).1, queue := q, outs := s.outs ++ (deliver S s.core e).2 } (pre ++ [e]) hs'
        refine ⟨d, ?_, ?_⟩
        · simpa [microRun, microStep, arrivals, hq, List.append_assoc] using h1
        · simpa [microRun, microStep, hq] using h2

/-- **Linearizability in queue order.** If a schedule has dispatched everything that arrived, its
final state and all its outputs are exactly those of the sequential model on the arrival sequence -
whatever the interleaving of arrivals and dispatches was. -/
theorem C01_sched_linearizable (S : Settings) (ms : List Micro) (hq : (microRun S SSt.init ms).queue = []) :
    ((microRun S SSt.init ms).core, (microRun S SSt.init ms).outs) = run S init (arrivals ms) := by
  obtain ⟨d, h1, h2⟩ := sched_inv S ms
  rw [hq, List.append_nil] at h1
  rw [h2, h1]

/-- two schedules with the same arrival sequence that both drain the queue end in the same state with
the same outputs: the result does not depend on when the handlers ran -/
theorem C20_sched_confluent (S : Settings) (ms ms' : List Micro) (ha : arrivals ms = arrivals ms')
    (hq : (microRun S SSt.init ms).queue = []) (hq' : (microRun S SSt.init ms').queue = []) :
    ((microRun S SSt.init ms).core, (microRun S SSt.init ms).outs) =
    ((microRun S SSt.init ms').core, (microRun S SSt.init ms').outs) := by
  rw [C01_sched_linearizable S ms hq, C01_sched_linearizable S ms' hq', ha]

/-- nothing is produced for a message before it is dispatched and nothing is dispatched twice: the
outputs at any moment are those of a *prefix* of the arrival sequence -/
theorem C01_sched_prefix (S : Settings) (ms : List Micro) :
    ∃ done rest : List Ev, done ++ rest = arrivals ms ∧ (microRun S SSt.init ms).outs = (run S init done).2 := by
  obtain ⟨d, h1, h2⟩ := sched_inv S ms
  exact ⟨d, _, h1, by rw [← h2]⟩

end NSG.Coord
