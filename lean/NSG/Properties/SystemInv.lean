import NSG.Model.System
import NSG.Lemmas.CoordViews
import NSG.Properties.C11
/-!
# The closed system (coordinator + world): system-level invariants

`sysInv_run`: along every history of the closed system
* the static tables (host names, services, original data and firewall) are those of the loaded world and
  the data table contains the loaded data (C03 / C08),
* **every view the coordinator holds for any agent is well-formed w.r.t. the shared tables as they are at
  that moment** (C11 "contains only what exists", at system level: after own steps, after other agents'
  steps, after joins, after resets),
* `sys_reset_restores` (C08): the delivery that completes a reset leaves the world equal to the loaded one.
-/
namespace NSG.Sys
open NSG NSG.Coord NSG.Defender World

/-- relation between the loaded world and a reachable one -/
structure WRel (w0 w : World) : Prop where
  hostname : w.hostname = w0.hostname
  nets : w.nets = w0.nets
  services : w.services = w0.services
  dataOrig : w.dataOrig = w0.dataOrig
  fwOrig : w.fwOrig = w0.fwOrig
  mono : ∀ hn d, d ∈ agetD hn w0.data → d ∈ agetD hn w.data

theorem wrel_refl (w0 : World) : WRel w0 w0 := ⟨rfl, rfl, rfl, rfl, rfl, fun _ _ h => h⟩

theorem wrel_step {w0 w w' : World} {v v' : View} {a : GAction} (h : WRel w0 w) (hs : step w v a = some (w', v')) : WRel w0 w' := by
  obtain ⟨h1, h2, h3, h4, h5⟩ := C02_world_frame w v a w' v' hs
  exact ⟨h1.trans h.hostname, h2.trans h.nets, h3.trans h.services, h4.trans h.dataOrig, h5.trans h.fwOrig,
    fun hn d hd => world_data_mono w v a w' v' hs hn d (h.mono hn d hd)⟩

theorem wrel_reset {w0 w : World} (hf : w0.Fresh) (h : WRel w0 w) : WRel w0 w.reset := by
  refine ⟨h.hostname, h.nets, h.services, h.dataOrig, h.fwOrig, fun hn d hd => ?_⟩
  show d ∈ agetD hn w.dataOrig
  rw [h.dataOrig, ← hf.1]; exact hd

/-- the reset world IS the loaded world -/
theorem reset_eq_loaded {w0 w : World} (hf : w0.Fresh) (h : WRel w0 w) : w.reset = w0 := by
  obtain ⟨f1, f2, f3⟩ := hf
  obtain ⟨a, b, c, d, e, _⟩ := h
  cases w0; cases w
  simp only [World.reset, World.mk.injEq]
  simp_all

/-- a view that is well-formed for the loaded world is well-formed for every reachable world -/
theorem inv_of_wrel {w0 w : World} {v : View} (h : WRel w0 w) (hi : Inv w0 v) : Inv w v := by
  refine ⟨hi.ctrl_known, hi.svc_known, hi.data_ctrl, ?_, ?_, ?_⟩
  · intro x hx; rw [h.hostname]; exact hi.host_exists x hx
  · intro k s hs; rw [h.hostname, h.services]; exact hi.svc_exists k s hs
  · intro k d hd
    obtain ⟨hn, hh, hdd⟩ := hi.data_exists k d hd
    exact ⟨hn, by rw [h.hostname]; exact hh, h.mono hn d hdd⟩

section coordinator_side
open NSG.Coord

theorem inGame_of_viewOf {s : St} {d : Nat} {v : View} (h : s.viewOf d = some v) : s.inGame d = true := by
  simp only [St.viewOf] at h
  simp only [St.inGame]
  cases hh : s.agents d with
  | none => rw [hh] at h; cases h
  | some a => rfl

/-- a reset that starts from a state in which every agent record belongs to the game leaves only fresh views -/
theorem reset_all (S : Settings) (s : St) (o : Oracle) (e : Bool) (hm : ∀ d, s.inGame d = true → d ∈ s.ids)
    (d : Nat) (v : View) (h : (settle S s o e true).1.viewOf d = some v) : v = o.resetView d := by
  rw [viewOf_settle_reset] at h
  split at h
  · cases hv : s.viewOf d with
    | none => rw [hv] at h; cases h
    | some u => rw [hv] at h; simpa using h.symm
  · rename_i hn; exact absurd (hm d (inGame_of_viewOf h)) hn

theorem viewOf_closeConn (s : St) (c d : Nat) : (closeConn s c).viewOf d = s.viewOf d := rfl

theorem viewOf_removeAgent (s : St) (c d : Nat) : (removeAgent s c).1.viewOf d = if d = c then none else s.viewOf d := by
  unfold removeAgent
  split
  · simp only [St.viewOf]; split <;> simp_all
  · rename_i hg
    split
    · rename_i hdc; subst hdc
      simp only [St.viewOf, St.inGame] at hg ⊢
      cases hh : s.agents d with
      | none => rfl
      | some a => rw [hh] at hg; simp at hg
    · rfl

theorem member_removeAgent (s : St) (c : Nat) (hm : ∀ d, s.inGame d = true → d ∈ s.ids) :
    ∀ d, (removeAgent s c).1.inGame d = true → d ∈ (removeAgent s c).1.ids := by
  intro d hd
  by_cases hg : s.inGame c = true
  · have hrem : (removeAgent s c).1 = { s with agents := fun d => if d = c then none else s.agents d, ids := s.ids.filter (fun d => d ≠ c), startEv := false } := by
      simp [removeAgent, hg]
    rw [hrem] at hd ⊢
    simp only [St.inGame] at hd ⊢
    by_cases hdc : d = c
    · simp [hdc] at hd
    · simp only [hdc, if_false] at hd
      exact List.mem_filter.2 ⟨hm d hd, by simpa using hdc⟩
  · have hgf : s.inGame c = false := by simpa using hg
    have hrem : (removeAgent s c).1 = s := by simp [removeAgent, hgf]
    rw [hrem] at hd ⊢
    exact hm d hd

/-- departure of `c` (removal + close + settle): every view held afterwards was held before by the same
connection, or - if the departure completed a reset - is that connection's fresh view -/
theorem views_after_leave (S : Settings) (s : St) (c : Nat) (o : Oracle) (hm : ∀ d, s.inGame d = true → d ∈ s.ids)
    (d : Nat) (v : View)
    (h : (settle S (closeConn (removeAgent s c).1 c) o (removeAgent s c).2.1 (removeAgent s c).2.2).1.viewOf d = some v) :
    ((removeAgent s c).2.2 = false ∧ s.viewOf d = some v) ∨ ((removeAgent s c).2.2 = true ∧ v = o.resetView d) := by
  cases hr : (removeAgent s c).2.2
  · left
    rw [hr] at h
    rw [sv_settle_noreset S _ o _ d, viewOf_closeConn, viewOf_removeAgent] at h
    split at h
    · cases h
    · exact ⟨rfl, h⟩
  · right
    rw [hr] at h
    refine ⟨rfl, reset_all S _ o _ ?_ d v h⟩
    intro d' hd'
    exact member_removeAgent s c hm d' hd'

/-- the oracle an event carries -/
def oracleOf : Ev → Oracle
  | .msg _ _ o => o
  | .leave _ o => o
  | _ => { stepView := none, initView := default, resetView := fun _ => default, roll := default }

/-- how a connection's own message can give it a new view -/
def OwnView (s : St) (e : Ev) (d : Nat) (v : View) : Prop :=
  (∃ n r o, e = .msg d (.join n (some r)) o ∧ v = o.initView) ∨
  (∃ a o, e = .msg d (.game a) o ∧ s.conn d = .reading ∧ s.inGame d = true ∧ (s.agent d).ended = false ∧ o.stepView = some v)

/-- **Where views come from.** After any delivery: if the delivery started the reset task, every view held is
the fresh view of its connection; otherwise every view held was held before by the same connection, or is the
result of that connection's own JoinGame / executed game action. -/
theorem views_after_deliver (S : Settings) (s : St) (e : Ev) (hm : ∀ d, s.inGame d = true → d ∈ s.ids)
    (d : Nat) (v : View) (h : (deliver S s e).1.viewOf d = some v) :
    (resetFired s e = true ∧ v = (oracleOf e).resetView d) ∨
    (resetFired s e = false ∧ (s.viewOf d = some v ∨ OwnView s e d v)) := by
  cases e with
  | connect c =>
    right; refine ⟨rfl, Or.inl ?_⟩
    simp only [deliver] at h
    split at h
    · split at h <;> exact h
    · exact h
  | armWriteFault c => right; exact ⟨rfl, Or.inl h⟩
  | leave c o =>
    simp only [deliver] at h
    split at h
    · rename_i hc
      rcases views_after_leave S s c o hm d v h with ⟨hr, hv⟩ | ⟨hr, hv⟩
      · right; exact ⟨by simp [resetFired, hc, hr], Or.inl hv⟩
      · left; exact ⟨by simp [resetFired, hc, hr], hv⟩
    · rename_i hc
      rcases views_after_leave S s c o hm d v h with ⟨hr, hv⟩ | ⟨hr, hv⟩
      · right; exact ⟨by simp [resetFired, hc, hr], Or.inl hv⟩
      · left; exact ⟨by simp [resetFired, hc, hr], hv⟩
    · rename_i h1 h2
      right; refine ⟨?_, Or.inl h⟩
      simp only [resetFired, Bool.and_eq_false_imp, Bool.or_eq_true, decide_eq_true_eq]
      intro hx; rcases hx with hx | hx
      · exact absurd hx (h1)
      · exact absurd hx (h2)
  | msg c m o =>
    simp only [deliver] at h
    split at h
    case h_2 hc =>
      right; refine ⟨?_, Or.inl h⟩
      cases m <;> simp [resetFired] <;> intro hx <;> exact absurd hx (hc)
    case h_1 hc =>
      cases m with
      | bad =>
        right; refine ⟨rfl, Or.inl ?_⟩
        simp only [handle, badRequest] at h
        rw [sv_emit s c _ d] at h; exact h
      | quit =>
        simp only [handle] at h
        rcases views_after_leave S s c o hm d v h with ⟨hr, hv⟩ | ⟨hr, hv⟩
        · right; exact ⟨by simp [resetFired, hc, hr], Or.inl hv⟩
        · left; exact ⟨by simp [resetFired, hc, hr], hv⟩
      | join n r =>
        right; refine ⟨rfl, ?_⟩
        simp only [handle] at h
        split at h
        · simp only [badRequest] at h; rw [sv_emit s c _ d] at h; exact Or.inl h
        · cases r with
          | none => simp only [badRequest] at h; rw [sv_emit s c _ d] at h; exact Or.inl h
          | some r =>
            simp only at h
            rw [sv_settle_noreset S _ o _ d] at h
            by_cases hdc : d = c
            · subst hdc
              right; left
              refine ⟨n, r, o, rfl, ?_⟩
              simp only [St.viewOf, St.setConn, St.setAgent] at h
              split at h <;> (simp [newAgent] at h; exact h.symm)
            · left
              simp only [St.viewOf, St.setConn, St.setAgent] at h ⊢
              split at h <;> (simp only [hdc, if_false] at h; exact h)
      | reset t =>
        simp only [handle] at h
        split at h
        · rename_i hin
          right; refine ⟨?_, Or.inl ?_⟩
          · have : s.inGame c = false := by simpa using hin
            simp [resetFired, this]
          · simp only [badRequest] at h; rw [sv_emit s c _ d] at h; exact h
        · rename_i hin
          have hin' : s.inGame c = true := by simpa using hin
          cases hr : (s.updAgent c (fun ag => { ag with resetReq := true })).allReset
          · right
            rw [hr] at h
            refine ⟨by simp [resetFired, hc, hin', hr], Or.inl ?_⟩
            rw [sv_settle_noreset S _ o _ d, sv_setConn _ c _ d] at h
            rw [← sv_updAgent s c (fun ag => { ag with resetReq := true }) (fun _ => rfl) d]
            exact h
          · left
            rw [hr] at h
            refine ⟨by simp [resetFired, hc, hin', hr], ?_⟩
            refine reset_all S _ o false ?_ d v h
            intro d' hd'
            have h1 := (sm_updAgent s c (fun ag => { ag with resetReq := true })).trans (sm_setConn _ c (.parked (.resetWait t)))
            rw [h1.2 d'] at hd'
            rw [h1.1]; exact hm d' hd'
      | game a =>
        right; refine ⟨rfl, ?_⟩
        simp only [handle] at h
        split at h
        · simp only [badRequest] at h; rw [sv_emit s c _ d] at h; exact Or.inl h
        · rename_i hin
          have hin' : s.inGame c = true := by simpa using hin
          split at h
          · rw [sv_emit s c _ d] at h; exact Or.inl h
          · rename_i hend
            have hend' : (s.agent c).ended = false := by simpa using hend
            split at h
            · simp only [badRequest] at h; rw [sv_emit s c _ d] at h; exact Or.inl h
            · rename_i v' hsv
              -- the view of c is v', the others are kept
              have key : ∀ s2 : St, SameViews (s.updAgent c (fun _ => { playedAgent S (s.agent c) a v' o.roll with ended := episodeEnds s c (playedAgent S (s.agent c) a v' o.roll) })) s2 →
                  s2.viewOf d = some v → s.viewOf d = some v ∨ OwnView s (.msg c (.game a) o) d v := by
                intro s2 hs2 h2
                rw [hs2 d] at h2
                by_cases hdc : d = c
                · subst hdc
                  right; right
                  refine ⟨a, o, rfl, hc, hin', hend', ?_⟩
                  simp only [St.viewOf, St.updAgent, if_true] at h2
                  cases hag : s.agents d with
                  | none => rw [hag] at h2; cases h2
                  | some ag =>
                    rw [hag] at h2
                    simp [playedAgent] at h2
                    rw [hsv, h2]
                · left
                  simp only [St.viewOf, St.updAgent, hdc, if_false] at h2 ⊢
                  exact h2
              split at h
              · exact key _ ((sv_setConn _ c _).trans (sv_settle_noreset S _ o _)) h
              · exact key _ (sv_finishGame _ c a) h

end coordinator_side

/-- **System invariant.** -/
structure SysInv (E : Env) (sys : SysSt) : Prop where
  rel : WRel E.w0 sys.w
  views : ∀ d v, sys.st.viewOf d = some v → Inv sys.w v
  full : FullInv sys.st

theorem sysInv_init (E : Env) : SysInv E (sysInit E) :=
  ⟨wrel_refl E.w0, fun d v h => by simp [sysInit, St.viewOf, Coord.init] at h, fullInv_init⟩

/-- views are kept and the world is the same or one step further: the invariant is kept -/
theorem views_kept {E : Env} {sys : SysSt} {s' : St} {w' : World} (h : SysInv E sys) (hv : SameViews sys.st s')
    (hw : w' = sys.w ∨ ∃ v a v', step sys.w v a = some (w', v')) (d : Nat) (v : View) (hd : s'.viewOf d = some v) : Inv w' v := by
  rw [hv d] at hd
  rcases hw with rfl | ⟨u, a, u', hs⟩
  · exact h.views d v hd
  · exact C11_inv_other sys.w u a w' u' hs v (h.views d v hd)

/-- the world after the (possible) game step of a delivery: unchanged, or one step of some agent further -/
theorem w1_cases (E : Env) (sys : SysSt) (ev : SEv) :
    (stepWorld E sys ev) = sys.w ∨
    ∃ v a v', step sys.w v a = some ((stepWorld E sys ev), v') := by
  cases ev with
  | msg c m roll =>
    cases m with
    | game a =>
      simp only [stepWorld]
      cases hx : executes E sys c a with
      | none => exact Or.inl rfl
      | some p =>
        obtain ⟨w', v'⟩ := p
        right
        unfold executes at hx
        split at hx
        · cases hsem : E.sem a with
          | none => rw [hsem] at hx; cases hx
          | some ga => rw [hsem] at hx; exact ⟨_, ga, v', hx⟩
        · cases hx
    | _ => exact Or.inl rfl
  | _ => exact Or.inl rfl

theorem agent_of_inGame {s : St} {d : Nat} (h : s.inGame d = true) : s.viewOf d = some (s.agent d).view := by
  simp only [St.inGame] at h
  simp only [St.viewOf, St.agent]
  cases hh : s.agents d with
  | none => rw [hh] at h; cases h
  | some a => rfl

/-- **The system invariant is kept by every delivery.** -/
theorem sysInv_deliver (E : Env) (S : Settings) (hf : E.w0.Fresh) (hs : ∀ r, Inv E.w0 (E.start r))
    (sys : SysSt) (ev : SEv) (h : SysInv E sys) : SysInv E (sysDeliver E S sys ev).1 := by
  have hw1 := w1_cases E sys ev
  have hrel1 : WRel E.w0 (stepWorld E sys ev) := by
    rcases hw1 with heq | ⟨v, a, v', hstep⟩
    · rw [heq]; exact h.rel
    · exact wrel_step h.rel hstep
  refine ⟨?_, ?_, fullInv_deliver S sys.st (toEv E sys ev) h.full⟩
  · show WRel E.w0 (nextWorld E sys ev)
    unfold nextWorld
    split
    · exact wrel_reset hf hrel1
    · exact hrel1
  · intro d v hd
    show Inv (nextWorld E sys ev) v
    have hv := views_after_deliver S sys.st (toEv E sys ev) h.full.member d v hd
    unfold nextWorld
    rcases hv with ⟨hfire, hv⟩ | ⟨hfire, hv⟩
    · -- the reset task ran: everybody holds the start view of its role, the tables are the loaded ones
      rw [hfire]; simp only [if_true]
      have : v = E.start (sys.st.agent d).role := by
        rw [hv]
        cases ev <;> simp [toEv, oracleOf, oracle, resetFired] at hfire ⊢
      rw [this]
      exact inv_of_wrel (wrel_reset hf hrel1) (hs _)
    · rw [hfire]; simp only [Bool.false_eq_true, if_false]
      rcases hv with hold | hown
      · -- held before
        rcases hw1 with heq | ⟨u, a, u', hstep⟩
        · rw [heq]; exact h.views d v hold
        · exact C11_inv_other sys.w u a _ u' hstep v (h.views d v hold)
      · rcases hown with ⟨n, r, o, he, hvv⟩ | ⟨a, o, he, hc, hin, hend, hsv⟩
        · -- own JoinGame: the start view of the role; the world did not move
          cases ev with
          | msg c m roll =>
            simp only [toEv, Ev.msg.injEq] at he
            obtain ⟨rfl, rfl, rfl⟩ := he
            simp only [oracle] at hvv
            rw [hvv]
            exact inv_of_wrel h.rel (hs r)
          | connect c => simp [toEv] at he
          | leave c => simp [toEv] at he
          | armWriteFault c => simp [toEv] at he
        · -- own executed game action
          cases ev with
          | msg c m roll =>
            simp only [toEv, Ev.msg.injEq] at he
            obtain ⟨rfl, rfl, rfl⟩ := he
            simp only [oracle] at hsv
            cases hsem : E.sem a with
            | none => rw [hsem] at hsv; cases hsv
            | some ga =>
              rw [hsem] at hsv
              simp only [Option.bind_some] at hsv
              cases hst : step sys.w (sys.st.agent c).view ga with
              | none => rw [hst] at hsv; cases hsv
              | some p =>
                obtain ⟨w', v''⟩ := p
                rw [hst] at hsv
                simp only [Option.map_some, Option.some.injEq] at hsv
                subst hsv
                have hex : executes E sys c a = some (w', v'') := by
                  simp only [executes, hc, hin, hend, and_self, if_true, hsem, Option.bind_some, hst]
                simp only [stepWorld, hex]
                exact C11_inv sys.w (sys.st.agent c).view ga w' v'' (h.views c _ (agent_of_inGame hin)) hst
          | connect c => simp [toEv] at he
          | leave c => simp [toEv] at he
          | armWriteFault c => simp [toEv] at he

/-- **C11 / C03 / C08 at system level, for every history:** every view the coordinator holds is well-formed with
respect to the shared tables as they are at that moment, and the static tables are those of the loaded world. -/
theorem sysInv_run (E : Env) (S : Settings) (hf : E.w0.Fresh) (hs : ∀ r, Inv E.w0 (E.start r)) (es : List SEv) :
    SysInv E (sysRun E S (sysInit E) es).1 := by
  suffices h : ∀ sys, SysInv E sys → SysInv E (sysRun E S sys es).1 from h _ (sysInv_init E)
  induction es with
  | nil => intro sys h; exact h
  | cons e es ih =>
    intro sys h
    simp only [sysRun]
    exact ih _ (sysInv_deliver E S hf hs sys e h)

/-- **C08 at system level:** the delivery that completes a reset (the last outstanding request, or the departure of
the last agent that had not asked) leaves the shared tables exactly as they were loaded - whatever any agent did before. -/
theorem sys_reset_restores (E : Env) (S : Settings) (hf : E.w0.Fresh) (hs : ∀ r, Inv E.w0 (E.start r)) (es : List SEv) (ev : SEv)
    (hfire : resetFired (sysRun E S (sysInit E) es).1.st (toEv E (sysRun E S (sysInit E) es).1 ev) = true) :
    (sysDeliver E S (sysRun E S (sysInit E) es).1 ev).1.w = E.w0 := by
  have hi := sysInv_run E S hf hs es
  generalize (sysRun E S (sysInit E) es).1 = sys at hi hfire
  show nextWorld E sys ev = E.w0
  unfold nextWorld
  simp only [hfire, if_true]
  have hrel1 : WRel E.w0 (stepWorld E sys ev) := by
    rcases w1_cases E sys ev with heq | ⟨v, a, v', hstep⟩
    · rw [heq]; exact hi.rel
    · exact wrel_step hi.rel hstep
  exact reset_eq_loaded hf hrel1

/-- and everybody in the game then holds the start view of its role (C07 "fresh", at system level) -/
theorem sys_reset_fresh_views (E : Env) (S : Settings) (hf : E.w0.Fresh) (hs : ∀ r, Inv E.w0 (E.start r)) (es : List SEv) (ev : SEv)
    (hfire : resetFired (sysRun E S (sysInit E) es).1.st (toEv E (sysRun E S (sysInit E) es).1 ev) = true)
    (d : Nat) (v : View) (hd : (sysDeliver E S (sysRun E S (sysInit E) es).1 ev).1.st.viewOf d = some v) :
    v = E.start ((sysRun E S (sysInit E) es).1.st.agent d).role := by
  have hi := sysInv_run E S hf hs es
  generalize (sysRun E S (sysInit E) es).1 = sys at hi hfire hd
  rcases views_after_deliver S sys.st (toEv E sys ev) hi.full.member d v hd with ⟨_, hv⟩ | ⟨hno, _⟩
  · rw [hv]; cases ev <;> simp [toEv, oracleOf, oracle, resetFired] at hfire ⊢
  · rw [hfire] at hno; cases hno

end NSG.Sys

namespace NSG.Sys
open NSG NSG.Coord NSG.Defender World

/-- **C12 at system level:** a message of connection `c` that does not complete a reset leaves the view held for
every OTHER connection exactly as it was - whatever the message makes the world do. -/
theorem sys_others_views_kept (E : Env) (S : Settings) (sys : SysSt) (c : Nat) (m : Msg) (roll : Frac) (d : Nat) (v : View)
    (hm : ∀ x, sys.st.inGame x = true → x ∈ sys.st.ids) (hne : d ≠ c)
    (hnf : resetFired sys.st (toEv E sys (.msg c m roll)) = false)
    (hd : (sysDeliver E S sys (.msg c m roll)).1.st.viewOf d = some v) : sys.st.viewOf d = some v := by
  rcases views_after_deliver S sys.st (toEv E sys (.msg c m roll)) hm d v hd with ⟨hf, _⟩ | ⟨_, hold | hown⟩
  · rw [hnf] at hf; cases hf
  · exact hold
  · rcases hown with ⟨n, r, o, he, _⟩ | ⟨a, o, he, _⟩ <;>
      (simp only [toEv, Ev.msg.injEq] at he; exact absurd he.1.symm hne)

/-- **C03 at system level:** when a game message changes the view held for its sender, the new view is exactly what
the world model's `step` gives for the view held before, the meant action and the shared tables. -/
theorem sys_own_view_is_world_step (E : Env) (S : Settings) (sys : SysSt) (c : Nat) (a : Act) (roll : Frac) (v : View)
    (hm : ∀ x, sys.st.inGame x = true → x ∈ sys.st.ids)
    (hd : (sysDeliver E S sys (.msg c (.game a) roll)).1.st.viewOf c = some v) (hch : sys.st.viewOf c ≠ some v) :
    ∃ ga w', E.sem a = some ga ∧ step sys.w (sys.st.agent c).view ga = some (w', v) := by
  rcases views_after_deliver S sys.st (toEv E sys (.msg c (.game a) roll)) hm c v hd with ⟨hf, _⟩ | ⟨_, hold | hown⟩
  · simp [toEv, resetFired] at hf
  · exact absurd hold hch
  · rcases hown with ⟨n, r, o, he, _⟩ | ⟨a', o, he, _, _, _, hsv⟩
    · simp [toEv] at he
    · simp only [toEv, Ev.msg.injEq, Msg.game.injEq] at he
      obtain ⟨_, rfl, rfl⟩ := he
      simp only [oracle] at hsv
      cases hsem : E.sem a with
      | none => rw [hsem] at hsv; cases hsv
      | some ga =>
        rw [hsem] at hsv
        simp only [Option.bind_some] at hsv
        cases hst : step sys.w (sys.st.agent c).view ga with
        | none => rw [hst] at hsv; cases hsv
        | some p =>
          obtain ⟨w', v''⟩ := p
          rw [hst] at hsv
          simp only [Option.map_some, Option.some.injEq] at hsv
          exact ⟨ga, w', rfl, by rw [← hsv]; exact hst⟩

/-- **C02 at system level:** when the documented precondition of the meant action does not hold for the view the
coordinator holds and the shared tables, executing the message changes neither that view nor the tables. -/
theorem sys_refused_no_effect (E : Env) (sys : SysSt) (c : Nat) (a : Act) (ga : GAction) (w' : World) (v' : View)
    (hsem : E.sem a = some ga) (hp : pre sys.w (sys.st.agent c).view ga = false)
    (hx : executes E sys c a = some (w', v')) : w' = sys.w ∧ v' = (sys.st.agent c).view := by
  unfold executes at hx
  split at hx
  · rw [hsem] at hx
    simp only [Option.bind_some] at hx
    rw [C02_no_effect sys.w (sys.st.agent c).view ga hp] at hx
    simp only [Option.some.injEq, Prod.mk.injEq] at hx
    exact ⟨hx.1.symm, hx.2.symm⟩
  · cases hx

end NSG.Sys

namespace NSG.Sys
open NSG NSG.Coord World
/-- non-vacuity: a loaded world with one host holding one datapoint; every role starts controlling that host and
knowing the datapoint - the hypotheses of `sysInv_run` are satisfiable by a non-trivial instance -/
def exW : World :=
  { hostname := [(1, "h")], nets := [], services := [("h", [])], data := [("h", [⟨"u", "d", 0, ""⟩])], fw := [(1, [1])], blocks := [],
    dataOrig := [("h", [⟨"u", "d", 0, ""⟩])], fwOrig := [(1, [1])] }
def exV : View := { controlled := [1], known := [1], services := [], data := [(1, [⟨"u", "d", 0, ""⟩])], nets := [], blocks := [] }
example : exW.Fresh := ⟨rfl, rfl, rfl⟩
example : Inv exW exV := (invB_iff exW exV).1 (by decide)
end NSG.Sys
