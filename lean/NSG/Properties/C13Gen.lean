import NSG.Model.Relabel
import NSG.Properties.C13
/-
C13, the generator of the re-labelling (`_create_new_network_mapping`, private networks).

The property needs the new labelling to be one-to-one with every address inside its network.  The host addresses
are drawn inside each new network (a shuffle of the network's address list, so one-to-one per network); across
networks one-to-one-ness rests on the new networks being ALIGNED to their prefix (otherwise the address list of
`IPNetwork(addr/mask)` is the list of the enclosing aligned block) and pairwise DISJOINT.  Both are proved here for
every list of aligned, disjoint private networks of any prefix lengths and every drawn value - and the arithmetic
of the pinned tree before fix 9086a03 is shown NOT to have the property, at the input the thorough tier found.
-/
namespace NSG

def Net.Aligned (n : Net) : Prop := n.addr % blockSize n.mask = 0
def Net.hi (n : Net) : Nat := n.addr + blockSize n.mask
/-- the address ranges `[addr, addr + size)` do not meet -/
def Net.Disjoint (a b : Net) : Prop := a.hi ≤ b.addr ∨ b.hi ≤ a.addr
/-- old and new base have the same position inside a block of the widest prefix -/
def AlignedShift (old new widest : Nat) : Prop := old % blockSize widest = new % blockSize widest

instance (n : Net) : Decidable n.Aligned := by unfold Net.Aligned; infer_instance
instance (a b : Net) : Decidable (a.Disjoint b) := by unfold Net.Disjoint; infer_instance

theorem blockSize_pos (m : Nat) : 0 < blockSize m := Nat.two_pow_pos _

theorem blockSize_dvd {w m : Nat} (h : w ≤ m) : blockSize m ∣ blockSize w := by
  unfold blockSize
  exact Nat.pow_dvd_pow 2 (by omega)

theorem mod_zero_of_add_eq {b x old new a : Nat} (hb : 0 < b) (hx : x + old = new + a) (ha : a % b = 0)
    (hm : old % b = new % b) : x % b = 0 := by
  have h1 : (x + old) % b = (new + a) % b := by rw [hx]
  rw [Nat.add_mod x old, Nat.add_mod new a, ha, Nat.add_zero, Nat.mod_mod, ← hm] at h1
  have hu : x % b < b := Nat.mod_lt _ hb
  have hv : old % b < b := Nat.mod_lt _ hb
  by_cases hlt : x % b + old % b < b
  · rw [Nat.mod_eq_of_lt hlt] at h1; omega
  · have hge : b ≤ x % b + old % b := Nat.le_of_not_lt hlt
    rw [Nat.mod_eq_sub_mod hge, Nat.mod_eq_of_lt (by omega)] at h1
    omega

/-- **Alignment is kept**: a network aligned to its own prefix, moved by a shift that keeps the position inside the
widest block, is aligned to its own prefix again. -/
theorem shift_aligned (old new widest : Nat) (n : Net) (hs : AlignedShift old new widest) (hw : widest ≤ n.mask)
    (ho : old ≤ n.addr) (ha : n.Aligned) : (shiftNet old new n).Aligned := by
  unfold Net.Aligned shiftNet at *
  simp only
  have hd := blockSize_dvd hw
  have hm : old % blockSize n.mask = new % blockSize n.mask := by
    have := congrArg (· % blockSize n.mask) hs
    simpa only [Nat.mod_mod_of_dvd _ hd] using this
  exact mod_zero_of_add_eq (blockSize_pos _) (by omega) ha hm

/-- **Disjointness is kept** (a common translation) -/
theorem shift_disjoint (old new : Nat) (a b : Net) (ha : old ≤ a.addr) (hb : old ≤ b.addr) (h : a.Disjoint b) :
    (shiftNet old new a).Disjoint (shiftNet old new b) := by
  unfold Net.Disjoint Net.hi shiftNet at *
  simp only
  omega

theorem widestMask_le_init (m0 : Nat) (nets : List Net) : widestMask m0 nets ≤ m0 := by
  unfold widestMask
  induction nets generalizing m0 with
  | nil => exact Nat.le_refl _
  | cons n ns ih => exact Nat.le_trans (ih (min m0 n.mask)) (Nat.min_le_left _ _)

theorem widestMask_le_mem (m0 : Nat) (nets : List Net) (n : Net) (h : n ∈ nets) : widestMask m0 nets ≤ n.mask := by
  unfold widestMask
  induction nets generalizing m0 with
  | nil => cases h
  | cons x xs ih =>
    rcases List.mem_cons.mp h with rfl | h
    · exact Nat.le_trans (widestMask_le_init _ xs) (Nat.min_le_right _ _)
    · exact ih _ h

/-- the generator's base keeps the position of the lowest network inside the widest block, whatever was drawn -/
theorem relabelBase_alignedShift (d : Nat) (first : Net) (rest : List Net) :
    AlignedShift first.addr (relabelBase d first rest) (widestMask first.mask rest) := by
  unfold AlignedShift relabelBase alignDown
  simp only
  generalize blockSize (widestMask first.mask rest) = B
  have h1 : first.addr - first.addr / B * B = first.addr % B := by
    have := Nat.div_add_mod first.addr B
    rw [Nat.mul_comm] at this; omega
  rw [h1, Nat.add_comm, Nat.add_mul_mod_self_right, Nat.mod_mod]

/-- **C13, generator**: for private networks that are aligned to their prefixes (any prefix lengths), listed from the
lowest one, and pairwise disjoint, and for EVERY drawn value: the new networks are aligned to their own prefixes, pairwise
disjoint, keep their masks and their distances. -/
theorem C13_generator (d : Nat) (first : Net) (rest : List Net)
    (hal : ∀ n ∈ first :: rest, n.Aligned) (hlow : ∀ n ∈ first :: rest, first.addr ≤ n.addr)
    (hdis : (first :: rest).Pairwise Net.Disjoint) :
    (∀ n ∈ relabelPrivate d (first :: rest), n.Aligned) ∧
    (relabelPrivate d (first :: rest)).Pairwise Net.Disjoint ∧
    (relabelPrivate d (first :: rest)).map (·.mask) = (first :: rest).map (·.mask) ∧
    (∀ a ∈ first :: rest, ∀ b ∈ first :: rest,
      ((shiftNet first.addr (relabelBase d first rest) a).addr : Int) - (shiftNet first.addr (relabelBase d first rest) b).addr
        = (a.addr : Int) - b.addr) := by
  have hs := relabelBase_alignedShift d first rest
  refine ⟨?_, ?_, ?_, ?_⟩
  · intro n hn
    simp only [relabelPrivate, List.mem_map] at hn
    obtain ⟨m, hm, rfl⟩ := hn
    refine shift_aligned _ _ _ m hs ?_ (hlow m hm) (hal m hm)
    rcases List.mem_cons.mp hm with rfl | hm'
    · exact widestMask_le_init _ _
    · exact widestMask_le_mem _ _ _ hm'
  · simp only [relabelPrivate]
    rw [List.pairwise_map]
    exact hdis.imp_of_mem (fun {a b} ha hb h => shift_disjoint _ _ a b (hlow a ha) (hlow b hb) h)
  · simp only [relabelPrivate, List.map_map]
    apply List.map_congr_left
    intro n _
    rfl
  · intro a ha b hb
    exact (C13_distances _ _ a b (hlow a ha) (hlow b hb)).1

theorem div_eq_range (x B q : Nat) (hp : 0 < B) : x / B = q ↔ B * q ≤ x ∧ x < B * q + B := by
  constructor
  · intro h
    have h3 := Nat.div_add_mod x B
    have hlt := Nat.mod_lt x hp
    rw [h] at h3
    generalize B * q = P at h3 ⊢
    constructor <;> omega
  · rintro ⟨h1, h2⟩
    apply Nat.div_eq_of_lt_le
    · rw [Nat.mul_comm]; exact h1
    · rw [Nat.succ_mul, Nat.mul_comm]; exact h2

/-- an aligned network contains exactly the addresses of its range: "every address lies inside its network" is range
membership, and the address list of `IPNetwork(addr/mask)` is the range itself -/
theorem inNet_iff_range (x : IP) (n : Net) (ha : n.Aligned) : inNet x n = true ↔ n.addr ≤ x ∧ x < n.hi := by
  unfold Net.Aligned at ha
  unfold Net.hi
  simp only [inNet, Nat.shiftRight_eq_div_pow, beq_iff_eq]
  have hp : 0 < blockSize n.mask := blockSize_pos _
  change x / blockSize n.mask = n.addr / blockSize n.mask ↔ _
  obtain ⟨q, hq⟩ := Nat.dvd_of_mod_eq_zero ha
  rw [hq, Nat.mul_div_cancel_left _ hp]
  exact div_eq_range x _ q hp

theorem ranges_ne (x y a ah b bh : Nat) (hx : a ≤ x ∧ x < ah) (hy : b ≤ y ∧ y < bh) (h : ah ≤ b ∨ bh ≤ a) : x ≠ y := by omega

/-- **one-to-one across networks**: addresses placed inside two disjoint new networks differ -/
theorem placed_ne (x y : IP) (a b : Net) (hx : a.addr ≤ x ∧ x < a.hi) (hy : b.addr ≤ y ∧ y < b.hi) (h : a.Disjoint b) : x ≠ y :=
  ranges_ne x y a.addr a.hi b.addr b.hi hx hy h

/-- ... stated with network membership, for aligned networks -/
theorem C13_across_networks (x y : IP) (a b : Net) (ha : a.Aligned) (hb : b.Aligned) (hx : inNet x a = true) (hy : inNet y b = true)
    (h : a.Disjoint b) : x ≠ y :=
  placed_ne x y a b ((inNet_iff_range x a ha).mp hx) ((inNet_iff_range y b hb).mp hy) h

/-! ### The input the thorough tier found (generated scenario 439108476): 192.168.1.0/26 and 192.168.2.0/23, draw 172.30.98.x -/
def nA : Net := { addr := 3232235776, mask := 26 }     -- 192.168.1.0/26
def nB : Net := { addr := 3232236032, mask := 23 }     -- 192.168.2.0/23
def drawn : Nat := 2887672369                           -- 172.30.98.49

-- hypotheses of the theorem are met by this input (non-vacuity)
example : nA.Aligned ∧ nB.Aligned ∧ nA.Disjoint nB ∧ nA.addr ≤ nB.addr := by decide

/-- before the fix the /23 landed on 172.30.99.0, which is not a multiple of its size: its address list is that of
172.30.98.0/23 and contains the whole new /26 -/
theorem old_generator_breaks_alignment : ¬ ∀ n ∈ relabelPrivateOld drawn [nA, nB], n.Aligned := by decide

example : relabelPrivateOld drawn [nA, nB] = [{ addr := 2887672320, mask := 26 }, { addr := 2887672576, mask := 23 }] := by decide
-- 172.30.98.0/26 lies inside the aligned block of 172.30.99.0/23
example : alignDown 2887672576 23 ≤ 2887672320 ∧ 2887672320 + blockSize 26 ≤ alignDown 2887672576 23 + blockSize 23 := by decide

-- the repaired generator on the same input
example : relabelPrivate drawn [nA, nB] = [{ addr := 2887672576, mask := 26 }, { addr := 2887672832, mask := 23 }] := by decide
example : (∀ n ∈ relabelPrivate drawn [nA, nB], n.Aligned) ∧ (relabelPrivate drawn [nA, nB]).Pairwise Net.Disjoint := by decide

end NSG

/-! ### Host addresses: drawn inside each new network

`_create_new_network_mapping` gives the hosts of every network the first entries of a shuffled copy of the new network's
address list (`list(IPNetwork(new))[1:]`, `random.shuffle`, `mapping_ips[ip] = ip_list[i]`).  The shuffle is modelled by
its result: any duplicate-free list of addresses of that network. -/
namespace NSG

theorem assignHosts_values_sublist (hosts addrs : List IP) : ((assignHosts hosts addrs).map (·.2)).Sublist addrs := by
  unfold assignHosts
  induction hosts generalizing addrs with
  | nil => simp
  | cons h hs ih =>
    cases addrs with
    | nil => simp
    | cons a as => simpa using ih as

theorem assignHosts_values_mem (hosts addrs : List IP) (x : IP) (h : x ∈ (assignHosts hosts addrs).map (·.2)) : x ∈ addrs :=
  (assignHosts_values_sublist hosts addrs).subset h

/-- **C13, the address map is one-to-one**: if every network's shuffled list is duplicate-free and lies inside its new
network, and the new networks are aligned and pairwise disjoint (`C13_generator`), then no new address is handed out
twice - within a network or across networks. -/
theorem C13_addresses_one_to_one (parts : List (List IP × List IP)) (nets : List Net)
    (hlen : parts.length = nets.length)
    (hnodup : ∀ p ∈ parts, p.2.Nodup)
    (hin : ∀ i (hi : i < parts.length), ∀ x ∈ (parts[i]).2, inNet x (nets[i]'(hlen ▸ hi)) = true)
    (hal : ∀ n ∈ nets, n.Aligned) (hdis : nets.Pairwise Net.Disjoint) :
    ((drawIPs parts).map (·.2)).Nodup := by
  induction parts generalizing nets with
  | nil => simp [drawIPs]
  | cons p ps ih =>
    cases nets with
    | nil => simp at hlen
    | cons n ns =>
      have hlen' : ps.length = ns.length := by simpa using hlen
      simp only [drawIPs, List.flatMap_cons, List.map_append]
      rw [List.nodup_append]
      refine ⟨?_, ?_, ?_⟩
      · exact (assignHosts_values_sublist p.1 p.2).nodup (hnodup p (List.mem_cons_self ..))
      · apply ih ns hlen' (fun q hq => hnodup q (List.mem_cons_of_mem _ hq))
        · intro i hi x hx
          have := hin (i + 1) (by simp; omega) x (by simpa using hx)
          simpa using this
        · exact fun m hm => hal m (List.mem_cons_of_mem _ hm)
        · exact (List.pairwise_cons.mp hdis).2
      · intro x hx y hy
        have hxp : x ∈ p.2 := assignHosts_values_mem _ _ _ hx
        have hxn : inNet x n = true := by
          have := hin 0 (by simp) x (by simpa using hxp)
          simpa using this
        -- y comes from one of the later networks
        simp only [List.map_flatMap, List.mem_flatMap] at hy
        obtain ⟨q, hq, hyq⟩ := hy
        obtain ⟨j, hj, rfl⟩ := List.getElem_of_mem hq
        have hyq' : y ∈ (ps[j]).2 := assignHosts_values_mem _ _ _ hyq
        have hyn : inNet y (ns[j]'(hlen' ▸ hj)) = true := by
          have := hin (j + 1) (by simp; omega) y (by simpa using hyq')
          simpa using this
        have hmem : ns[j]'(hlen' ▸ hj) ∈ ns := List.getElem_mem _
        exact C13_across_networks x y n _ (hal n (List.mem_cons_self ..)) (hal _ (List.mem_cons_of_mem _ hmem)) hxn hyn
          ((List.pairwise_cons.mp hdis).1 _ hmem)

/-- ... and every new address lies inside the new network of its host's network -/
theorem C13_addresses_inside (hosts addrs : List IP) (n : Net) (hin : ∀ x ∈ addrs, inNet x n = true) :
    ∀ kv ∈ assignHosts hosts addrs, inNet kv.2 n = true := by
  intro kv hkv
  exact hin _ (assignHosts_values_mem hosts addrs kv.2 (List.mem_map_of_mem hkv))

-- non-vacuity: two networks of different sizes, hosts placed
example : ((drawIPs [([1, 2], [2887672580, 2887672577]), ([7], [2887672900])]).map (·.2)).Nodup := by decide

end NSG

/-! ### The retry loop: private networks stay private -/
namespace NSG

/-- **C13, "private networks stay private"**: whatever values are drawn, the loop ends with the current networks kept as
they are, or with the result of the arithmetic for one of the drawn values - and then every new network address is private
and inside the IPv4 range. -/
theorem relabelLoop_spec (ds : List Nat) (errs : Nat) (nets : List Net) :
    relabelLoop ds errs nets = nets ∨
    ∃ d ∈ ds, relabelLoop ds errs nets = relabelPrivate d nets ∧ allPrivate (relabelPrivate d nets) = true ∧
      overflows (relabelPrivate d nets) = false := by
  induction ds generalizing errs with
  | nil => exact Or.inl rfl
  | cons d ds ih =>
    simp only [relabelLoop]
    by_cases ho : overflows (relabelPrivate d nets) = true
    · simp only [ho, if_true]
      by_cases he : 10 < errs + 1
      · simp only [he, if_true]; exact Or.inl trivial
      · simp only [he, if_false]
        rcases ih (errs + 1) with h | ⟨d', hd', h⟩
        · exact Or.inl h
        · exact Or.inr ⟨d', List.mem_cons_of_mem _ hd', h⟩
    · have ho' : overflows (relabelPrivate d nets) = false := by simpa using ho
      simp only [ho', Bool.false_eq_true, if_false]
      by_cases hp : allPrivate (relabelPrivate d nets) = true
      · simp only [hp, if_true]
        exact Or.inr ⟨d, List.mem_cons_self .., rfl, hp, ho'⟩
      · simp only [hp, if_false]
        rcases ih errs with h | ⟨d', hd', h⟩
        · exact Or.inl h
        · exact Or.inr ⟨d', List.mem_cons_of_mem _ hd', h⟩

/-- ... so with private networks to start with, the networks after ANY number of re-labellings are private -/
theorem relabelLoop_private (ds : List Nat) (errs : Nat) (nets : List Net) (h : allPrivate nets = true) :
    allPrivate (relabelLoop ds errs nets) = true := by
  rcases relabelLoop_spec ds errs nets with h' | ⟨d, _, h', hp, _⟩
  · rw [h']; exact h
  · rw [h']; exact hp

-- the found input: the draw 172.30.98.49 is accepted, the result is private; a draw near the top of 192.168/16 is repeated
example : relabelLoop [drawn] 0 [nA, nB] = relabelPrivate drawn [nA, nB] := by decide
example : relabelLoop [3232301000, drawn] 0 [nA, nB] = relabelPrivate drawn [nA, nB] := by decide

end NSG

/-! ### The order in which the generator takes the networks -/
namespace NSG

theorem sortNets_perm (nets : List Net) : (sortNets nets).Perm nets := List.mergeSort_perm _ _

theorem sortNets_sorted (nets : List Net) : (sortNets nets).Pairwise (fun a b => a.addr ≤ b.addr) := by
  have h := List.pairwise_mergeSort (le := fun (a b : Net) => decide (a.addr ≤ b.addr))
    (fun a b c h1 h2 => by simp only [decide_eq_true_eq] at *; omega)
    (fun a b => by simp only [Bool.or_eq_true, decide_eq_true_eq]; omega) nets
  exact h.imp (fun h => by simpa using h)

theorem disjoint_symm {a b : Net} (h : a.Disjoint b) : b.Disjoint a := by
  unfold Net.Disjoint at *; exact h.symm

/-- **C13, generator, for the networks in ANY order**: the private networks of the scenario - aligned to their prefixes,
pairwise disjoint, of any prefix lengths, listed in any order - are sorted and moved; for every drawn value the new networks
are aligned, pairwise disjoint, and there are as many of them. -/
theorem C13_generator_any_order (d : Nat) (nets : List Net) (hal : ∀ n ∈ nets, n.Aligned) (hdis : nets.Pairwise Net.Disjoint) :
    (∀ n ∈ relabelPrivate d (sortNets nets), n.Aligned) ∧ (relabelPrivate d (sortNets nets)).Pairwise Net.Disjoint ∧
    (relabelPrivate d (sortNets nets)).length = nets.length := by
  have hp := sortNets_perm nets
  have hs := sortNets_sorted nets
  have hal' : ∀ n ∈ sortNets nets, n.Aligned := fun n hn => hal n (hp.mem_iff.mp hn)
  have hdis' : (sortNets nets).Pairwise Net.Disjoint := (List.Perm.pairwise_iff (fun h => disjoint_symm h) hp).mpr hdis
  have hlen : (sortNets nets).length = nets.length := hp.length_eq
  cases hsn : sortNets nets with
  | nil =>
    rw [hsn] at hlen
    simp [relabelPrivate, ← hlen]
  | cons first rest =>
    rw [hsn] at hal' hdis' hs hlen
    have hlow : ∀ n ∈ first :: rest, first.addr ≤ n.addr := by
      intro n hn
      rcases List.mem_cons.mp hn with rfl | hn'
      · exact Nat.le_refl _
      · exact (List.pairwise_cons.mp hs).1 n hn'
    obtain ⟨h1, h2, _, _⟩ := C13_generator d first rest hal' hlow hdis'
    refine ⟨h1, h2, ?_⟩
    simp [relabelPrivate, ← hlen]

-- the hypotheses are met by the two networks of the found input listed the other way round
example : (∀ n ∈ [nB, nA], n.Aligned) ∧ [nB, nA].Pairwise Net.Disjoint := by decide

end NSG
