import NSG.Model.Scenario
import NSG.Lemmas.Maps
import NSG.Properties.C08
/-! # C03 (b) — loader completeness: every host, service and datapoint the scenario defines is in the
world, and the firewall table is exactly the three documented phases (or everything when switched off) -/
namespace NSG

/-- table inclusion: nothing that is in `w` is missing from `w'` -/
structure TSub (w w' : World) : Prop where
  host : ∀ ip, ip ∈ akeys w.hostname → ip ∈ akeys w'.hostname
  net : ∀ n ip, ip ∈ agetD n w.nets → ip ∈ agetD n w'.nets
  svc : ∀ id s, s ∈ agetD id w.services → s ∈ agetD id w'.services
  data : ∀ id d, d ∈ agetD id w.data → d ∈ agetD id w'.data

theorem TSub.refl (w : World) : TSub w w := ⟨fun _ h => h, fun _ _ h => h, fun _ _ h => h, fun _ _ h => h⟩
theorem TSub.trans {a b c : World} (h1 : TSub a b) (h2 : TSub b c) : TSub a c :=
  ⟨fun x h => h2.host x (h1.host x h), fun n x h => h2.net n x (h1.net n x h),
   fun i x h => h2.svc i x (h1.svc i x h), fun i x h => h2.data i x (h1.data i x h)⟩

theorem tsub_addIface (id : String) (w : World) (i : SIface) : TSub w (addIface id w i) := by
  refine ⟨fun ip h => ?_, fun n ip h => ?_, fun _ _ h => h, fun _ _ h => h⟩
  · simp only [addIface, aset, akeys, List.map_cons, List.mem_cons]; exact Or.inr h
  · simp only [addIface]; exact (mem_agetD_addTo _ _ _ _ _).2 (Or.inl h)

theorem tsub_addService (id : String) (w : World) (s : SService) : TSub w (addService id w s) := by
  unfold addService
  split
  · exact TSub.refl w
  · refine ⟨fun _ h => h, fun _ _ h => h, fun i x h => ?_, fun i x h => ?_⟩
    · exact (mem_agetD_addTo _ _ _ _ _).2 (Or.inl h)
    · simp only; split
      · exact h
      · exact (mem_agetD_addTo _ _ _ _ _).2 (Or.inl h)

theorem tsub_foldl {α} (op : World → α → World) (hop : ∀ w x, TSub w (op w x)) (w : World) (l : List α) :
    TSub w (l.foldl op w) := by
  induction l generalizing w with
  | nil => exact TSub.refl w
  | cons x xs ih => exact (hop w x).trans (ih (op w x))

theorem tsub_addNode (w : World) (n : SNode) : TSub w (addNode w n) :=
  (tsub_foldl _ (tsub_addIface n.id) w n.ifaces).trans (tsub_foldl _ (tsub_addService n.id) _ n.services)

theorem tsub_addRouter (w : World) (r : SRouter) : TSub w (addRouter w r) := by
  unfold addRouter; split
  · exact TSub.refl w
  · exact tsub_foldl _ (tsub_addIface r.id) w r.ifaces

/-- what one step establishes survives the rest of the fold -/
theorem foldl_establishes {α} (op : World → α → World) (hop : ∀ w x, TSub w (op w x))
    (P : World → Prop) (hP : ∀ w w', TSub w w' → P w → P w') (x : α) (hx : ∀ w, P (op w x))
    (w : World) (l : List α) (hm : x ∈ l) : P (l.foldl op w) := by
  induction l generalizing w with
  | nil => cases hm
  | cons y ys ih =>
    simp only [List.foldl_cons]
    rcases List.mem_cons.1 hm with rfl | h
    · exact hP _ _ (tsub_foldl op hop _ ys) (hx w)
    · exact ih (op w y) h

theorem iface_added (id : String) (w : World) (i : SIface) :
    i.ip ∈ akeys (addIface id w i).hostname ∧ i.ip ∈ agetD i.net (addIface id w i).nets := by
  constructor
  · simp [addIface, aset, akeys]
  · simp only [addIface]; exact (mem_agetD_addTo _ _ _ _ _).2 (Or.inr ⟨rfl, by simp⟩)

def HasIface (i : SIface) (w : World) : Prop := i.ip ∈ akeys w.hostname ∧ i.ip ∈ agetD i.net w.nets

theorem hasIface_mono (i : SIface) (w w' : World) (h : TSub w w') (hi : HasIface i w) : HasIface i w' :=
  ⟨h.host _ hi.1, h.net _ _ hi.2⟩

theorem tables_load (sc : Scenario) (fw : Bool) :
    (load sc fw).hostname = (loadTables sc).hostname ∧ (load sc fw).nets = (loadTables sc).nets ∧
    (load sc fw).services = (loadTables sc).services ∧ (load sc fw).data = (loadTables sc).data := ⟨rfl, rfl, rfl, rfl⟩

/-- **Every interface of every node is a host of the world, inside its network.** -/
theorem C03_load_node_hosts (sc : Scenario) (fw : Bool) (n : SNode) (hn : n ∈ sc.nodes) (i : SIface) (hi : i ∈ n.ifaces) :
    i.ip ∈ akeys (load sc fw).hostname ∧ i.ip ∈ agetD i.net (load sc fw).nets := by
  show HasIface i (loadTables sc)
  unfold loadTables
  apply hasIface_mono i _ _ (tsub_foldl _ tsub_addRouter _ sc.routers)
  apply foldl_establishes addNode tsub_addNode (HasIface i) (hasIface_mono i) n _ emptyWorld sc.nodes hn
  intro w
  unfold addNode
  apply hasIface_mono i _ _ (tsub_foldl _ (tsub_addService n.id) _ n.services)
  exact foldl_establishes (addIface n.id) (tsub_addIface n.id) (HasIface i) (hasIface_mono i) i (fun w => iface_added n.id w i) w n.ifaces hi

/-- ... and every interface of every router except the one called 'internet'. -/
theorem C03_load_router_hosts (sc : Scenario) (fw : Bool) (r : SRouter) (hr : r ∈ sc.routers) (hni : r.isInternet = false)
    (i : SIface) (hi : i ∈ r.ifaces) :
    i.ip ∈ akeys (load sc fw).hostname ∧ i.ip ∈ agetD i.net (load sc fw).nets := by
  show HasIface i (loadTables sc)
  unfold loadTables
  apply foldl_establishes addRouter tsub_addRouter (HasIface i) (hasIface_mono i) r _ _ sc.routers hr
  intro w
  simp only [addRouter, hni, Bool.false_eq_true, if_false]
  exact foldl_establishes (addIface r.id) (tsub_addIface r.id) (HasIface i) (hasIface_mono i) i (fun w => iface_added r.id w i) w r.ifaces hi

/-- **Every service the scenario defines** (except the start marker) **is a service of its node, and
every datapoint of every service is data of that node** - all of them, not only the first. -/
theorem C03_load_services_data (sc : Scenario) (fw : Bool) (n : SNode) (hn : n ∈ sc.nodes) (s : SService) (hs : s ∈ n.services)
    (hm : s.name ≠ startMarker) :
    ({ name := s.name, typ := "passive", version := s.version, isLocal := s.isLocal } : Service) ∈ agetD n.id (load sc fw).services ∧
    ∀ d ∈ s.data, datumOf d ∈ agetD n.id (load sc fw).data := by
  let P : World → Prop := fun w =>
    ({ name := s.name, typ := "passive", version := s.version, isLocal := s.isLocal } : Service) ∈ agetD n.id w.services ∧
    ∀ d ∈ s.data, datumOf d ∈ agetD n.id w.data
  have hP : ∀ w w', TSub w w' → P w → P w' := fun w w' h hp => ⟨h.svc _ _ hp.1, fun d hd => h.data _ _ (hp.2 d hd)⟩
  show P (loadTables sc)
  unfold loadTables
  apply hP _ _ (tsub_foldl _ tsub_addRouter _ sc.routers)
  apply foldl_establishes addNode tsub_addNode P hP n _ emptyWorld sc.nodes hn
  intro w
  unfold addNode
  apply foldl_establishes (addService n.id) (tsub_addService n.id) P hP s _ _ n.services hs
  intro w'
  simp only [addService, hm, if_false, P]
  constructor
  · exact (mem_agetD_addTo _ _ _ _ _).2 (Or.inr ⟨rfl, by simp⟩)
  · intro d hd
    have hne : s.data ≠ [] := fun h => by rw [h] at hd; cases hd
    simp only [hne, if_false]
    exact (mem_agetD_addTo _ _ _ _ _).2 (Or.inr ⟨rfl, List.mem_map.2 ⟨d, hd, rfl⟩⟩)

theorem alookup_map_self {κ ν} [DecidableEq κ] (f : κ → ν) (k : κ) (l : List κ) :
    alookup k (l.map (fun x => (x, f x))) = if k ∈ l then some (f k) else none := by
  induction l with
  | nil => rfl
  | cons x xs ih =>
    simp only [List.map_cons, alookup, List.mem_cons]
    by_cases h : x = k
    · subst h; simp
    · have : ¬ k = x := fun e => h e.symm
      simp [h, this, ih]

/-- **The firewall table** is exactly: both ends are addresses of the world, and (firewall on) the
connection is inside one private network, or from a private network to a public one (plus the
public host's self-loop), or matched by an ALLOW rule of a router; (firewall off) anything. -/
theorem C03_load_firewall (sc : Scenario) (useFw : Bool) (s d : IP) :
    (load sc useFw).allowed s d = true ↔
      s ∈ allIps (loadTables sc) ∧ d ∈ allIps (loadTables sc) ∧ connAllowed (loadTables sc) (allRules sc) useFw s d = true := by
  simp only [World.allowed, load, fwTable, alookup_map_self]
  by_cases hs : s ∈ (allIps (loadTables sc)).eraseDups
  · have hs' : s ∈ allIps (loadTables sc) := by simpa [List.mem_eraseDups] using hs
    simp only [hs, if_true, decide_eq_true_eq, List.mem_filter, List.mem_eraseDups]
    constructor
    · rintro ⟨h1, h2⟩; exact ⟨hs', h1, h2⟩
    · rintro ⟨_, h1, h2⟩; exact ⟨h1, h2⟩
  · simp only [hs, if_false]
    have : s ∉ allIps (loadTables sc) := by simpa [List.mem_eraseDups] using hs
    simp [this]

/-- with the firewall switched off every address may connect to every address -/
theorem C03_load_firewall_off (sc : Scenario) (s d : IP) (hs : s ∈ allIps (loadTables sc)) (hd : d ∈ allIps (loadTables sc)) :
    (load sc false).allowed s d = true :=
  (C03_load_firewall sc false s d).2 ⟨hs, hd, by simp [connAllowed]⟩

/-- the loaded world is fresh (working tables = pristine copies, no blocks): C08 applies to it -/
theorem C03_load_fresh (sc : Scenario) (fw : Bool) : (load sc fw).Fresh := by
  refine ⟨rfl, rfl, ?_⟩
  have key : ∀ (w : World), w.blocks = [] → ∀ n, (addNode w n).blocks = [] := by
    intro w hw n
    have h1 : ∀ (l : List SIface) (w : World), w.blocks = [] → (l.foldl (addIface n.id) w).blocks = [] := by
      intro l; induction l with
      | nil => intro w h; exact h
      | cons x xs ih => intro w h; exact ih _ (by simpa [addIface] using h)
    have h2 : ∀ (l : List SService) (w : World), w.blocks = [] → (l.foldl (addService n.id) w).blocks = [] := by
      intro l; induction l with
      | nil => intro w h; exact h
      | cons x xs ih => intro w h; exact ih _ (by unfold addService; split <;> simpa using h)
    exact h2 _ _ (h1 _ _ hw)
  have hnodes : ∀ (l : List SNode) (w : World), w.blocks = [] → (l.foldl addNode w).blocks = [] := by
    intro l; induction l with
    | nil => intro w h; exact h
    | cons x xs ih => intro w h; exact ih _ (key w h x)
  have hrouters : ∀ (l : List SRouter) (w : World), w.blocks = [] → (l.foldl addRouter w).blocks = [] := by
    intro l; induction l with
    | nil => intro w h; exact h
    | cons x xs ih =>
      intro w h; apply ih
      unfold addRouter; split
      · exact h
      · have : ∀ (l : List SIface) (w : World), w.blocks = [] → (l.foldl (addIface x.id) w).blocks = [] := by
          intro l; induction l with
          | nil => intro w h; exact h
          | cons y ys ih2 => intro w h; exact ih2 _ (by simpa [addIface] using h)
        exact this _ _ h
  exact hrouters _ _ (hnodes _ _ rfl)

end NSG
