import NSG.Model.Relabel
import NSG.Lemmas.Maps
/-! # C13 — dynamic addresses re-label the network without changing it

Main theorem `C13_equivariant`: for a one-to-one renaming of addresses `σ` and a renaming of
networks `τ` that keeps masks and network membership, executing the translated action on the
translated view in the translated world gives exactly the translation of what the original action
gives - for every world, view and action. Hence translated action sequences produce translated
observations (`C13_sequences`), and a goal is met by a view iff the translated goal is met by the
translated view. The generator's arithmetic is `C13_distances`, `C13_shift_*`. -/
namespace NSG
open World

variable {σ : IP → IP} {τ : Net → Net}

theorem mem_map_inj {α β} {f : α → β} (hf : Function.Injective f) (x : α) (l : List α) : f x ∈ l.map f ↔ x ∈ l := by
  simp only [List.mem_map]
  constructor
  · rintro ⟨y, hy, he⟩; exact hf he ▸ hy
  · intro h; exact ⟨x, h, rfl⟩

theorem alookup_mapKV {κ κ' ν ν'} [DecidableEq κ] [DecidableEq κ'] (f : κ → κ') (g : ν → ν') (hf : Function.Injective f)
    (k : κ) (m : AMap κ ν) : alookup (f k) (mapKV f g m) = (alookup k m).map g := by
  induction m with
  | nil => rfl
  | cons p ps ih =>
    obtain ⟨k', v⟩ := p
    simp only [mapKV, List.map_cons, alookup] at ih ⊢
    by_cases h : k' = k
    · subst h; simp
    · have : f k' ≠ f k := fun e => h (hf e)
      simp only [h, this, if_false]; exact ih

theorem akeys_mapKV {κ κ' ν ν'} (f : κ → κ') (g : ν → ν') (m : AMap κ ν) : akeys (mapKV f g m) = (akeys m).map f := by
  simp [akeys, mapKV, List.map_map]

theorem agetD_mapKV {κ κ' ν ν'} [DecidableEq κ] [DecidableEq κ'] (f : κ → κ') (g : ν → ν') (hf : Function.Injective f)
    (k : κ) (m : AMap κ (List ν)) : agetD (f k) (mapKV f (List.map g) m) = (agetD k m).map g := by
  simp only [agetD, alookup_mapKV f (List.map g) hf]; cases alookup k m <;> simp

theorem addTo_mapKV {κ κ' ν ν'} [DecidableEq κ] [DecidableEq κ'] (f : κ → κ') (g : ν → ν') (hf : Function.Injective f)
    (k : κ) (new : List ν) (m : AMap κ (List ν)) :
    addTo (f k) (new.map g) (mapKV f (List.map g) m) = mapKV f (List.map g) (addTo k new m) := by
  simp only [addTo, alookup_mapKV f (List.map g) hf]
  cases alookup k m <;> simp [aset, mapKV]

theorem filter_ne_map (hσ : Function.Injective σ) (x : IP) (l : List IP) :
    (l.map σ).filter (fun y => !decide (y = σ x)) = (l.filter (fun y => !decide (y = x))).map σ := by
  induction l with
  | nil => rfl
  | cons y ys ih =>
    simp only [List.map_cons, List.filter_cons]
    by_cases h : y = x
    · subst h; simpa using ih
    · have : σ y ≠ σ x := fun e => h (hσ e)
      simp only [this, decide_false, Bool.not_false, if_true, h, List.map_cons, List.cons.injEq, true_and]
      exact ih

theorem discardFrom_mapKV (hσ : Function.Injective σ) (k x : IP) (m : AMap IP (List IP)) :
    discardFrom (σ k) (σ x) (mapKV σ (List.map σ) m) = mapKV σ (List.map σ) (discardFrom k x m) := by
  simp only [discardFrom, alookup_mapKV σ (List.map σ) hσ]
  cases alookup k m with
  | none => rfl
  | some old => simp [aset, mapKV, filter_ne_map hσ]

theorem allowed_relabel (hσ : Function.Injective σ) (w : World) (s d : IP) :
    (w.relabel σ τ).allowed (σ s) (σ d) = w.allowed s d := by
  simp only [allowed, World.relabel, alookup_mapKV σ (List.map σ) hσ]
  cases alookup s w.fw with
  | none => rfl
  | some l => simp [mem_map_inj hσ]

theorem netsOf_relabel (hσ : Function.Injective σ) (w : World) (ip : IP) :
    (w.relabel σ τ).netsOf (σ ip) = (w.netsOf ip).map τ := by
  simp only [netsOf, World.relabel, mapKV, List.filter_map, List.map_map]
  congr 1
  apply List.filter_congr
  intro p _
  simp [mem_map_inj hσ]

theorem servicesOf_relabel (hσ : Function.Injective σ) (w : World) (ip : IP) (c : List IP) :
    (w.relabel σ τ).servicesOf (σ ip) (c.map σ) = w.servicesOf ip c := by
  simp only [servicesOf, World.relabel, alookup_mapKV σ id hσ]
  cases alookup ip w.hostname with
  | none => rfl
  | some hn => simp [mem_map_inj hσ]

theorem dataIn_relabel (hσ : Function.Injective σ) (w : World) (ip : IP) (c : List IP) :
    (w.relabel σ τ).dataIn (σ ip) (c.map σ) = w.dataIn ip c := by
  simp only [dataIn, World.relabel, alookup_mapKV σ id hσ, mem_map_inj hσ]
  cases alookup ip w.hostname <;> simp

theorem blocksIn_relabel (hσ : Function.Injective σ) (w : World) (ip : IP) (c : List IP) :
    (w.relabel σ τ).blocksIn (σ ip) (c.map σ) = (w.blocksIn ip c).map σ := by
  simp only [blocksIn, World.relabel, hostExists, alookup_mapKV σ id hσ, alookup_mapKV σ (List.map σ) hσ, mem_map_inj hσ,
    Option.isSome_map]
  by_cases h1 : ip ∈ c
  · simp only [h1, if_true]
    by_cases h2 : (alookup ip w.hostname).isSome = true
    · simp only [h2, if_true]; cases alookup ip w.blocks <;> simp
    · simp [h2]
  · simp [h1]

/-- `τ` keeps masks and membership of the world's hosts in the scanned network -/
structure NetCompat (σ : IP → IP) (τ : Net → Net) (w : World) (n : Net) : Prop where
  mask : (τ n).mask = n.mask
  member : ∀ ip ∈ akeys w.hostname, inNet (σ ip) (τ n) = inNet ip n

def relabelResult (σ : IP → IP) (τ : Net → Net) (r : Option (World × View)) : Option (World × View) :=
  r.map (fun p => (p.1.relabel σ τ, p.2.relabel σ τ))

theorem map_ne_nil_iff {α β} (f : α → β) (l : List α) : l.map f ≠ [] ↔ l ≠ [] := by cases l <;> simp

theorem addTo_mapKV_id {κ κ' ν} [DecidableEq κ] [DecidableEq κ'] (f : κ → κ') (hf : Function.Injective f)
    (k : κ) (new : List ν) (m : AMap κ (List ν)) :
    addTo (f k) new (mapKV f id m) = mapKV f id (addTo k new m) := by
  simp only [addTo, alookup_mapKV f id hf]
  cases alookup k m <;> simp [aset, mapKV]

theorem hostname_relabel (hσ : Function.Injective σ) (w : World) (ip : IP) :
    alookup (σ ip) (w.relabel σ τ).hostname = alookup ip w.hostname := by
  simp [World.relabel, alookup_mapKV σ id hσ]

theorem eq_scan (hσ : Function.Injective σ) (w : World) (v : View) (src : IP) (net : Net) (hc : NetCompat σ τ w net) :
    step (w.relabel σ τ) (v.relabel σ τ) (.scan (σ src) (τ net)) = relabelResult σ τ (step w v (.scan src net)) := by
  have hnil : (w.relabel σ τ).hostname ≠ [] ↔ w.hostname ≠ [] := by
    simp only [World.relabel, mapKV]; exact map_ne_nil_iff _ _
  have hk : akeys (w.relabel σ τ).hostname = (akeys w.hostname).map σ := by simp [World.relabel, akeys_mapKV]
  have hfil : (akeys (w.relabel σ τ).hostname).filter (fun ip => inNet ip (τ net) && (w.relabel σ τ).allowed (σ src) ip)
      = ((akeys w.hostname).filter (fun ip => inNet ip net && w.allowed src ip)).map σ := by
    rw [hk, List.filter_map]
    congr 1
    apply List.filter_congr
    intro ip hip
    simp [hc.member ip hip, allowed_relabel hσ]
  simp only [step, View.relabel, mem_map_inj hσ, relabelResult, hc.mask]
  by_cases hs : src ∈ v.controlled
  · simp only [hs, if_true]
    by_cases hm : net.mask > 32 ∧ w.hostname ≠ []
    · have : net.mask > 32 ∧ (w.relabel σ τ).hostname ≠ [] := ⟨hm.1, hnil.2 hm.2⟩
      simp [hm, this]
    · have : ¬ (net.mask > 32 ∧ (w.relabel σ τ).hostname ≠ []) := fun h => hm ⟨h.1, hnil.1 h.2⟩
      simp only [hm, this, if_false, Option.map_some, hfil, List.map_append]
  · simp [hs]

theorem eq_findServices (hσ : Function.Injective σ) (w : World) (v : View) (src tgt : IP) :
    step (w.relabel σ τ) (v.relabel σ τ) (.findServices (σ src) (σ tgt)) = relabelResult σ τ (step w v (.findServices src tgt)) := by
  simp only [step, View.relabel, mem_map_inj hσ, relabelResult, allowed_relabel hσ, servicesOf_relabel hσ, netsOf_relabel hσ]
  by_cases hs : src ∈ v.controlled
  · by_cases hf : w.allowed src tgt = true
    · by_cases he : w.servicesOf tgt v.controlled = []
      · simp [hs, hf, he]
      · by_cases hk : tgt ∈ v.known <;> simp [hs, hf, he, hk, mapKV, aset]
    · simp [hs, hf]
  · simp [hs]

theorem eq_findData (hσ : Function.Injective σ) (w : World) (v : View) (src tgt : IP) :
    step (w.relabel σ τ) (v.relabel σ τ) (.findData (σ src) (σ tgt)) = relabelResult σ τ (step w v (.findData src tgt)) := by
  simp only [step, View.relabel, mem_map_inj hσ, relabelResult, allowed_relabel hσ, dataIn_relabel hσ, blocksIn_relabel hσ]
  by_cases hs : src ∈ v.controlled
  · by_cases hf : w.allowed src tgt = true
    · simp only [hs, hf, if_true, Option.map_some, Option.some.injEq, Prod.mk.injEq, true_and, View.mk.injEq, and_true]
      refine ⟨?_, ?_⟩
      · by_cases hd : w.dataIn tgt v.controlled = []
        · simp [hd]
        · simp only [hd, ne_eq, not_false_eq_true, if_true]
          exact addTo_mapKV_id σ hσ tgt _ v.data
      · by_cases hb : w.blocksIn tgt v.controlled = []
        · simp [hb]
        · have hb' : (w.blocksIn tgt v.controlled).map σ ≠ [] := (map_ne_nil_iff _ _).2 hb
          simp only [hb, hb', ne_eq, not_false_eq_true, if_true]
          exact addTo_mapKV σ σ hσ tgt _ v.blocks
    · simp [hs, hf]
  · simp [hs]

theorem eq_block (hσ : Function.Injective σ) (w : World) (v : View) (src tgt blocked : IP) :
    step (w.relabel σ τ) (v.relabel σ τ) (.block (σ src) (σ tgt) (σ blocked)) = relabelResult σ τ (step w v (.block src tgt blocked)) := by
  simp only [step, View.relabel, mem_map_inj hσ, relabelResult, allowed_relabel hσ]
  by_cases hs : src ∈ v.controlled
  · by_cases ht : tgt ∈ v.controlled
    · by_cases hf : w.allowed src tgt = true
      · by_cases hne : tgt = blocked
        · subst hne; simp [hs, ht, hf]
        · have hne' : σ tgt ≠ σ blocked := fun e => hne (hσ e)
          have h1 := addTo_mapKV σ σ hσ tgt [blocked] w.blocks
          have h2 := addTo_mapKV σ σ hσ blocked [tgt] (addTo tgt [blocked] w.blocks)
          have h3 := addTo_mapKV σ σ hσ tgt [blocked] v.blocks
          have h4 := addTo_mapKV σ σ hσ blocked [tgt] (addTo tgt [blocked] v.blocks)
          simp only [List.map_cons, List.map_nil] at h1 h2 h3 h4
          simp only [hs, ht, hf, hne, hne', ne_eq, not_false_eq_true, if_true, Option.map_some, Option.some.injEq, Prod.mk.injEq]
          refine ⟨?_, ?_⟩
          · simp only [World.relabel, World.mk.injEq, true_and, and_true]
            exact ⟨by rw [discardFrom_mapKV hσ, discardFrom_mapKV hσ], by rw [h1, h2]⟩
          · simp only [View.mk.injEq, true_and]; rw [h3, h4]
      · simp [hs, ht, hf]
    · simp [hs, ht]
  · simp [hs]

theorem eq_exploit (hσ : Function.Injective σ) (w : World) (v : View) (src tgt : IP) (svc : Service) :
    step (w.relabel σ τ) (v.relabel σ τ) (.exploit (σ src) (σ tgt) svc) = relabelResult σ τ (step w v (.exploit src tgt svc)) := by
  have hsv : (w.relabel σ τ).services = w.services := rfl
  have hvs : alookup (σ tgt) (mapKV σ id v.services) = alookup tgt v.services := by
    simp [alookup_mapKV σ id hσ]
  simp only [step, View.relabel, mem_map_inj hσ, relabelResult, allowed_relabel hσ, hostname_relabel hσ, hsv, hvs, netsOf_relabel hσ]
  by_cases hs : src ∈ v.controlled
  · simp only [hs, if_true]
    cases hh : alookup tgt w.hostname with
    | none => rfl
    | some hn =>
      simp only
      by_cases hf : w.allowed src tgt = true
      · simp only [hf, if_true]
        cases hss : alookup hn w.services with
        | none => rfl
        | some ss =>
          simp only
          by_cases hm : svc ∈ ss
          · simp only [hm, if_true]
            cases hk : alookup tgt v.services with
            | none => rfl
            | some ks =>
              simp only
              by_cases hkm : svc ∈ ks
              · by_cases hc : tgt ∈ v.controlled <;> simp [hkm, hc, mem_map_inj hσ]
              · simp [hkm]
          · simp [hm]
      · simp [hf]
  · simp [hs]

theorem eq_exfil (hσ : Function.Injective σ) (w : World) (v : View) (src tgt : IP) (d : Data) :
    step (w.relabel σ τ) (v.relabel σ τ) (.exfil (σ src) (σ tgt) d) = relabelResult σ τ (step w v (.exfil src tgt d)) := by
  have hda : (w.relabel σ τ).data = w.data := rfl
  have hvd : alookup (σ src) (mapKV σ id v.data) = alookup src v.data := by simp [alookup_mapKV σ id hσ]
  simp only [step, View.relabel, mem_map_inj hσ, relabelResult, allowed_relabel hσ, hostname_relabel hσ, hda, hvd]
  by_cases ht : tgt ∈ v.controlled
  · by_cases hs : src ∈ v.controlled
    · by_cases hf : w.allowed src tgt = true
      · by_cases hk : d ∈ (alookup src v.data).getD []
        · simp only [ht, hs, hf, hk, if_true]
          cases hsh : alookup src w.hostname with
          | none => rfl
          | some shn =>
            simp only
            cases hsd : alookup shn w.data with
            | none => rfl
            | some sd =>
              simp only
              by_cases hp : d ∈ sd
              · simp only [hp, if_true]
                cases hth : alookup tgt w.hostname with
                | none => rfl
                | some thn =>
                  simp only [Option.map_some, Option.some.injEq, Prod.mk.injEq]
                  exact ⟨rfl, by simp only [View.mk.injEq, true_and, and_true]; exact addTo_mapKV_id σ hσ tgt [d] v.data⟩
              · simp [hp]
        · simp [ht, hs, hf, hk]
      · simp [ht, hs, hf]
    · simp [ht, hs]
  · simp [ht]

/-- **Equivariance of every action under a re-labelling**: translated action, translated view,
translated world  ==>  translated result (including "the world cannot process it"). -/
theorem C13_equivariant (hσ : Function.Injective σ) (w : World) (v : View) (a : GAction)
    (hn : ∀ s n, a = .scan s n → NetCompat σ τ w n) :
    step (w.relabel σ τ) (v.relabel σ τ) (a.relabel σ τ) = relabelResult σ τ (step w v a) := by
  cases a with
  | scan s n => exact eq_scan hσ w v s n (hn s n rfl)
  | findServices s t => exact eq_findServices hσ w v s t
  | findData s t => exact eq_findData hσ w v s t
  | exploit s t svc => exact eq_exploit hσ w v s t svc
  | exfil s t d => exact eq_exfil hσ w v s t d
  | block s t b => exact eq_block hσ w v s t b

/-- one agent playing a sequence of actions (its view and the world threaded; an action the world
cannot process changes nothing) -/
def playSeq (w : World) (v : View) : List GAction → World × View
  | [] => (w, v)
  | a :: as => match step w v a with
    | some (w', v') => playSeq w' v' as
    | none => playSeq w v as

theorem hostname_step (w : World) (v : View) (a : GAction) (w' : World) (v' : View) (h : step w v a = some (w', v')) :
    w'.hostname = w.hostname := by
  cases a <;> simp only [step] at h <;> (repeat' split at h) <;> simp_all <;> (obtain ⟨rfl, _⟩ := h; rfl)

/-- **Translated action sequences produce translated observations**, for sequences of any length. -/
theorem C13_sequences (hσ : Function.Injective σ) (w : World) (v : View) (as : List GAction)
    (hn : ∀ a ∈ as, ∀ s n, a = .scan s n → (τ n).mask = n.mask ∧ ∀ ip ∈ akeys w.hostname, inNet (σ ip) (τ n) = inNet ip n) :
    playSeq (w.relabel σ τ) (v.relabel σ τ) (as.map (GAction.relabel σ τ)) =
      ((playSeq w v as).1.relabel σ τ, (playSeq w v as).2.relabel σ τ) := by
  induction as generalizing w v with
  | nil => rfl
  | cons a as ih =>
    simp only [List.map_cons, playSeq]
    have hc : ∀ s n, a = .scan s n → NetCompat σ τ w n := fun s n h =>
      let ⟨h1, h2⟩ := hn a List.mem_cons_self s n h; ⟨h1, h2⟩
    rw [C13_equivariant hσ w v a hc]
    cases hst : step w v a with
    | none =>
      simp only [relabelResult, Option.map_none]
      exact ih w v (fun b hb => hn b (List.mem_cons_of_mem _ hb))
    | some r =>
      obtain ⟨w', v'⟩ := r
      simp only [relabelResult, Option.map_some]
      apply ih w' v'
      intro b hb s n h
      rw [hostname_step w v a w' v' hst]
      exact hn b (List.mem_cons_of_mem _ hb) s n h

/-- **The generator's arithmetic**: giving the lowest private network a fresh base and every other
private network the same offset keeps all distances between private networks (and the masks). -/
theorem C13_distances (oldBase newBase : Nat) (a b : Net) (ha : oldBase ≤ a.addr) (hb : oldBase ≤ b.addr) :
    ((shiftNet oldBase newBase a).addr : Int) - (shiftNet oldBase newBase b).addr = (a.addr : Int) - b.addr ∧
    (shiftNet oldBase newBase a).mask = a.mask := by
  simp only [shiftNet]; constructor
  · omega
  · trivial

theorem C13_shift_injective (oldBase newBase : Nat) (a b : Net) (ha : oldBase ≤ a.addr) (hb : oldBase ≤ b.addr)
    (h : shiftNet oldBase newBase a = shiftNet oldBase newBase b) : a = b := by
  cases a; cases b; simp only [shiftNet, Net.mk.injEq] at h ⊢; simp only at ha hb; omega

/-- an address placed inside its new network at the same offset stays a member, for every mask -/
theorem C13_member_shift (ip : IP) (n : Net) (newAddr : Nat) (off : Nat) (hm : n.mask ≤ 32)
    (hin : ip = n.addr + off) (hoff : off < 2 ^ (32 - n.mask)) (hal : n.addr % 2 ^ (32 - n.mask) = 0)
    (hal' : newAddr % 2 ^ (32 - n.mask) = 0) :
    inNet (newAddr + off) { addr := newAddr, mask := n.mask } = true ∧ inNet ip n = true := by
  simp only [inNet, Nat.shiftRight_eq_div_pow, beq_iff_eq]
  subst hin
  have hp : 0 < 2 ^ (32 - n.mask) := Nat.two_pow_pos _
  have key : ∀ base : Nat, base % 2 ^ (32 - n.mask) = 0 → (base + off) / 2 ^ (32 - n.mask) = base / 2 ^ (32 - n.mask) := by
    intro base hb
    obtain ⟨q, hq⟩ := Nat.dvd_of_mod_eq_zero hb
    rw [hq, Nat.mul_add_div hp, Nat.div_eq_of_lt hoff, Nat.mul_div_cancel_left _ hp]; simp
  exact ⟨key newAddr hal', key n.addr hal⟩

end NSG
