import NSG.Model.World
/-! # C02 — world actions have no effect unless their preconditions hold -/
namespace NSG

/-- For every world, view and action (existing or non-existing hosts, networks, services, data):
if the documented precondition is false the step returns the same view and the same world
(and does not raise). -/
theorem C02_no_effect (w : World) (v : View) (a : GAction) (h : pre w v a = false) :
    step w v a = some (w, v) := by
  cases a with
  | scan src net => simp_all [pre, step]
  | findServices src tgt =>
    simp only [pre, Bool.and_eq_false_iff, decide_eq_false_iff_not] at h
    unfold step
    rcases h with h | h <;> simp [h]
  | findData src tgt =>
    simp only [pre, Bool.and_eq_false_iff, decide_eq_false_iff_not] at h
    unfold step
    rcases h with (h | h) | h
    · simp [h]
    · simp [h]
    · by_cases h1 : src ∈ v.controlled <;> by_cases h2 : w.allowed src tgt = true <;>
        simp [h1, h2, World.dataIn, World.blocksIn, h]
  | exploit src tgt svc =>
    simp only [pre, Bool.and_eq_false_iff, decide_eq_false_iff_not] at h
    unfold step
    rcases h with ((h | h) | h) | h
    · simp [h]
    · by_cases h1 : src ∈ v.controlled <;> simp [h1, h]
      cases alookup tgt w.hostname <;> simp
    · by_cases h1 : src ∈ v.controlled <;> simp [h1]
      cases hh : alookup tgt w.hostname with
      | none => simp
      | some hn =>
        simp only []
        by_cases h2 : w.allowed src tgt = true <;> simp [h2]
        cases hs : alookup hn w.services with
        | none => simp
        | some ss =>
          have : svc ∉ ss := by
            simpa [World.servicesOf, hh, hs] using h
          simp [this]
    · by_cases h1 : src ∈ v.controlled <;> simp [h1]
      cases hh : alookup tgt w.hostname with
      | none => simp
      | some hn =>
        simp only []
        by_cases h2 : w.allowed src tgt = true <;> simp [h2]
        cases hs : alookup hn w.services with
        | none => simp
        | some ss =>
          simp only []
          by_cases h3 : svc ∈ ss <;> simp [h3]
          cases hk : alookup tgt v.services with
          | none => simp
          | some ks =>
            have : svc ∉ ks := by simpa [hk] using h
            simp [this]
  | exfil src tgt d =>
    simp only [pre, Bool.and_eq_false_iff, decide_eq_false_iff_not] at h
    unfold step
    rcases h with ((h | h) | h) | h
    · by_cases h1 : tgt ∈ v.controlled <;> simp [h1, h]
    · simp [h]
    · by_cases h1 : tgt ∈ v.controlled <;> by_cases h2 : src ∈ v.controlled <;> simp [h1, h2, h]
    · by_cases h1 : tgt ∈ v.controlled <;> by_cases h2 : src ∈ v.controlled <;>
        by_cases h3 : w.allowed src tgt = true <;> simp [h1, h2, h3, h]
  | block src tgt blocked =>
    simp only [pre, Bool.and_eq_false_iff, decide_eq_false_iff_not] at h
    unfold step
    rcases h with ((h | h) | h) | h
    · simp [h]
    · by_cases h1 : src ∈ v.controlled <;> simp [h1, h]
    · by_cases h1 : src ∈ v.controlled <;> by_cases h2 : tgt ∈ v.controlled <;> simp [h1, h2, h]
    · have h' : tgt = blocked := by simpa using h
      by_cases h1 : src ∈ v.controlled <;> by_cases h2 : tgt ∈ v.controlled <;>
        by_cases h3 : w.allowed src tgt = true <;> simp [h1, h2, h3, h']

/-- The world tables never change on a step that is not a successful exfiltration or block,
whatever the precondition: only `data`, `fw` and `blocks` can change at all. -/
theorem C02_world_frame (w : World) (v : View) (a : GAction) (w' : World) (v' : View)
    (h : step w v a = some (w', v')) :
    w'.hostname = w.hostname ∧ w'.nets = w.nets ∧ w'.services = w.services ∧
    w'.dataOrig = w.dataOrig ∧ w'.fwOrig = w.fwOrig := by
  cases a <;> simp only [step] at h <;> (repeat' split at h) <;> simp_all <;>
    (obtain ⟨rfl, _⟩ := h; simp)

end NSG
