import NSG.Generated.Tables
/-! Obligation(s) stated over the tables regenerated from /repo's current source on every run:
a source change that falsifies them makes `decide` fail, i.e. breaks a proof obligation. -/
namespace NSG.Generated
open NSG.Defender

def allATy : List ATy := [.scanNetwork, .findServices, .findData, .exploitService, .exfiltrateData, .blockIP, .joinGame, .quitGame, .resetGame]
theorem mem_allATy (t : ATy) : t ∈ allATy := by cases t <;> decide

/-- C17: the defender's tables are well-formed: every monitored type has a ratio threshold and a
probability in [0,1]; so the `none` branches of the model (where the Python would raise KeyError)
are unreachable. -/
theorem gen_C17_tables_wf :
    ∀ t ∈ allATy, monitored defenderTables t = true →
      (defenderTables.ratio t).isSome = true ∧
      ∃ p, defenderTables.prob t = some p ∧ p.num ≤ p.den ∧ 0 < p.den := by decide

end NSG.Generated
