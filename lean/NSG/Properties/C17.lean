import NSG.Model.Defender
/-! # C17 — the global defender detects only past its thresholds, with the stated odds -/
namespace NSG.Defender

/-- Detection implies: episode (incl. this action) at least one window long, monitored type,
threshold condition met. -/
theorem C17_only_if (T : Tables) (tw : Nat) (hist : List Act) (a : Act) (roll : Frac)
    (h : detect T tw hist a roll = true) :
    tw ≤ hist.length + 1 ∧ monitored T a.ty = true ∧ trigger T tw hist a = true := by
  unfold detect at h
  simp only [List.length_append, List.length_cons, List.length_nil] at h
  split at h
  · rename_i hlen
    refine ⟨by omega, ?_, ?_⟩
    · unfold monitored
      cases hc : T.consec a.ty <;> cases hr : T.repeat_ a.ty <;> simp_all
    · unfold trigger
      cases hc : T.consec a.ty <;> cases hr : T.repeat_ a.ty <;> cases ht : T.ratio a.ty <;>
        simp_all <;> (split at h <;> simp_all) <;> omega
  · simp at h

/-- When the window is full, the type monitored (with a ratio threshold) and the threshold condition
holds, the verdict is exactly the Bernoulli draw `roll < p(type)`: it depends on nothing else. -/
theorem C17_iff (T : Tables) (tw : Nat) (hist : List Act) (a : Act) (roll : Frac)
    (hlen : tw ≤ hist.length + 1) (htr : trigger T tw hist a = true) :
    detect T tw hist a roll = draw T a.ty roll := by
  unfold detect
  simp only [List.length_append, List.length_cons, List.length_nil]
  rw [if_pos (by omega)]
  unfold trigger at htr
  cases hc : T.consec a.ty <;> cases hr : T.repeat_ a.ty <;> cases ht : T.ratio a.ty <;>
    simp_all <;> (intro h1 h2; omega)

/-- Below the thresholds (or window not full, or type not monitored) nothing is ever detected,
whatever the roll. -/
theorem C17_never_below (T : Tables) (tw : Nat) (hist : List Act) (a : Act) (roll : Frac)
    (h : ¬ (tw ≤ hist.length + 1 ∧ monitored T a.ty = true ∧ trigger T tw hist a = true)) :
    detect T tw hist a roll = false := by
  cases hd : detect T tw hist a roll
  · rfl
  · exact absurd (C17_only_if T tw hist a roll hd) h

/-- The draw is `roll < p`: detected with exactly the configured probability when the roll is uniform. -/
theorem C17_draw (T : Tables) (t : ATy) (p roll : Frac) (hp : T.prob t = some p) :
    draw T t roll = decide (roll.num * p.den < p.num * roll.den) := by
  simp [draw, hp, Frac.lt]

/-- The verdict is a function of (history, action, roll) only - there is no other argument -
and it is insensitive to the *parameters* of earlier actions of a type with a consecutive threshold
except through their types: stated as congruence under type-preserving, equality-preserving maps
is not needed; determinism is definitional. Here: non-vacuity examples. -/
def exT : Tables :=
  { prob := fun t => match t with | .scanNetwork => some ⟨5, 100⟩ | .findData => some ⟨25, 1000⟩ | _ => none
    ratio := fun t => match t with | .scanNetwork => some ⟨25, 100⟩ | .findData => some ⟨5, 10⟩ | _ => none
    consec := fun t => match t with | .scanNetwork => some 2 | _ => none
    repeat_ := fun t => match t with | .findData => some 2 | _ => none }

example : detect exT 5 [⟨.findServices,1⟩,⟨.findServices,2⟩,⟨.findData,3⟩,⟨.scanNetwork,1⟩] ⟨.scanNetwork,2⟩ ⟨1,100⟩ = true := by decide
example : detect exT 5 [⟨.findServices,1⟩,⟨.findServices,2⟩,⟨.findData,3⟩,⟨.scanNetwork,1⟩] ⟨.scanNetwork,2⟩ ⟨5,100⟩ = false := by decide
example : trigger exT 5 [⟨.findServices,1⟩,⟨.findServices,2⟩,⟨.findData,3⟩,⟨.scanNetwork,1⟩] ⟨.scanNetwork,2⟩ = true := by decide
example : detect exT 5 [⟨.findServices,1⟩,⟨.findData,3⟩] ⟨.scanNetwork,2⟩ ⟨0,1⟩ = false := by decide
example : detect exT 5 [⟨.findData,3⟩,⟨.findServices,1⟩,⟨.findServices,1⟩,⟨.findServices,1⟩] ⟨.findData,3⟩ ⟨0,1⟩ = true := by decide

end NSG.Defender
