import NSG.Properties.C07
import NSG.Properties.C05
/-! # C10 — an agent may leave at any moment without harming the others -/
namespace NSG.Coord
open NSG NSG.Defender

/-- the two ways a departure reaches the coordinator: an explicit QuitGame message, or the QuitGame
the connection handler sends on the agent's behalf (EOF, read error, failed write) -/
def isDeparture (c : Nat) : Ev → Prop
  | .msg c' .quit _ => c' = c
  | .leave c' _ => c' = c
  | _ => False

theorem removeAgent_ids (s : St) (c : Nat) : c ∉ (removeAgent s c).1.ids ∨ s.inGame c = false := by
  unfold removeAgent
  split
  · left; simp [List.mem_filter]
  · right; rename_i h; simpa using h

/-- **Forgotten.** After a departure of a connection that was being served (reading, or dead after a
failed write): its record is gone from every table, its connection is closed, its slot is returned. -/
theorem C10_forgotten (S : Settings) (s : St) (c : Nat) (e : Ev) (hd : isDeparture c e)
    (hc : s.conn c = .reading ∨ (s.conn c = .dead ∧ ∃ o, e = .leave c o)) :
    (deliver S s e).1.agents c = none := by
  cases e with
  | msg c' m o =>
    cases m <;> simp only [isDeparture] at hd
    subst hd
    rcases hc with hc | ⟨_, o', ho'⟩
    · simp only [deliver, hc, handle]; exact leave_gone S s c' o
    · cases ho'
  | leave c' o =>
    simp only [isDeparture] at hd; subst hd
    rcases hc with hc | ⟨hc, _⟩ <;> (simp only [deliver, hc]; exact leave_gone S s c' o)
  | connect _ => exact absurd hd (by simp [isDeparture])
  | armWriteFault _ => exact absurd hd (by simp [isDeparture])

/-- **Frame.** For every other agent a departure is a sequence of background steps only: its view and
step counter are untouched unless it had itself asked for a reset; a reward that was already
assigned (bonus paid) stays exactly as it was. -/
theorem C10_paid_stays (S : Settings) (a b : Agent) (hs : BStep S a b) (hr : a.resetReq = false) (hp : a.paid = true) :
    b.reward = a.reward ∧ b.paid = true := by
  induction hs with
  | refl a => exact ⟨rfl, hp⟩
  | pay a sa => rw [C05_once S sa a hp]; exact ⟨rfl, hp⟩
  | record a act => exact ⟨rfl, hp⟩
  | reset a v hq => rw [hr] at hq; cases hq
  | restart a => exact ⟨rfl, hp⟩
  | trans h1 _ ih1 ih2 =>
    obtain ⟨g1, g2⟩ := ih1 hr hp
    obtain ⟨_, _, _, g4, _, _⟩ := C07_frame_bstep S _ _ h1 hr
    obtain ⟨k1, k2⟩ := ih2 g4 g2
    exact ⟨k1.trans g1, k2⟩

theorem C10_frame (S : Settings) (s : St) (c d : Nat) (e : Ev) (hd : isDeparture c e) (hne : d ≠ c)
    (a a' : Agent) (ha : s.agents d = some a) (hr : a.resetReq = false)
    (ha' : (deliver S s e).1.agents d = some a') :
    a'.view = a.view ∧ a'.steps = a.steps ∧ a'.ended = a.ended ∧ (a.paid = true → a'.reward = a.reward) := by
  have hs : sender e ≠ some d := by
    cases e with
    | msg c' m o => cases m <;> simp only [isDeparture] at hd; subst hd; simp [sender]; exact fun h => hne h.symm
    | leave c' o => simp [sender]
    | connect _ => simp [sender]
    | armWriteFault _ => simp [sender]
  rcases deliver_trace S s e d a' ha' with ⟨a0, ha0, hb⟩ | ⟨h, _⟩ | ⟨h, _⟩
  · rw [ha] at ha0; cases ha0
    obtain ⟨h1, h2, h3, _, _, _⟩ := C07_frame_bstep S a a' hb hr
    exact ⟨h1, h2, h3, fun hp => (C10_paid_stays S a a' hb hr hp).1⟩
  · exact absurd h hs
  · exact absurd h hs

end NSG.Coord
