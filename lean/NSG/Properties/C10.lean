import NSG.Model.Coord
/-! # C10 (theorems under construction) -/
