import NSG.Generated.Tables
/-! Obligation(s) stated over the tables regenerated from /repo's current source on every run. -/
namespace NSG.Generated

/-- C10: every per-agent table that the coordinator ever reads *as a whole* (all(...), len(...),
iteration - i.e. the tables the barriers are computed from) is emptied of the agent by the removal
routine: a departed agent cannot keep counting towards a barrier. -/
theorem gen_C10_forgotten :
    ∀ t ∈ agentTablesAggregated, t ∈ agentTablesInit → t ∈ agentTablesDropped := by decide

/-- the tables the model's barriers are computed from are among them -/
theorem gen_C10_barrier_tables :
    ∀ t ∈ (["agents", "_episode_ends", "_reset_requests", "_agent_status"] : List String), t ∈ agentTablesInit ∧ t ∈ agentTablesDropped := by decide

end NSG.Generated
