import NSG.Generated.Tables
/-! Obligation(s) stated over the tables regenerated from /repo's current source on every run:
a source change that falsifies them makes `decide` fail, i.e. breaks a proof obligation. -/
namespace NSG.Generated
open NSG.Defender

/-- C09: every parameter an implementation subscripts unconditionally is in the table validated
before dispatch, so a message lacking it is rejected before anything is touched. -/
theorem gen_C09_params_validated :
    paramsUnreadable = 0 ∧
    ∀ p ∈ paramsRead, ∃ r ∈ requiredParams, r.1 = p.1 ∧ ∀ k ∈ p.2, k ∈ r.2 ∧ k ≠ Param.other := by decide

end NSG.Generated
