import NSG.Lemmas.CoordBarrier
/-! # C01 (iii) / C06 / C07 — a postponed answer waits at a documented barrier that is NOT met

For every history (any number of connections, any messages in any order, any departures, any
values returned by the collaborators), at the quiescent point after it:
a request that has been consumed and not answered is parked at exactly one of the three
documented barriers, its sender is in the game, and that barrier is unmet.  Together with
conservation (`C01_history`) this is "an answer may be postponed only by the three barriers and is
delivered as soon as the barrier is met": the delivery that meets the barrier cannot leave the
request parked. -/
namespace NSG.Coord

theorem C01_parked_means_unmet (S : Settings) (es : List Ev) (c : Nat) :
    (((run S init es).1.conn c).pend = 1 → c ∈ (run S init es).1.ids) ∧
    (((run S init es).1.conn c = .parked .joinStart ∨ ∃ t, (run S init es).1.conn c = .parked (.resetStart t)) →
      (run S init es).1.startEv = false) ∧
    ((∃ a, (run S init es).1.conn c = .parked (.gameEnd a)) → ∃ d ∈ (run S init es).1.ids, ((run S init es).1.agent d).ended = false) ∧
    ((∃ t, (run S init es).1.conn c = .parked (.resetWait t)) → ∃ d ∈ (run S init es).1.ids, ((run S init es).1.agent d).resetReq = false) := by
  have hi := (fullInv_run S es).barrier
  refine ⟨hi.present c, ?_, ?_, ?_⟩
  · rintro (h | ⟨t, h⟩) <;> exact hi.start c (by rw [h]; rfl)
  · rintro ⟨a, h⟩
    have := hi.ended c (by rw [h]; rfl)
    simpa [St.allEnded, List.all_eq_false] using this
  · rintro ⟨t, h⟩
    have := hi.reset c (by rw [h]; rfl)
    simpa [St.allReset, List.all_eq_false] using this

/-- every phase of a connection is one of: not connected, reading, parked at one of the four park
points (three barriers), dead (failed write, quit pending), closed - there is no other way to be
"unanswered" -/
theorem C01_unanswered_is_parked (p : Phase) : p.pend = 1 ↔ ∃ q, p = .parked q := by
  cases p <;> simp [Phase.pend]

/-- **C06, completeness of the end barrier**: in the state after any delivery, if every agent in the
game has finished then nobody is waiting for its final observation any more (they were all
released in that delivery, with the rewards assigned by the reward task that ran first). -/
theorem C06_all_ended_all_released (S : Settings) (es : List Ev) (c : Nat) (h : (run S init es).1.allEnded = true) :
    ¬ ∃ a, (run S init es).1.conn c = .parked (.gameEnd a) := by
  rintro ⟨a, hc⟩
  have := (fullInv_run S es).barrier.ended c (by rw [hc]; rfl)
  rw [h] at this; cases this

/-- **C06, completeness of the start barrier**: while the start event is up nobody waits for players -/
theorem C06_started_all_released (S : Settings) (es : List Ev) (c : Nat) (h : (run S init es).1.startEv = true) :
    (run S init es).1.conn c ≠ .parked .joinStart ∧ ∀ t, (run S init es).1.conn c ≠ .parked (.resetStart t) := by
  have hi := (fullInv_run S es).barrier
  constructor
  · intro hc; have := hi.start c (by rw [hc]; rfl); rw [h] at this; cases this
  · intro t hc; have := hi.start c (by rw [hc]; rfl); rw [h] at this; cases this

/-- **C07, completeness of the reset consensus**: if every agent in the game has asked, nobody is
left waiting for the reset (it was carried out in that delivery) -/
theorem C07_consensus_all_released (S : Settings) (es : List Ev) (c : Nat) (h : (run S init es).1.allReset = true) :
    ¬ ∃ t, (run S init es).1.conn c = .parked (.resetWait t) := by
  rintro ⟨t, hc⟩
  have := (fullInv_run S es).barrier.reset c (by rw [hc]; rfl)
  rw [h] at this; cases this

end NSG.Coord
