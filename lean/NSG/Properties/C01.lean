import NSG.Model.Coord
/-! # C01 (theorems under construction) -/
