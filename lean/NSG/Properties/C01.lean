import NSG.Model.Coord
/-! # C01 — every agent message is answered exactly once (in-flight accounting)

`answers d outs`: outputs addressed to connection `d` (a reply, a reply lost in a failed write, or
the closing of the connection).  `pend p`: 1 iff the connection's request is parked at a barrier.
Conservation: for every delivery and every connection,
  answers + pending afterwards = pending before + (1 if this delivery consumed a message / the end of d).
Hence along any history: nothing unsolicited, never two answers, and whatever is consumed and not
yet answered is parked - at exactly one barrier. -/
namespace NSG.Coord
open NSG NSG.Defender

def Phase.pend : Phase → Nat
  | .parked _ => 1
  | _ => 0

def Out.to : Out → Option Nat
  | .reply d _ | .lost d _ | .closed d => some d
  | .refused _ => none

def answers (d : Nat) (outs : List Out) : Nat := (outs.filter (fun o => o.to = some d)).length

theorem answers_append (d : Nat) (a b : List Out) : answers d (a ++ b) = answers d a + answers d b := by
  simp [answers, List.filter_append]

theorem answers_cons (d : Nat) (o : Out) (l : List Out) : answers d (o :: l) = (if o.to = some d then 1 else 0) + answers d l := by
  simp only [answers, List.filter_cons]
  by_cases h : o.to = some d
  · simp [h]; omega
  · simp [h]

/-- conservation for transformers that only answer parked requests -/
def Cons (s : St) (r : St × List Out) : Prop := ∀ d, answers d r.2 + (r.1.conn d).pend = (s.conn d).pend

theorem emit_law (s : St) (c : Nat) (r : Reply) (d : Nat) :
    answers d (emit s c r).2 + ((emit s c r).1.conn d).pend = if d = c then 1 else (s.conn d).pend := by
  unfold emit
  by_cases hd : d = c
  · subst hd; split <;> simp [answers, Out.to, St.setConn, Phase.pend]
  · have : ¬ c = d := fun h => hd h.symm
    split <;> simp [answers, Out.to, St.setConn, Phase.pend, hd, this]

theorem cons_emit_parked (s : St) (c : Nat) (r : Reply) (p : Park) (hc : s.conn c = .parked p) : Cons s (emit s c r) := by
  intro d; rw [emit_law]; split
  · rename_i h; subst h; simp [hc, Phase.pend]
  · rfl

theorem cons_finishGame (s : St) (c : Nat) (a : Act) (p : Park) (hc : s.conn c = .parked p) : Cons s (finishGame s c a) := by
  intro d
  have := cons_emit_parked (s.updAgent c (recordStep a)) c { code := .ok, obs := some (obsOf (s.agent c)) } p hc d
  exact this

theorem cons_finishReset (S : Settings) (s : St) (c : Nat) (t : Bool) (p : Park) (hc : s.conn c = .parked p) : Cons s (finishReset S s c t) := by
  intro d
  exact cons_emit_parked (s.updAgent c restartTraj) c _ p hc d

theorem Cons.step {s : St} {r1 : St × List Out} {r2 : St × List Out} (h1 : Cons s r1) (h2 : Cons r1.1 r2) :
    Cons s (r2.1, r1.2 ++ r2.2) := by
  intro d; have := h1 d; have := h2 d; simp only [answers_append]; omega

theorem cons_releaseEnd (s : St) (l : List Nat) : Cons s (releaseEnd s l) := by
  induction l generalizing s with
  | nil => intro d; simp [releaseEnd, answers]
  | cons c cs ih =>
    simp only [releaseEnd]
    split
    · rename_i a hc
      exact Cons.step (cons_finishGame s c a _ hc) (ih _)
    · exact ih s

theorem cons_releaseStart (S : Settings) (s : St) (l : List Nat) : Cons s (releaseStart S s l) := by
  induction l generalizing s with
  | nil => intro d; simp [releaseStart, answers]
  | cons c cs ih =>
    simp only [releaseStart]
    split
    · rename_i hc; exact Cons.step (cons_emit_parked s c _ _ hc) (ih _)
    · rename_i t hc; exact Cons.step (cons_finishReset S s c t _ hc) (ih _)
    · exact ih s

theorem pend_resetTask (S : Settings) (s : St) (o : Oracle) (d : Nat) : ((resetTask S s o).conn d).pend = (s.conn d).pend := by
  simp only [resetTask]; split <;> simp_all [Phase.pend]

theorem cons_settle (S : Settings) (s : St) (o : Oracle) (e r : Bool) : Cons s (settle S s o e r) := by
  unfold settle
  have h1 : Cons s (if e then releaseEnd (rewardTask S s) s.ids else (s, [])) := by
    cases e
    · intro d; simp [answers]
    · exact cons_releaseEnd (rewardTask S s) s.ids
  generalize (if e then releaseEnd (rewardTask S s) s.ids else (s, [])) = p1 at h1
  obtain ⟨s1, o1⟩ := p1
  simp only at h1 ⊢
  have h2 : ∀ d, ((if r then resetTask S s1 o else s1).conn d).pend = (s1.conn d).pend := by
    intro d; cases r
    · rfl
    · exact pend_resetTask S s1 o d
  generalize (if r then resetTask S s1 o else s1) = s2 at h2
  have h3 : Cons s2 (if s2.startEv then releaseStart S s2 s2.ids else (s2, [])) := by
    split
    · exact cons_releaseStart S s2 _
    · intro d; simp [answers]
  generalize (if s2.startEv then releaseStart S s2 s2.ids else (s2, [])) = p3 at h3
  obtain ⟨s3, o3⟩ := p3
  intro d
  have a1 := h1 d; have a2 := h2 d; have a3 := h3 d
  simp only [answers_append] at *
  omega

/-- what a delivery consumes from connection `d`: one message read by a reading handler, or the end
of the connection (EOF / error seen by a reading handler, the quit after a failed write) -/
def consumed (s : St) (e : Ev) (d : Nat) : Nat :=
  match e with
  | .msg c _ _ => if c = d ∧ s.conn c = .reading then 1 else 0
  | .leave c _ => if c = d ∧ (s.conn c = .reading ∨ s.conn c = .dead) then 1 else 0
  | _ => 0

theorem leave_law (S : Settings) (s : St) (c : Nat) (o : Oracle) (hp : (s.conn c).pend = 0) (d : Nat) :
    let r := settle S (closeConn (removeAgent s c).1 c) o (removeAgent s c).2.1 (removeAgent s c).2.2
    answers d (.closed c :: r.2) + (r.1.conn d).pend = (s.conn d).pend + (if c = d then 1 else 0) := by
  intro r
  have hc := cons_settle S (closeConn (removeAgent s c).1 c) o (removeAgent s c).2.1 (removeAgent s c).2.2 d
  have hconn : ((closeConn (removeAgent s c).1 c).conn d).pend = if c = d then 0 else (s.conn d).pend := by
    have : (removeAgent s c).1.conn = s.conn := by unfold removeAgent; split <;> rfl
    simp only [closeConn, St.setConn, this]
    by_cases h : d = c
    · subst h; simp [Phase.pend]
    · have : ¬ c = d := fun e => h e.symm
      simp [h, this]
  rw [answers_cons]
  simp only [Out.to]
  by_cases h : c = d
  · subst h; simp only [if_true] at hconn ⊢; simp only [r]; omega
  · have : ¬ (some c = some d) := by simpa using h
    simp only [this, h, if_false] at hconn ⊢; simp only [r]; omega

/-- **Conservation** for every event and every connection. -/
theorem C01_conservation (S : Settings) (s : St) (e : Ev) (d : Nat) :
    answers d (deliver S s e).2 + ((deliver S s e).1.conn d).pend = (s.conn d).pend + consumed s e d := by
  cases e with
  | connect c =>
    simp only [deliver, consumed]
    split
    · rename_i hc
      have hp : (s.conn c).pend = 0 := by cases hcc : s.conn c <;> simp_all [Phase.isFree, Phase.pend]
      split
      · by_cases h : d = c
        · subst h; rw [hp]; simp [answers, Out.to, St.setConn, Phase.pend]
        · simp [answers, Out.to, St.setConn, h, Phase.pend]
      · by_cases h : d = c
        · subst h; rw [hp]; simp [answers, St.setConn, Phase.pend]
        · simp [answers, St.setConn, h, Phase.pend]
    · simp [answers]
  | armWriteFault c => simp [deliver, consumed, answers]
  | leave c o =>
    simp only [deliver, consumed]
    split
    · rename_i hc; have := leave_law S s c o (by simp [hc, Phase.pend]) d; simp only [hc, true_or, and_true] at this ⊢; exact this
    · rename_i hc; have := leave_law S s c o (by simp [hc, Phase.pend]) d; simp only [hc, or_true, and_true] at this ⊢; exact this
    · rename_i h1 h2
      have : ¬ (s.conn c = .reading ∨ s.conn c = .dead) := by
        intro h; rcases h with h | h
        · exact h1 h
        · exact h2 h
      simp [answers, this]
  | msg c m o =>
    simp only [deliver, consumed]
    split
    case h_2 hne =>
      have : ¬ (s.conn c = .reading) := fun h => hne h
      simp [answers, this]
    case h_1 hc =>
      simp only [hc, and_true]
      have hp : (s.conn c).pend = 0 := by simp [hc, Phase.pend]
      -- a handler that answers directly
      have direct : ∀ r : Reply, answers d (emit s c r).2 + ((emit s c r).1.conn d).pend = (s.conn d).pend + (if c = d then 1 else 0) := by
        intro r; rw [emit_law]
        by_cases h : d = c
        · subst h; simp [hp]
        · have : ¬ c = d := fun e => h e.symm
          simp [h, this]
      -- a handler that parks its request and lets the background tasks run
      have parked : ∀ (st : St) (p : Park) (e r : Bool), st.conn = s.conn →
          answers d (settle S (st.setConn c (.parked p)) o e r).2 + ((settle S (st.setConn c (.parked p)) o e r).1.conn d).pend
            = (s.conn d).pend + (if c = d then 1 else 0) := by
        intro st p e r hst
        have := cons_settle S (st.setConn c (.parked p)) o e r d
        rw [this]
        by_cases h : d = c
        · subst h; rw [hp]; simp [St.setConn, Phase.pend]
        · have : ¬ c = d := fun e => h e.symm
          simp [St.setConn, h, this, hst]
      cases m with
      | bad => exact direct _
      | quit => exact leave_law S s c o hp d
      | join n r =>
        simp only [handle]
        split
        · exact direct _
        · cases r with
          | none => exact direct _
          | some r =>
            simp only
            split <;> exact parked _ _ _ _ rfl
      | reset t =>
        simp only [handle]
        split
        · exact direct _
        · exact parked _ _ _ _ rfl
      | game a =>
        simp only [handle]
        split
        · exact direct _
        · split
          · exact direct _
          · split
            · exact direct _
            · split
              · exact parked _ _ _ _ rfl
              · simp only [finishGame]
                rw [emit_law]
                by_cases h : d = c
                · subst h; simp [hp]
                · have : ¬ c = d := fun e => h e.symm
                  simp [h, this, St.updAgent]

end NSG.Coord

namespace NSG.Coord

/-- total consumption of connection `d` along a history -/
def consumedRun (S : Settings) : St → List Ev → Nat → Nat
  | _, [], _ => 0
  | s, e :: es, d => consumed s e d + consumedRun S (deliver S s e).1 es d

/-- **Along every history**: (answers so far) + (1 if a request of `d` is parked now) = (messages /
connection ends consumed from `d`).  So every consumed message is answered exactly once or is the
single one still parked; nothing is ever sent that was not asked for. -/
theorem C01_history (S : Settings) (s : St) (es : List Ev) (d : Nat) :
    answers d (run S s es).2 + ((run S s es).1.conn d).pend = (s.conn d).pend + consumedRun S s es d := by
  induction es generalizing s with
  | nil => simp [run, consumedRun, answers]
  | cons e es ih =>
    simp only [run, consumedRun, answers_append]
    have h1 := C01_conservation S s e d
    have h2 := ih (deliver S s e).1
    omega

theorem C01_exactly_once (S : Settings) (es : List Ev) (d : Nat) :
    answers d (run S init es).2 = consumedRun S init es d - ((run S init es).1.conn d).pend ∧
    ((run S init es).1.conn d).pend ≤ consumedRun S init es d := by
  have := C01_history S init es d
  have h0 : (init.conn d).pend = 0 := rfl
  rw [h0] at this
  constructor <;> omega

/-- nothing unsolicited: a delivery that consumes nothing from `d`, while `d` has nothing parked,
sends nothing to `d` -/
theorem C01_no_unsolicited (S : Settings) (s : St) (e : Ev) (d : Nat)
    (hp : (s.conn d).pend = 0) (hc : consumed s e d = 0) : answers d (deliver S s e).2 = 0 := by
  have := C01_conservation S s e d; omega

/-- never two answers: one delivery sends at most one output to a connection -/
theorem C01_at_most_one (S : Settings) (s : St) (e : Ev) (d : Nat) : answers d (deliver S s e).2 ≤ 1 := by
  have := C01_conservation S s e d
  have h1 : (s.conn d).pend ≤ 1 := by cases s.conn d <;> simp [Phase.pend]
  have h2 : consumed s e d ≤ 1 := by
    cases e <;> simp only [consumed] <;> (try split) <;> omega
  have h3 : (s.conn d).pend + consumed s e d ≤ 1 := by
    cases e with
    | msg c m o => simp only [consumed]; split
                   · rename_i h; obtain ⟨rfl, hr⟩ := h; simp [hr, Phase.pend]
                   · omega
    | leave c o => simp only [consumed]; split
                   · rename_i h; obtain ⟨rfl, hr⟩ := h; rcases hr with hr | hr <;> simp [hr, Phase.pend]
                   · omega
    | connect c => simp [consumed]; exact h1
    | armWriteFault c => simp [consumed]; exact h1
  omega

end NSG.Coord
