import NSG.Properties.C09
/-! # C04 — an episode ends exactly when it should, for the right reason, and stays ended -/
namespace NSG.Coord
open NSG NSG.Defender

/-- declarative reading of a win condition: every goal component is contained in the view -/
def GoalMet (g : Goal) (v : View) : Prop :=
  (∀ n ∈ g.nets, n ∈ v.nets) ∧ (∀ x ∈ g.known, x ∈ v.known) ∧ (∀ x ∈ g.controlled, x ∈ v.controlled) ∧
  (∀ h ∈ akeys g.services, h ∈ akeys v.services ∧ ∀ x ∈ agetD h g.services, x ∈ agetD h v.services) ∧
  (∀ h ∈ akeys g.data, h ∈ akeys v.data ∧ ∀ x ∈ agetD h g.data, x ∈ agetD h v.data) ∧
  (∀ h ∈ akeys g.blocks, h ∈ akeys v.blocks ∧ ∀ x ∈ agetD h g.blocks, x ∈ agetD h v.blocks)

theorem goalDict_iff {α} [DecidableEq α] (g k : AMap IP (List α)) :
    goalDict g k = true ↔ ∀ h ∈ akeys g, h ∈ akeys k ∧ ∀ x ∈ agetD h g, x ∈ agetD h k := by
  simp only [goalDict, List.all_eq_true, Bool.and_eq_true, decide_eq_true_eq, alookup_isSome_iff_mem_keys]

/-- the goal check of the code (six subset tests, dictionary test = keys ⊆ keys ∧ per-key subset)
is exactly "every goal component is contained in the view" -/
theorem C04_goalCheck_iff (g : Goal) (v : View) : goalCheck g v = true ↔ GoalMet g v := by
  simp only [goalCheck, GoalMet, Bool.and_eq_true, List.all_eq_true, decide_eq_true_eq, goalDict_iff, and_assoc]

/-- the status rule with its precedence: goal, then detection, then timeout -/
theorem C04_status (S : Settings) (ag : Agent) (a : Act) (roll : Frac) :
    nextStatus S ag a roll =
      if goalCheck (S.goal ag.role) ag.view then Status.success
      else if isDetected S (ag.traj.map (·.act)) a roll then Status.fail
      else if isTimeout S ag.role ag.steps then Status.timeoutReached else ag.status := rfl

/-- reaching the goal exactly on the last allowed step (or while being detected) is a Success -/
theorem C04_boundary (S : Settings) (ag : Agent) (a : Act) (roll : Frac)
    (hg : GoalMet (S.goal ag.role) ag.view) : nextStatus S ag a roll = .success := by
  simp [nextStatus, (C04_goalCheck_iff _ _).2 hg]

theorem C04_timeout_iff (S : Settings) (r : Role) (steps : Nat) :
    isTimeout S r steps = true ↔ ∃ n, S.maxSteps r = some n ∧ n ≠ 0 ∧ n ≤ steps := by
  unfold isTimeout
  cases h : S.maxSteps r with
  | none => simp
  | some n => cases n <;> simp

/-- What one executed game action of a playing agent does (`v'` = the view the world returned):
the counter grows by one, the view is the returned one, the status follows the rule above, the reward
is the step reward. -/
theorem C04_played (S : Settings) (ag : Agent) (a : Act) (v' : View) (roll : Frac) :
    (playedAgent S ag a v' roll).steps = ag.steps + 1 ∧ (playedAgent S ag a v' roll).view = v' ∧
    (playedAgent S ag a v' roll).reward = S.rStep ∧
    (playedAgent S ag a v' roll).status = nextStatus S { ag with steps := ag.steps + 1, view := v' } a roll := by
  simp [playedAgent]

/-- The observation is final iff the new status is terminal (goal, detection, step limit) or no agent
in the game - the acting one included, with its new status - is an attacker still playing. -/
theorem C04_end_iff (s : St) (c : Nat) (ag2 : Agent) :
    episodeEnds s c ag2 = true ↔
      (ag2.status = .success ∨ ag2.status = .fail ∨ ag2.status = .timeoutReached) ∨
      (∀ d ∈ s.ids, (if d = c then ag2 else s.agent d).status ≠ .playingWithTimeout) := by
  simp only [episodeEnds, Bool.or_eq_true, Bool.not_eq_true', St.attackerPlaying]
  constructor
  · rintro (h | h)
    · left; cases hs : ag2.status <;> simp_all [Status.terminal]
    · right; intro d hd
      have := List.any_eq_false.1 h d hd
      by_cases hdc : d = c <;> simp_all [St.setAgent, St.agent]
  · rintro (h | h)
    · left; rcases h with h | h | h <;> simp [h, Status.terminal]
    · right; rw [List.any_eq_false]; intro d hd
      have := h d hd
      by_cases hdc : d = c <;> simp_all [St.setAgent, St.agent]

/-- The handler: a non-final observation is answered at once (`finishGame`: step reward, end = false);
a final one parks at the end-of-episode barrier. -/
theorem C04_handle_game (S : Settings) (s : St) (c : Nat) (a : Act) (o : Oracle) (v' : View)
    (hc : s.conn c = .reading) (hg : s.inGame c = true) (he : (s.agent c).ended = false)
    (hv : o.stepView = some v') :
    deliver S s (.msg c (.game a) o) =
      (let ag2 := playedAgent S (s.agent c) a v' o.roll
       let s2 := s.updAgent c (fun _ => { ag2 with ended := episodeEnds s c ag2 })
       if episodeEnds s c ag2 then settle S (s2.setConn c (.parked (.gameEnd a))) o s2.allEnded false
       else finishGame s2 c a) := by
  simp [deliver, hc, handle, hg, he, hv]

/-- the non-final answer: OK, the returned view, exactly the step reward, end = false, no reason -/
theorem C04_nonfinal_reply (s : St) (c : Nat) (a : Act) (ag0 ag2 : Agent)
    (hin : s.agents c = some ag0) (hm : s.mute c = false) (hst : ag2.status.terminal = false) :
    (finishGame (s.updAgent c (fun _ => { ag2 with ended := false })) c a).2 =
      [.reply c { code := .ok, obs := some { view := ag2.view, reward := ag2.reward, ended := false, reason := none } }] := by
  have : finalReason ag2.status = none := by cases h : ag2.status <;> simp_all [Status.terminal, finalReason]
  simp [finishGame, emit, St.updAgent, St.agent, hm, hin, obsOf, this]

/-- Absorbing: after the end every further game action is refused with FORBIDDEN, carrying the last
view sent, the same final reward and the final reason - and nothing changes (no counter, no status). -/
theorem C04_absorbing (S : Settings) (s : St) (c : Nat) (a : Act) (o : Oracle)
    (hc : s.conn c = .reading) (hm : s.mute c = false) (hg : s.inGame c = true) (he : (s.agent c).ended = true) :
    (deliver S s (.msg c (.game a) o)).2 =
      [.reply c { code := .forbidden, obs := some { view := (s.agent c).obs.view, reward := (s.agent c).reward,
                                                     ended := true, reason := some (s.agent c).status } }] ∧
    SameGame s (deliver S s (.msg c (.game a) o)).1 := by
  simp only [deliver, hc, handle, hg, he]
  simpa using emit_error s c _ hc hm

end NSG.Coord
