import NSG.Model.Coord
/-! # C04 (theorems under construction) -/
