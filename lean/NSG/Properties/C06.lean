import NSG.Properties.C01
import NSG.Properties.C04
/-! # C06 — start and end-of-episode barriers hold for all agents -/
namespace NSG.Coord
open NSG NSG.Defender

def Out.code? : Out → Option Code
  | .reply _ r => some r.code
  | .lost _ r => some r.code
  | _ => none

def Out.finalOK : Out → Bool
  | .reply _ r | .lost _ r => r.code = .ok && (r.obs.map (·.ended)).getD false
  | _ => false

/-- CREATED / final OK answers in a list of outputs -/
def hasCreated (outs : List Out) : Bool := outs.any (fun o => o.code? = some .created)
def hasFinal (outs : List Out) : Bool := outs.any Out.finalOK

theorem emit_any (s : St) (c : Nat) (r : Reply) (p : Out → Bool) :
    (emit s c r).2.any p = if s.mute c then p (.lost c r) else p (.reply c r) := by
  unfold emit; split <;> simp

theorem releaseEnd_no_created (s : St) (l : List Nat) : hasCreated (releaseEnd s l).2 = false := by
  induction l generalizing s with
  | nil => rfl
  | cons c cs ih =>
    simp only [releaseEnd]
    split
    · simp only [hasCreated, List.any_append, Bool.or_eq_false_iff]
      refine ⟨?_, ih _⟩
      simp only [finishGame, emit_any]
      split <;> simp [Out.code?]
    · exact ih s

theorem releaseStart_no_final (S : Settings) (s : St) (l : List Nat) : hasFinal (releaseStart S s l).2 = false := by
  induction l generalizing s with
  | nil => rfl
  | cons c cs ih =>
    simp only [releaseStart]
    split
    · simp only [hasFinal, List.any_append, Bool.or_eq_false_iff]
      refine ⟨?_, ih _⟩
      simp only [emit_any]
      split <;> simp [Out.finalOK, createdReply]
    · simp only [hasFinal, List.any_append, Bool.or_eq_false_iff]
      refine ⟨?_, ih _⟩
      simp only [finishReset, emit_any]
      split <;> simp [Out.finalOK]
    · exact ih s

/-- **Start barrier.** The background phase answers a join (CREATED) only while the start event is
set - which the join handler sets exactly when the number of agents in the game equals the
required number of players - and then it answers *all* waiting joins (`releaseStart` walks every
agent in the game). -/
theorem C06_created_needs_start (S : Settings) (s : St) (o : Oracle) (e r : Bool)
    (h : hasCreated (settle S s o e r).2 = true) : (settle S s o e r).1.startEv = true := by
  unfold settle at h ⊢
  generalize hp1 : (if e then releaseEnd (rewardTask S s) s.ids else (s, [])) = p1 at h ⊢
  obtain ⟨s1, o1⟩ := p1
  have hno : hasCreated o1 = false := by
    cases e
    · simp only [Bool.false_eq_true, if_false, Prod.mk.injEq] at hp1; rw [← hp1.2]; rfl
    · simp only [if_true] at hp1
      have := releaseEnd_no_created (rewardTask S s) s.ids
      rw [hp1] at this; exact this
  simp only at h ⊢
  generalize (if r then resetTask S s1 o else s1) = s2 at h ⊢
  by_cases hs : s2.startEv = true
  · simp only [hs, if_true] at h ⊢
    -- releaseStart does not change the start event
    have : ∀ (st : St) (l : List Nat), (releaseStart S st l).1.startEv = st.startEv := by
      intro st l
      induction l generalizing st with
      | nil => rfl
      | cons c cs ih =>
        simp only [releaseStart]
        split
        · rw [ih]; unfold emit; split <;> rfl
        · rw [ih]; simp only [finishReset]; unfold emit; split <;> rfl
        · exact ih st
    generalize hp3 : releaseStart S s2 s2.ids = p3 at h ⊢
    obtain ⟨s3, o3⟩ := p3
    have := this s2 s2.ids
    rw [hp3] at this
    simpa [hs] using this
  · simp only [hs] at h
    simp only [hasCreated, List.any_append, Bool.or_eq_true] at h
    rcases h with h | h
    · simp only [hasCreated] at hno; rw [hno] at h; cases h
    · simp at h

/-- the join handler sets the start event exactly when the required number of players is reached -/
theorem C06_start_event_set (S : Settings) (s : St) (c : Nat) (n : String) (r : Role) (o : Oracle)
    (hc : s.conn c = .reading) (hin : s.inGame c = false) (hs : s.startEv = false)
    (h : hasCreated (deliver S s (.msg c (.join n (some r)) o)).2 = true) : (s.ids ++ [c]).length = S.required := by
  simp only [deliver, hc, handle, hin, Bool.false_eq_true, if_false] at h
  by_cases hl : (s.ids ++ [c]).length = S.required
  · exact hl
  · exfalso
    simp only [hl, if_false] at h
    have := C06_created_needs_start S _ o false false h
    -- without reaching the quorum nothing sets the start event
    unfold settle at this
    simp [St.setConn, St.setAgent, hs] at this

/-- **End barrier.** The background phase releases final observations only when it was started
with the episode-end event, i.e. when every agent in the game had finished. -/
theorem C06_final_needs_all_ended (S : Settings) (s : St) (o : Oracle) (e r : Bool)
    (h : hasFinal (settle S s o e r).2 = true) : e = true := by
  cases e with
  | true => rfl
  | false =>
    exfalso
    unfold settle at h
    simp only [Bool.false_eq_true, if_false] at h
    generalize (if r then resetTask S s o else s) = s2 at h
    split at h
    · simp only [List.nil_append] at h
      rw [releaseStart_no_final] at h; cases h
    · simp [hasFinal] at h

/-- a non-final observation is never held back: it is in the outputs of the very delivery that
consumed its request (see `C04_handle_game` / `C04_nonfinal_reply`): the handler does not park. -/
theorem C06_nonfinal_immediate (s : St) (c : Nat) (a : Act) (hc : (s.conn c).pend = 0) :
    answers c (finishGame s c a).2 = 1 ∧ ((finishGame s c a).1.conn c).pend = 0 := by
  have := emit_law (s.updAgent c (recordStep a)) c { code := .ok, obs := some (obsOf (s.agent c)) } c
  simp only [if_true] at this
  simp only [finishGame]
  have h2 : ((emit (s.updAgent c (recordStep a)) c { code := .ok, obs := some (obsOf (s.agent c)) }).1.conn c).pend = 0 := by
    unfold emit; split <;> simp [St.setConn, Phase.pend]
  omega

end NSG.Coord
