import NSG.Model.Coord
/-! # C06 (theorems under construction) -/
