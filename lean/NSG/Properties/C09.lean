import NSG.Model.Coord
/-! # C09 — bad or out-of-order messages are rejected without any effect on anyone

`s ≈ s'` (`SameGame`) : identical agent tables, membership, slots, start event, trajectory files and
connection phases, i.e. nothing any agent could ever observe differs. -/
namespace NSG.Coord

structure SameGame (s s' : St) : Prop where
  agents : s'.agents = s.agents
  ids : s'.ids = s.ids
  slots : s'.slots = s.slots
  startEv : s'.startEv = s.startEv
  files : s'.files = s.files
  mute : s'.mute = s.mute
  conn : ∀ d, s'.conn d = s.conn d

/-- an error answer to a reading, healthy connection: exactly one reply with that code, nothing changed -/
theorem emit_error (s : St) (c : Nat) (r : Reply) (hc : s.conn c = .reading) (hm : s.mute c = false) :
    (emit s c r).2 = [.reply c r] ∧ SameGame s (emit s c r).1 := by
  simp only [emit, hm]
  refine ⟨rfl, ⟨rfl, rfl, rfl, rfl, rfl, rfl, ?_⟩⟩
  intro d; simp only [St.setConn]; split <;> simp_all

def isError (r : Reply) : Prop := r.code = .badRequest ∨ r.code = .forbidden

/-- Every message of the malformed / unsupported / out-of-order classes is answered with exactly one
error reply to its sender and changes nothing.  `Rejected s c m o` enumerates the classes:
 * `bad`: undecodable bytes, invalid JSON, unknown type or parameter, missing or invalid parameter
   (the decoder refuses it or a required parameter is missing - obligation `gen_C09_params_validated`);
 * a second JoinGame; a JoinGame with an unknown role;
 * a game action or ResetGame from a connection that has not joined;
 * a game action the world cannot process (it raised);
 * a game action after the episode has ended (FORBIDDEN). -/
inductive Rejected (s : St) (c : Nat) : Msg → Oracle → Prop
  | bad (o) : Rejected s c .bad o
  | secondJoin (n r o) : s.inGame c = true → Rejected s c (.join n r) o
  | unknownRole (n o) : Rejected s c (.join n none) o
  | resetNotJoined (t o) : s.inGame c = false → Rejected s c (.reset t) o
  | gameNotJoined (a o) : s.inGame c = false → Rejected s c (.game a) o
  | worldRaised (a o) : o.stepView = none → (s.agent c).ended = false → Rejected s c (.game a) o
  | afterEnd (a o) : s.inGame c = true → (s.agent c).ended = true → Rejected s c (.game a) o

theorem C09_rejected (S : Settings) (s : St) (c : Nat) (m : Msg) (o : Oracle)
    (hc : s.conn c = .reading) (hm : s.mute c = false) (hr : Rejected s c m o) :
    ∃ r, isError r ∧ (deliver S s (.msg c m o)).2 = [.reply c r] ∧ SameGame s (deliver S s (.msg c m o)).1 := by
  simp only [deliver, hc]
  cases hr with
  | bad o => exact ⟨_, Or.inl rfl, emit_error s c _ hc hm⟩
  | secondJoin n r o h => exact ⟨_, Or.inl rfl, by simpa [handle, badRequest, h] using emit_error s c _ hc hm⟩
  | unknownRole n o =>
    by_cases h : s.inGame c = true
    · exact ⟨_, Or.inl rfl, by simpa [handle, badRequest, h] using emit_error s c _ hc hm⟩
    · exact ⟨_, Or.inl rfl, by simpa [handle, badRequest, h] using emit_error s c _ hc hm⟩
  | resetNotJoined t o h => exact ⟨_, Or.inl rfl, by simpa [handle, badRequest, h] using emit_error s c _ hc hm⟩
  | gameNotJoined a o h => exact ⟨_, Or.inl rfl, by simpa [handle, badRequest, h] using emit_error s c _ hc hm⟩
  | worldRaised a o h he =>
    by_cases hg : s.inGame c = true
    · exact ⟨_, Or.inl rfl, by simpa [handle, badRequest, hg, he, h] using emit_error s c _ hc hm⟩
    · exact ⟨_, Or.inl rfl, by simpa [handle, badRequest, hg] using emit_error s c _ hc hm⟩
  | afterEnd a o hg he =>
    exact ⟨_, Or.inr rfl, by simpa [handle, hg, he] using emit_error s c _ hc hm⟩

/-- Frame consequence: whatever happens afterwards happens exactly as if the bad message had never
been sent (the two runs continue from indistinguishable states; `deliver` reads nothing else). -/
theorem SameGame.eq_of (s s' : St) (h : SameGame s s') : s' = s := by
  cases s; cases s'; cases h; simp_all; funext d; simp_all

theorem C09_differential (S : Settings) (s : St) (c : Nat) (m : Msg) (o : Oracle) (rest : List Ev)
    (hc : s.conn c = .reading) (hm : s.mute c = false) (hr : Rejected s c m o) :
    ∃ r, isError r ∧ run S s (.msg c m o :: rest) = ((run S s rest).1, .reply c r :: (run S s rest).2) := by
  obtain ⟨r, he, ho, hs⟩ := C09_rejected S s c m o hc hm hr
  refine ⟨r, he, ?_⟩
  have := SameGame.eq_of _ _ hs
  simp only [run]
  rw [this, ho]; rfl

end NSG.Coord
