import NSG.Model.Coord
/-! # C09 (theorems under construction) -/
