import NSG.Model.Coord
/-! # C20 — same configuration and seed give the same game (model side)

The model is a *function*: given the settings, the history of events and the values the
collaborators supplied (views returned by the world, random rolls), the outputs and the final state
are determined.  All randomness of the implementation enters through those oracle values (start
host choice, address shuffling, detection rolls), each drawn from a generator seeded from the
configured seed; that the implementation really draws them identically in every process is what the
cross-process check of this property validates. -/
namespace NSG.Coord

/-- two runs with equal settings, equal events and equal oracle values are equal -/
theorem C20_model_deterministic (S : Settings) (s : St) (es es' : List Ev) (h : es = es') :
    run S s es = run S s es' := by rw [h]

/-- the outputs of a history do not depend on how it is split into consecutive batches -/
theorem C20_run_append (S : Settings) (s : St) (a b : List Ev) :
    run S s (a ++ b) = ((run S (run S s a).1 b).1, (run S s a).2 ++ (run S (run S s a).1 b).2) := by
  induction a generalizing s with
  | nil => simp [run]
  | cons e es ih => simp only [List.cons_append, run, ih, List.append_assoc]

end NSG.Coord
