import NSG.Properties.C04History
/-! # C04 / C07, history part — the step budget

For every history of connects, messages, faults and departures: an agent whose role has a step
limit `n+1` never has more than `n+1` executed actions counted in an episode, and while its episode
is not ended it has at most `n` - so the action that brings the counter to the limit is always a
final one (`ended = true`), and nothing is executed after it (`C04_stays_ended`).  Uses the trace
theorem: the counter is only touched by the agent's own executed action (+1, together with the end
test) and by the reset task (back to 0 with `ended = false`). -/
namespace NSG.Coord
open NSG NSG.Defender

/-- the budget equations of one agent record -/
def Budget (S : Settings) (a : Agent) : Prop :=
  ∀ n, S.maxSteps a.role = some (n + 1) → a.steps ≤ n + 1 ∧ (a.ended = false → a.steps ≤ n)

theorem payOne_frame (S : Settings) (sa : Bool) (a : Agent) :
    (payOne S sa a).role = a.role ∧ (payOne S sa a).steps = a.steps ∧ (payOne S sa a).ended = a.ended := by
  refine ⟨?_, ?_, ?_⟩ <;> (unfold payOne; split <;> (try simp); split <;> (try simp); split <;> simp)

theorem budget_bstep (S : Settings) (a b : Agent) (hs : BStep S a b) (h : Budget S a) : Budget S b := by
  induction hs with
  | refl a => exact h
  | pay a sa =>
    obtain ⟨h1, h2, h3⟩ := payOne_frame S sa a
    intro n hn; rw [h1] at hn; rw [h2, h3]; exact h n hn
  | record a act => exact h
  | reset a v _ => intro n _; simp [resetOne]
  | restart a => exact h
  | trans _ _ ih1 ih2 => exact ih2 (ih1 h)

/-- a status that is not terminal after an executed action means the step limit is not reached -/
theorem not_terminal_below_limit (S : Settings) (ag : Agent) (a : Act) (roll : Frac) (n : Nat)
    (hn : S.maxSteps ag.role = some (n + 1)) (ht : (nextStatus S ag a roll).terminal = false) : ag.steps ≤ n := by
  unfold nextStatus at ht
  split at ht
  · simp [Status.terminal] at ht
  · split at ht
    · simp [Status.terminal] at ht
    · split at ht
      · simp [Status.terminal] at ht
      · rename_i hto
        simp only [isTimeout, hn] at hto
        simp at hto
        omega

theorem budget_own (S : Settings) (a b : Agent) (hs : OwnStep S a b) (h : Budget S a) : Budget S b := by
  cases hs with
  | req => exact h
  | play act v roll e he hterm =>
    intro n hn
    have hn' : S.maxSteps a.role = some (n + 1) := by simpa [playedAgent] using hn
    have hle : a.steps ≤ n := (h n hn').2 he
    refine ⟨by simp [playedAgent]; omega, ?_⟩
    intro hend
    have he' : e = false := by simpa using hend
    have hnt : (playedAgent S a act v roll).status.terminal = false := by
      cases hc : (playedAgent S a act v roll).status.terminal with
      | false => rfl
      | true => have := hterm hc; rw [he'] at this; cases this
    have := not_terminal_below_limit S { a with steps := a.steps + 1, view := v } act roll n (by simpa using hn')
      (by simpa [playedAgent] using hnt)
    simpa [playedAgent] using this

theorem budget_new (S : Settings) (n : String) (r : Role) (v : View) : Budget S (newAgent n r v) := by
  intro k _; simp [newAgent]

theorem budget_deliver (S : Settings) (s : St) (e : Ev)
    (h : ∀ c a, s.agents c = some a → Budget S a) :
    ∀ c a, (deliver S s e).1.agents c = some a → Budget S a := by
  intro c a' ha'
  rcases deliver_trace S s e c a' ha' with ⟨a, ha, hb⟩ | ⟨_, a, a1, ha, ho, hb⟩ | ⟨_, _, n, r, v, hb⟩
  · exact budget_bstep S a a' hb (h c a ha)
  · exact budget_bstep S a1 a' hb (budget_own S a a1 ho (h c a ha))
  · exact budget_bstep S _ a' hb (budget_new S n r v)

/-- **Step budget, for every history.**  Whatever was delivered so far, an agent with step limit
`n+1` has at most `n+1` actions counted in its current episode, and strictly fewer while the episode
is open. -/
theorem C04_budget (S : Settings) (es : List Ev) :
    ∀ c a, (run S init es).1.agents c = some a → Budget S a := by
  suffices H : ∀ (s : St), (∀ c a, s.agents c = some a → Budget S a) →
      ∀ c a, (run S s es).1.agents c = some a → Budget S a by
    exact H init (by intro c a h; simp [init] at h)
  induction es with
  | nil => intro s h; simpa [run] using h
  | cons e es ih =>
    intro s h
    simp only [run]
    exact ih _ (budget_deliver S s e h)

/-- so an action is only ever *executed* (own step `play`) for an agent that still has budget, and
the action that uses the budget up is reported as final -/
theorem C04_last_step_is_final (S : Settings) (a : Agent) (act : Act) (v : View) (roll : Frac) (e : Bool) (n : Nat)
    (hb : Budget S a) (hn : S.maxSteps a.role = some (n + 1))
    (hs : OwnStep S a { playedAgent S a act v roll with ended := e }) (hlast : a.steps = n) : e = true := by
  have := (budget_own S a _ hs hb n (by simpa [playedAgent] using hn)).2
  cases e with
  | true => rfl
  | false => have := this rfl; simp [playedAgent] at this; omega

/-- the hypotheses are satisfiable: limit 3, two actions counted, episode open -/
example : Budget { required := 1, maxSteps := fun _ => some 3, rStep := 0, rSuccess := 0, rFail := 0,
                   goal := fun _ => default, defender := none, tw := 5, storeTraj := false }
    { (default : Agent) with steps := 2, ended := false } := by
  intro n hn; simp at hn; subst hn; simp

/-! ## a final status is never shown on an open episode -/

/-- the record never carries a final status (Success, Fail, TimeoutReached) while `ended = false` -/
def FinalMeansEnded (a : Agent) : Prop := a.status.terminal = true → a.ended = true

theorem startStatus_not_terminal (r : Role) : (startStatus r).terminal = false := by cases r <;> rfl

theorem finalMeansEnded_payOne (S : Settings) (sa : Bool) (a : Agent) (h : FinalMeansEnded a) : FinalMeansEnded (payOne S sa a) := by
  unfold payOne
  split
  · exact h
  · rename_i hg
    have he : a.ended = true := by
      cases hc : a.ended with
      | true => rfl
      | false => simp [hc] at hg
    split
    · intro _; exact he
    · split <;> (intro _; exact he)
    · exact h

theorem finalMeansEnded_bstep (S : Settings) (a b : Agent) (hs : BStep S a b) (h : FinalMeansEnded a) : FinalMeansEnded b := by
  induction hs with
  | refl a => exact h
  | pay a sa => exact finalMeansEnded_payOne S sa a h
  | record a act => exact h
  | reset a v _ => intro ht; simp [resetOne, startStatus_not_terminal] at ht
  | restart a => exact h
  | trans _ _ ih1 ih2 => exact ih2 (ih1 h)

theorem finalMeansEnded_own (S : Settings) (a b : Agent) (hs : OwnStep S a b) (h : FinalMeansEnded a) : FinalMeansEnded b := by
  cases hs with
  | req => exact h
  | play act v roll e he hterm => intro ht; exact hterm ht

/-- **For every history**: whenever an agent's status is Success, Fail or TimeoutReached its episode
is marked ended - so such a status is never reported with `end = False`, whatever was delivered
before (rewards paid after departures, resets, refused actions, faults). -/
theorem C04_final_status_means_ended (S : Settings) (es : List Ev) :
    ∀ c a, (run S init es).1.agents c = some a → FinalMeansEnded a := by
  suffices H : ∀ (s : St), (∀ c a, s.agents c = some a → FinalMeansEnded a) →
      ∀ c a, (run S s es).1.agents c = some a → FinalMeansEnded a by
    exact H init (by intro c a h; simp [init] at h)
  induction es with
  | nil => intro s h; simpa [run] using h
  | cons e es ih =>
    intro s h
    simp only [run]
    refine ih _ ?_
    intro c a' ha'
    rcases deliver_trace S s e c a' ha' with ⟨a, ha, hb⟩ | ⟨_, a, a1, ha, ho, hb⟩ | ⟨_, _, n, r, v, hb⟩
    · exact finalMeansEnded_bstep S a a' hb (h c a ha)
    · exact finalMeansEnded_bstep S a1 a' hb (finalMeansEnded_own S a a1 ho (h c a ha))
    · exact finalMeansEnded_bstep S _ a' hb (by intro ht; simp [newAgent, startStatus_not_terminal] at ht)

/-! ## the stored observation never runs ahead of the episode -/

/-- the observation kept for an agent (what FORBIDDEN replies and RESET_DONE / CREATED are built from)
says `end = True` only if the episode is marked ended -/
def ObsBehind (a : Agent) : Prop := a.obs.ended = true → a.ended = true

theorem obsBehind_bstep (S : Settings) (a b : Agent) (hs : BStep S a b) (h : ObsBehind a) : ObsBehind b := by
  induction hs with
  | refl a => exact h
  | pay a sa =>
    have hf := payOne_frame S sa a
    have ho : (payOne S sa a).obs = a.obs := by
      unfold payOne; split <;> (try simp); split <;> (try simp); split <;> simp
    intro hb; rw [ho] at hb; rw [hf.2.2]; exact h hb
  | record a act => intro hb; simpa [recordStep, obsOf] using hb
  | reset a v _ => intro hb; simp [resetOne] at hb
  | restart a => exact h
  | trans _ _ ih1 ih2 => exact ih2 (ih1 h)

theorem obsBehind_own (S : Settings) (a b : Agent) (hs : OwnStep S a b) (h : ObsBehind a) : ObsBehind b := by
  cases hs with
  | req => exact h
  | play act v roll e he hterm =>
    intro hb
    have : a.obs.ended = true := by simpa [playedAgent] using hb
    have := h this
    rw [he] at this; cases this

/-- **For every history.** -/
theorem C04_stored_observation_behind (S : Settings) (es : List Ev) :
    ∀ c a, (run S init es).1.agents c = some a → ObsBehind a := by
  suffices H : ∀ (s : St), (∀ c a, s.agents c = some a → ObsBehind a) →
      ∀ c a, (run S s es).1.agents c = some a → ObsBehind a by
    exact H init (by intro c a h; simp [init] at h)
  induction es with
  | nil => intro s h; simpa [run] using h
  | cons e es ih =>
    intro s h
    simp only [run]
    refine ih _ ?_
    intro c a' ha'
    rcases deliver_trace S s e c a' ha' with ⟨a, ha, hb⟩ | ⟨_, a, a1, ha, ho, hb⟩ | ⟨_, _, n, r, v, hb⟩
    · exact obsBehind_bstep S a a' hb (h c a ha)
    · exact obsBehind_bstep S a1 a' hb (obsBehind_own S a a1 ho (h c a ha))
    · exact obsBehind_bstep S _ a' hb (by intro ht; simp [newAgent] at ht)

end NSG.Coord
