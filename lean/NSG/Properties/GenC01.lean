import NSG.Generated.Tables
/-! Obligation(s) stated over the tables regenerated from /repo's current source on every run:
a source change that falsifies them makes `decide` fail, i.e. breaks a proof obligation. -/
namespace NSG.Generated
open NSG.Defender

/-- C01: every member of ActionType is known to the model and routed by run_game to a handler that
answers (join, quit, reset or game-action handler). -/
theorem gen_C01_routed :
    unknownActionTypes = 0 ∧ actionTypes.length = 9 ∧
    ∀ t ∈ actionTypes, ∃ q ∈ dispatch, q.1 = t ∧ q.2 ≠ Handler.none ∧ q.2 ≠ Handler.other := by decide

/-- C01/C02 dispatch shape: the six world actions go to the game-action handler. -/
theorem gen_C01_game_actions :
    ∀ t ∈ [ATy.scanNetwork, .findServices, .findData, .exploitService, .exfiltrateData, .blockIP],
      (t, Handler.game) ∈ dispatch := by decide

end NSG.Generated
