import NSG.Properties.C13
import NSG.Properties.C04
/-! # C13, goal part — a re-labelled goal is met by the re-labelled view iff the goal was met by the view
("the task stays solvable") -/
namespace NSG
open NSG.Coord

variable {σ : IP → IP} {τ : Net → Net}

def Coord.Goal.relabel (σ : IP → IP) (τ : Net → Net) (g : Goal) : Goal :=
  { nets := g.nets.map τ, known := g.known.map σ, controlled := g.controlled.map σ,
    services := mapKV σ id g.services, data := mapKV σ id g.data, blocks := mapKV σ (List.map σ) g.blocks }

theorem agetD_mapKV_id {κ κ' ν} [DecidableEq κ] [DecidableEq κ'] (f : κ → κ') (hf : Function.Injective f)
    (k : κ) (m : AMap κ (List ν)) : agetD (f k) (mapKV f id m) = agetD k m := by
  simp only [agetD, alookup_mapKV f id hf]; cases alookup k m <;> rfl

theorem forall_mem_map_inj {α β} (f : α → β) (hf : Function.Injective f) (l m : List α) :
    (∀ y ∈ l.map f, y ∈ m.map f) ↔ (∀ x ∈ l, x ∈ m) := by
  constructor
  · intro h x hx; exact (mem_map_inj hf x m).1 (h (f x) (List.mem_map.2 ⟨x, hx, rfl⟩))
  · intro h y hy; obtain ⟨x, hx, rfl⟩ := List.mem_map.1 hy; exact (mem_map_inj hf x m).2 (h x hx)

theorem dict_relabel_id {ν} (hσ : Function.Injective σ) (g k : AMap IP (List ν)) :
    (∀ h ∈ akeys (mapKV σ id g), h ∈ akeys (mapKV σ id k) ∧ ∀ x ∈ agetD h (mapKV σ id g), x ∈ agetD h (mapKV σ id k)) ↔
    (∀ h ∈ akeys g, h ∈ akeys k ∧ ∀ x ∈ agetD h g, x ∈ agetD h k) := by
  simp only [akeys_mapKV]
  constructor
  · intro H h hh
    have := H (σ h) (List.mem_map.2 ⟨h, hh, rfl⟩)
    rw [mem_map_inj hσ, agetD_mapKV_id σ hσ, agetD_mapKV_id σ hσ] at this
    exact this
  · intro H y hy
    obtain ⟨h, hh, rfl⟩ := List.mem_map.1 hy
    rw [mem_map_inj hσ, agetD_mapKV_id σ hσ, agetD_mapKV_id σ hσ]
    exact H h hh

theorem dict_relabel_ip (hσ : Function.Injective σ) (g k : AMap IP (List IP)) :
    (∀ h ∈ akeys (mapKV σ (List.map σ) g), h ∈ akeys (mapKV σ (List.map σ) k) ∧
        ∀ x ∈ agetD h (mapKV σ (List.map σ) g), x ∈ agetD h (mapKV σ (List.map σ) k)) ↔
    (∀ h ∈ akeys g, h ∈ akeys k ∧ ∀ x ∈ agetD h g, x ∈ agetD h k) := by
  simp only [akeys_mapKV]
  constructor
  · intro H h hh
    have := H (σ h) (List.mem_map.2 ⟨h, hh, rfl⟩)
    rw [mem_map_inj hσ, agetD_mapKV σ σ hσ, agetD_mapKV σ σ hσ, forall_mem_map_inj σ hσ] at this
    exact this
  · intro H y hy
    obtain ⟨h, hh, rfl⟩ := List.mem_map.1 hy
    rw [mem_map_inj hσ, agetD_mapKV σ σ hσ, agetD_mapKV σ σ hσ, forall_mem_map_inj σ hσ]
    exact H h hh

/-- **The task stays solvable**: the translated win condition holds in the translated view exactly
when the original win condition holds in the original view. -/
theorem C13_goal (hσ : Function.Injective σ) (hτ : Function.Injective τ) (g : Goal) (v : View) :
    goalCheck (g.relabel σ τ) (v.relabel σ τ) = goalCheck g v := by
  rw [Bool.eq_iff_iff, C04_goalCheck_iff, C04_goalCheck_iff]
  simp only [GoalMet, Coord.Goal.relabel, View.relabel]
  rw [forall_mem_map_inj τ hτ, forall_mem_map_inj σ hσ, forall_mem_map_inj σ hσ,
      dict_relabel_id hσ, dict_relabel_id hσ, dict_relabel_ip hσ]

end NSG
