import NSG.Properties.C11
/-! # C12 — agents affect each other only through the shared network, never via views (world part)

In the model a step takes the acting agent's view *by value* and returns a new view; no other
agent's view is an input or an output.  What another agent's action can change for me is therefore
exactly what it changes in the world tables, and that is only `data`, `fw`, `blocks`
(`C02_world_frame`).  The theorems below say that this influence can only *restrict* connectivity
and *add* data/blocks: nobody gains reachability, hosts or services because somebody else acted. -/
namespace NSG
open World

/-- Another agent's step never opens a connection. -/
theorem C12_allowed_antitone (w : World) (u : View) (b : GAction) (w' : World) (u' : View)
    (h : step w u b = some (w', u')) (s d : IP) (ha : w'.allowed s d = true) : w.allowed s d = true := by
  cases b <;> simp only [step] at h <;> (repeat' split at h) <;> simp_all <;>
    (obtain ⟨rfl, _⟩ := h; simp_all [allowed_iff, mem_agetD_discardFrom])

/-- Hosts, networks and services are the same before and after anybody's step, so ScanNetwork,
FindServices and ExploitService of another agent can only be *restricted* by it (through blocks). -/
theorem C12_scan_no_gain (w : World) (u : View) (b : GAction) (w' : World) (u' : View)
    (h : step w u b = some (w', u')) (v : View) (src : IP) (net : Net) (x : IP) (v1 v2 : View) (w1 w2 : World)
    (h1 : step w v (.scan src net) = some (w1, v1)) (h2 : step w' v (.scan src net) = some (w2, v2))
    (hx : x ∈ v2.known) : x ∈ v1.known := by
  obtain ⟨hh, _, _, _, _⟩ := C02_world_frame w u b w' u' h
  by_cases hs : src ∈ v.controlled
  · by_cases hm : net.mask > 32 ∧ w.hostname ≠ []
    · simp [step, hs, hm] at h1
    · have hm' : ¬ (net.mask > 32 ∧ w'.hostname ≠ []) := by rw [hh]; exact hm
      simp only [step, hs, hm, hm', if_true, if_false, Option.some.injEq, Prod.mk.injEq] at h1 h2
      obtain ⟨_, rfl⟩ := h1; obtain ⟨_, rfl⟩ := h2
      simp only [List.mem_append, List.mem_filter, Bool.and_eq_true] at hx ⊢
      rcases hx with hx | ⟨hk, hn, ha⟩
      · exact Or.inl hx
      · exact Or.inr ⟨by rw [← hh]; exact hk, hn, C12_allowed_antitone w u b w' u' h src x ha⟩
  · simp only [step, hs, if_false, Option.some.injEq, Prod.mk.injEq] at h1 h2
    obtain ⟨_, rfl⟩ := h1; obtain ⟨_, rfl⟩ := h2; exact hx

end NSG
