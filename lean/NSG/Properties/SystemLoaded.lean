import NSG.Properties.C03Loader
import NSG.Properties.SystemMono
/-!
# Loader + coordinator + world

The system theorems (`SystemInv`, `SystemMono`) assume that the world the game starts from is "fresh" (nothing dynamic in it).
`C03_load_fresh` proves that for every scenario and both settings of the firewall switch the LOADER produces such a world.
Composed: for every scenario the loader reads, every history of the closed system has the properties below - the only
remaining hypothesis is that the start views of the roles are well-formed for the loaded world (checked on the real start
views by the tie).
-/
namespace NSG.Sys
open NSG NSG.Coord NSG.Defender World

/-- every view the coordinator ever holds is well-formed for the tables of that moment, whatever scenario was loaded -/
theorem loaded_sysInv (sc : Scenario) (fw : Bool) (E : Env) (S : Settings) (hE : E.w0 = load sc fw)
    (hs : ∀ r, Inv E.w0 (E.start r)) (es : List SEv) : SysInv E (sysRun E S (sysInit E) es).1 :=
  sysInv_run E S (hE ▸ C03_load_fresh sc fw) hs es

/-- the delivery that completes a reset puts the tables back to exactly what the loader produced -/
theorem loaded_reset_restores (sc : Scenario) (fw : Bool) (E : Env) (S : Settings) (hE : E.w0 = load sc fw)
    (hs : ∀ r, Inv E.w0 (E.start r)) (es : List SEv) (ev : SEv)
    (hfire : resetFired (sysRun E S (sysInit E) es).1.st (toEv E (sysRun E S (sysInit E) es).1 ev) = true) :
    (sysDeliver E S (sysRun E S (sysInit E) es).1 ev).1.w = load sc fw := by
  rw [← hE]
  exact sys_reset_restores E S (hE ▸ C03_load_fresh sc fw) hs es ev hfire

/-- within an episode the view held for a connection only grows, whatever scenario was loaded -/
theorem loaded_view_grows (sc : Scenario) (fw : Bool) (E : Env) (S : Settings) (hE : E.w0 = load sc fw)
    (hs : ∀ r, Inv E.w0 (E.start r)) (d : Nat) (history es : List SEv)
    (hq : Quiet E S d (sysRun E S (sysInit E) history).1 es) (v v' : View)
    (hb : (sysRun E S (sysInit E) history).1.st.viewOf d = some v)
    (ha : (sysRun E S (sysRun E S (sysInit E) history).1 es).1.st.viewOf d = some v') : v.le v' :=
  sys_view_grows_reachable E S (hE ▸ C03_load_fresh sc fw) hs d history es hq v v' hb ha

end NSG.Sys
