import NSG.Lemmas.CoordTrace
/-! # C05 — rewards follow the configured rule and the end bonus is paid exactly once -/
namespace NSG.Coord
open NSG NSG.Defender

/-- the end bonus an agent is entitled to, by its final status -/
def bonusOf (S : Settings) (a : Agent) : Int := if a.status = .success then S.rSuccess else S.rFail

/-- reward equations of one agent record:
 * not (yet) paid: 0 before the first action of the episode, the step reward afterwards;
 * paid: the agent has ended, is an attacker or a defender, and holds step reward + bonus - once;
 * an ended agent has played at least one action. -/
structure RewardOK (S : Settings) (a : Agent) : Prop where
  paid : a.paid = true → a.ended = true ∧ a.role ≠ .benign ∧ a.reward = S.rStep + bonusOf S a
  unpaid : a.paid = false → a.reward = if a.steps = 0 then 0 else S.rStep
  ended : a.ended = true → a.steps ≠ 0

theorem rewardOK_new (S : Settings) (n : String) (r : Role) (v : View) : RewardOK S (newAgent n r v) :=
  ⟨by simp [newAgent], by simp [newAgent], by simp [newAgent]⟩

theorem rewardOK_payOne (S : Settings) (sa : Bool) (a : Agent) (h : RewardOK S a) : RewardOK S (payOne S sa a) := by
  unfold payOne
  split
  · exact h
  · rename_i hc
    simp only [Bool.or_eq_true, Bool.not_eq_true', not_or, Bool.not_eq_true, Bool.not_eq_false] at hc
    obtain ⟨hp, he⟩ := hc
    have hrew : a.reward = S.rStep := by rw [h.unpaid hp]; simp [h.ended he]
    cases hr : a.role with
    | attacker => exact ⟨fun _ => ⟨he, by simp [hr], by simp [bonusOf, hrew]⟩, by simp, fun _ => h.ended he⟩
    | defender =>
      simp only
      split
      · exact ⟨fun _ => ⟨he, by simp [hr], by simp [bonusOf, hrew]⟩, by simp, fun _ => h.ended he⟩
      · exact ⟨fun _ => ⟨he, by simp [hr], by simp [bonusOf, hrew]⟩, by simp, fun _ => h.ended he⟩
    | benign => exact h

theorem rewardOK_bstep (S : Settings) (a b : Agent) (hs : BStep S a b) (h : RewardOK S a) : RewardOK S b := by
  induction hs with
  | refl a => exact h
  | pay a sa => exact rewardOK_payOne S sa a h
  | record a act => exact ⟨h.paid, h.unpaid, h.ended⟩
  | reset a v _ => exact ⟨by simp [resetOne], by simp [resetOne], by simp [resetOne]⟩
  | restart a => exact ⟨h.paid, h.unpaid, h.ended⟩
  | trans _ _ ih1 ih2 => exact ih2 (ih1 h)

theorem rewardOK_own (S : Settings) (a b : Agent) (hs : OwnStep S a b) (h : RewardOK S a) : RewardOK S b := by
  cases hs with
  | req => exact ⟨h.paid, h.unpaid, h.ended⟩
  | play act v roll e he =>
    have hp : a.paid = false := by
      cases hpd : a.paid with
      | false => rfl
      | true => have := (h.paid hpd).1; simp [he] at this
    exact ⟨by simp [playedAgent, hp], by simp [playedAgent], by simp [playedAgent]⟩

/-- one delivery preserves the reward equations of every agent in the game -/
theorem rewardOK_deliver (S : Settings) (s : St) (e : Ev)
    (h : ∀ c a, s.agents c = some a → RewardOK S a) :
    ∀ c a, (deliver S s e).1.agents c = some a → RewardOK S a := by
  intro c a' ha'
  rcases deliver_trace S s e c a' ha' with ⟨a, ha, hb⟩ | ⟨_, a, a1, ha, ho, hb⟩ | ⟨_, _, n, r, v, hb⟩
  · exact rewardOK_bstep S a a' hb (h c a ha)
  · exact rewardOK_bstep S a1 a' hb (rewardOK_own S a a1 ho (h c a ha))
  · exact rewardOK_bstep S _ a' hb (rewardOK_new S n r v)

/-- **For every history** of connects, messages (of any kind, in any order, with any collaborator
answers) and departures: every agent's reward obeys the rule and carries its bonus at most once. -/
theorem C05_rewards (S : Settings) (es : List Ev) :
    ∀ c a, (run S init es).1.agents c = some a → RewardOK S a := by
  suffices H : ∀ (s : St), (∀ c a, s.agents c = some a → RewardOK S a) →
      ∀ c a, (run S s es).1.agents c = some a → RewardOK S a by
    exact H init (by intro c a h; simp [init] at h)
  induction es with
  | nil => intro s h; simpa [run] using h
  | cons e es ih =>
    intro s h
    simp only [run]
    exact ih _ (rewardOK_deliver S s e h)

/-- the reward task pays every ended attacker and defender (so the final observation released right
after it carries step reward + bonus) ... -/
theorem C05_paid_after_task (S : Settings) (sa : Bool) (a : Agent) (he : a.ended = true) (hr : a.role ≠ .benign) :
    (payOne S sa a).paid = true := by
  unfold payOne
  by_cases hp : a.paid = true
  · simp [hp]
  · simp only [hp, he, Bool.not_true, Bool.or_false, Bool.false_eq_true, if_false]
    cases h : a.role <;> simp_all <;> split <;> rfl

/-- ... and paying is idempotent: whatever fires the reward task again later (a departure, a late
finisher), a paid agent's record is not touched. -/
theorem C05_once (S : Settings) (sa : Bool) (a : Agent) (hp : a.paid = true) : payOne S sa a = a := by
  simp [payOne, hp]

/-- defenders: success reward iff no attacker in the game reached its goal; other roles: no bonus -/
theorem C05_defender (S : Settings) (sa : Bool) (a : Agent) (hr : a.role = .defender) (he : a.ended = true) (hp : a.paid = false) :
    (payOne S sa a).reward = a.reward + (if sa then S.rFail else S.rSuccess) ∧
    (payOne S sa a).status = (if sa then .fail else .success) := by
  cases sa <;> simp [payOne, hr, he, hp]

theorem C05_attacker (S : Settings) (sa : Bool) (a : Agent) (hr : a.role = .attacker) (he : a.ended = true) (hp : a.paid = false) :
    (payOne S sa a).reward = a.reward + (if a.status = .success then S.rSuccess else S.rFail) ∧
    (payOne S sa a).status = a.status := by
  simp [payOne, hr, he, hp]

theorem C05_benign (S : Settings) (sa : Bool) (a : Agent) (hr : a.role = .benign) : payOne S sa a = a := by
  unfold payOne; split <;> simp [hr]

/-- a reset returns the reward to zero and forgets the payment -/
theorem C05_reset (v : View) (a : Agent) : (resetOne v a).reward = 0 ∧ (resetOne v a).paid = false ∧ (resetOne v a).obs.reward = 0 := by
  simp [resetOne]

end NSG.Coord
