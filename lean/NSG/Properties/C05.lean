import NSG.Model.Coord
/-! # C05 (theorems under construction) -/
