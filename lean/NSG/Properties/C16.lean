import NSG.Model.Coord
/-! # C16 (theorems under construction) -/
