import NSG.Properties.C09
import NSG.Lemmas.CoordTrace
/-! # C16 — the recorded trajectory is exactly what the agent experienced -/
namespace NSG.Coord
open NSG NSG.Defender

/-- The only place a step is recorded is where the OK reply is produced, and what is recorded is
exactly what is sent: the action, the reward in the observation, the view in the observation. -/
theorem C16_record_is_reply (s : St) (c : Nat) (a : Act) (ag : Agent) (hin : s.agents c = some ag) (hm : s.mute c = false) :
    (finishGame s c a).2 = [.reply c { code := .ok, obs := some (obsOf ag) }] ∧
    (finishGame s c a).1.agents c = some (recordStep a ag) ∧
    (recordStep a ag).traj = ag.traj ++ [{ act := a, reward := (obsOf ag).reward, view := (obsOf ag).view }] ∧
    (recordStep a ag).trajInit = ag.trajInit := by
  simp [finishGame, emit, hm, St.agent, hin, St.updAgent, St.setConn, recordStep, obsOf]

/-- how background steps may change a trajectory: they only append recorded steps or restart it
(empty, beginning at the current view); rewards, resets and requests never touch it -/
inductive TrajEvolves : Agent → Agent → Prop
  | same (a b) : b.traj = a.traj → b.trajInit = a.trajInit → TrajEvolves a b
  | appended (a b l) : b.traj = a.traj ++ l → b.trajInit = a.trajInit → TrajEvolves a b
  | restarted (a b l) : b.traj = l → TrajEvolves a b

theorem C16_bstep_traj (S : Settings) (a b : Agent) (hs : BStep S a b) :
    (∃ l, b.traj = a.traj ++ l ∧ b.trajInit = a.trajInit) ∨ (∃ mid : Agent, BStep S a mid ∧ BStep S (restartTraj mid) b) := by
  induction hs with
  | refl a => exact Or.inl ⟨[], by simp, rfl⟩
  | pay a sa => refine Or.inl ⟨[], ?_, ?_⟩ <;> (unfold payOne; split <;> (try simp); split <;> (try simp); split <;> simp)
  | record a act => exact Or.inl ⟨_, rfl, rfl⟩
  | reset a v _ => exact Or.inl ⟨[], by simp [resetOne], rfl⟩
  | restart a => exact Or.inr ⟨a, .refl a, .refl _⟩
  | trans h1 h2 ih1 ih2 =>
    rcases ih2 with ⟨l2, e2, i2⟩ | ⟨mid, m1, m2⟩
    · rcases ih1 with ⟨l1, e1, i1⟩ | ⟨mid, m1, m2⟩
      · exact Or.inl ⟨l1 ++ l2, by rw [e2, e1, List.append_assoc], i2.trans i1⟩
      · exact Or.inr ⟨mid, m1, .trans m2 h2⟩
    · exact Or.inr ⟨mid, .trans h1 m1, m2⟩

/-- refused actions are not recorded: a rejected message leaves every table, trajectories included,
exactly as it was (`C09_rejected`) -/
theorem C16_refused_not_recorded (S : Settings) (s : St) (c : Nat) (m : Msg) (o : Oracle)
    (hc : s.conn c = .reading) (hm : s.mute c = false) (hr : Rejected s c m o) :
    (deliver S s (.msg c m o)).1.agents = s.agents :=
  let ⟨_, _, _, h⟩ := C09_rejected S s c m o hc hm hr; h.agents

/-- it is handed out with RESET_DONE iff requested, and starts empty again from the current view -/
theorem C16_handed_out (S : Settings) (s : St) (c : Nat) (t : Bool) (ag : Agent) (hin : s.agents c = some ag) (hm : s.mute c = false) :
    (∃ r, (finishReset S s c t).2 = [.reply c r] ∧ r.code = .resetDone ∧
      r.traj = if t then some (ag.trajInit, ag.traj) else none) ∧
    (finishReset S s c t).1.agents c = some (restartTraj ag) ∧ (restartTraj ag).traj = [] ∧ (restartTraj ag).trajInit = ag.view := by
  refine ⟨⟨{ code := .resetDone, obs := some ag.obs, maxSteps := some (S.maxSteps ag.role),
              traj := if t then some (ag.trajInit, ag.traj) else none }, ?_, rfl, rfl⟩, ?_, rfl, rfl⟩ <;>
    simp [finishReset, emit, hm, St.agent, hin, St.updAgent, St.setConn]

/-- with save_trajectories every reset appends exactly one record per agent in the game: its name,
role and the episode just played; without it nothing is written -/
theorem C16_files (S : Settings) (s : St) (o : Oracle) :
    (resetTask S s o).files =
      if S.storeTraj then s.files ++ s.ids.map (fun c => ((s.agent c).name, (s.agent c).role, (s.agent c).trajInit, (s.agent c).traj))
      else s.files := by
  simp only [resetTask]

/-- one more state than actions, as many rewards as actions: by construction the trajectory is
`trajInit` followed by a list of (action, reward, view) triples -/
theorem C16_shape (a : Agent) :
    (a.trajInit :: a.traj.map (·.view)).length = (a.traj.map (·.act)).length + 1 ∧
    (a.traj.map (·.reward)).length = (a.traj.map (·.act)).length := by simp

end NSG.Coord
