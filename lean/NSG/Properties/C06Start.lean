import NSG.Lemmas.CoordMembers
import NSG.Properties.C06
/-!
# C06 — the game starts exactly when the required number of players is in it

`C06_start_iff_count`: along every history the start event is up iff the number of agents in the
game equals the configured number; `C06_created_means_full`: whenever any delivery hands out a
"game created" answer (to a JoinGame or, after a reset, inside RESET_DONE's counterpart), the game
holds exactly the required number of agents at that moment; `C06_never_overfull`.
-/
namespace NSG.Coord
open NSG NSG.Defender

theorem C06_start_iff_count (S : Settings) (hreq : 0 < S.required) (es : List Ev) :
    (run S init es).1.startEv = true ↔ (run S init es).1.ids.length = S.required :=
  (memberInv_run S hreq es).start

theorem C06_never_overfull (S : Settings) (hreq : 0 < S.required) (es : List Ev) :
    (run S init es).1.ids.length ≤ S.required :=
  (memberInv_run S hreq es).le

/-- the agents in the game are pairwise distinct, each has a record and a live connection -/
theorem C06_members (S : Settings) (hreq : 0 < S.required) (es : List Ev) :
    (run S init es).1.ids.Nodup ∧ ∀ c, (c ∈ (run S init es).1.ids ↔ (run S init es).1.inGame c = true) ∧
      (c ∈ (run S init es).1.ids → ((run S init es).1.conn c).live = true) :=
  ⟨(memberInv_run S hreq es).nodup, fun c =>
    ⟨⟨(memberInv_run S hreq es).ingame c, (memberInv_run S hreq es).member c⟩, (memberInv_run S hreq es).live c⟩⟩

theorem emit_no_created (s : St) (c : Nat) (r : Reply) (h : r.code ≠ .created) : hasCreated (emit s c r).2 = false := by
  unfold hasCreated
  rw [emit_any]
  split <;> simp [Out.code?, h]

theorem created_closed_cons (c : Nat) (outs : List Out) : hasCreated (.closed c :: outs) = hasCreated outs := by
  simp [hasCreated, Out.code?]

/-- a delivery that hands out a CREATED answer leaves the start event up -/
theorem created_needs_start (S : Settings) (s : St) (e : Ev) (h : hasCreated (deliver S s e).2 = true) :
    (deliver S s e).1.startEv = true := by
  cases e with
  | connect c =>
    simp only [deliver] at h
    split at h
    · split at h <;> simp [hasCreated, Out.code?] at h
    · simp [hasCreated] at h
  | armWriteFault c => simp [deliver, hasCreated] at h
  | leave c o =>
    simp only [deliver] at h ⊢
    split at h
    · rw [created_closed_cons] at h
      exact C06_created_needs_start S _ o _ _ h
    · rw [created_closed_cons] at h
      exact C06_created_needs_start S _ o _ _ h
    · simp [hasCreated] at h
  | msg c m o =>
    simp only [deliver] at h ⊢
    split at h
    case h_2 => simp [hasCreated] at h
    case h_1 hc =>
      cases m with
      | bad => simp only [handle, badRequest] at h; rw [emit_no_created _ _ _ (by simp)] at h; cases h
      | quit =>
        simp only [handle] at h ⊢
        rw [created_closed_cons] at h
        exact C06_created_needs_start S _ o _ _ h
      | join n r =>
        simp only [handle] at h ⊢
        split at h
        · rename_i hin; simp only [badRequest] at h; rw [emit_no_created _ _ _ (by simp)] at h; cases h
        · rename_i hin
          simp only [hin, if_false]
          cases r with
          | none => simp only [badRequest] at h; rw [emit_no_created _ _ _ (by simp)] at h; cases h
          | some r => exact C06_created_needs_start S _ o _ _ h
      | reset t =>
        simp only [handle] at h ⊢
        split at h
        · simp only [badRequest] at h; rw [emit_no_created _ _ _ (by simp)] at h; cases h
        · rename_i hin; simp only [hin, if_false]
          exact C06_created_needs_start S _ o _ _ h
      | game a =>
        revert h
        simp only [handle]
        split
        · intro h; simp only [badRequest] at h; rw [emit_no_created _ _ _ (by simp)] at h; cases h
        · split
          · intro h; rw [emit_no_created _ _ _ (by simp)] at h; cases h
          · split
            · intro h; simp only [badRequest] at h; rw [emit_no_created _ _ _ (by simp)] at h; cases h
            · split
              · intro h; exact C06_created_needs_start S _ o _ _ h
              · intro h; simp only [finishGame] at h; rw [emit_no_created _ _ _ (by simp)] at h; cases h

/-- **C06, start barrier at full strength:** whenever, after any history, a delivery hands out a
"game created" answer, exactly the required number of agents is in the game. -/
theorem C06_created_means_full (S : Settings) (hreq : 0 < S.required) (es : List Ev) (e : Ev)
    (h : hasCreated (deliver S (run S init es).1 e).2 = true) :
    (deliver S (run S init es).1 e).1.ids.length = S.required :=
  (memberInv_deliver S _ e (memberInv_run S hreq es)).start.1 (created_needs_start S _ e h)

/-- and conversely nobody is left waiting for the start once the game is full: with the start event
up, no connection is parked at the start barrier (from the barrier invariant) -/
theorem C06_full_nobody_waits (S : Settings) (hreq : 0 < S.required) (es : List Ev)
    (h : (run S init es).1.ids.length = S.required) (c : Nat) : ((run S init es).1.conn c).waitsStart = false := by
  have hs := (C06_start_iff_count S hreq es).2 h
  cases hw : ((run S init es).1.conn c).waitsStart
  · rfl
  · have := (fullInv_run S es).barrier.start c hw
    rw [hs] at this; cases this


end NSG.Coord

namespace NSG.Coord
/-- settings of the non-vacuity examples: two players required -/
def exS : Settings :=
  { required := 2, maxSteps := fun _ => some 5, rStep := -1, rSuccess := 100, rFail := -10,
    goal := fun _ => default, defender := none, tw := 5, storeTraj := false }
def exO : Oracle := { stepView := none, initView := default, resetView := fun _ => default, roll := default }
def exHist : List Ev := [.connect 0, .connect 1, .msg 0 (.join "a" (some .attacker)) exO]

-- non-vacuity: after one join nobody is answered; the second join hands out CREATED (to both) and the game is full
example : hasCreated (run exS init exHist).2 = false := by decide
example : hasCreated (deliver exS (run exS init exHist).1 (.msg 1 (.join "b" (some .attacker)) exO)).2 = true := by decide
example : (deliver exS (run exS init exHist).1 (.msg 1 (.join "b" (some .attacker)) exO)).1.ids.length = exS.required := by decide
end NSG.Coord
