import NSG.Generated.Tables
/-! Obligation(s) stated over the tables regenerated from /repo's current source on every run:
a source change that falsifies them makes `decide` fail, i.e. breaks a proof obligation. -/
namespace NSG.Generated
open NSG.Defender

/-- Soundness of the atomic-handler (sequential) layer: the only awaits inside a lock scope are the
waits of that very condition, so no lock is held across a suspension and acquisition never blocks. -/
theorem gen_atomic_handlers : foreignAwaitsInLocks = 0 := by decide

end NSG.Generated
