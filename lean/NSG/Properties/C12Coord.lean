import NSG.Lemmas.CoordTrace
import NSG.Properties.C07
/-! # C12 — coordinator part: nothing an agent holds changes because ANOTHER connection acted

`C12_view_only_own`: whatever another connection sends or does, an agent's view is untouched unless
the agent itself has asked for a reset (then the collective reset may replace it by its fresh start
view).  `C12_no_win_from_others`: an attacker's status never becomes `Success` through another
connection's event - a win is always the result of the agent's own action.  (A defender's final
status is by the documented reward rule a function of the attackers' outcomes, C05.) -/
namespace NSG.Coord
open NSG NSG.Defender

theorem role_payOne (S : Settings) (sa : Bool) (a : Agent) : (payOne S sa a).role = a.role := by
  unfold payOne; split
  · rfl
  · split
    · rfl
    · split <;> rfl
    · rfl

theorem bstep_role (S : Settings) (a b : Agent) (hs : BStep S a b) : b.role = a.role := by
  induction hs with
  | refl a => rfl
  | pay a sa => exact role_payOne S sa a
  | record a act => rfl
  | reset a v _ => rfl
  | restart a => rfl
  | trans _ _ ih1 ih2 => exact ih2.trans ih1

/-- background micro-steps leave an attacker's status alone or put it back to the start status -/
theorem bstep_attacker_status (S : Settings) (a b : Agent) (hs : BStep S a b) (hr : a.role = .attacker) :
    b.status = a.status ∨ b.status = .playingWithTimeout := by
  induction hs with
  | refl a => exact Or.inl rfl
  | pay a sa =>
    left
    unfold payOne; split
    · rfl
    · simp only [hr]
  | record a act => exact Or.inl rfl
  | reset a v _ => right; simp [resetOne, hr, startStatus]
  | restart a => exact Or.inl rfl
  | trans h1 _ ih1 ih2 =>
    have hr2 := (bstep_role S _ _ h1).trans hr
    rcases ih2 hr2 with h | h
    · rcases ih1 hr with g | g
      · exact Or.inl (h.trans g)
      · exact Or.inr (h.trans g)
    · exact Or.inr h

/-- **No knowledge or control from others.** Another connection's event leaves an agent's view
untouched unless the agent itself has asked for a reset. -/
theorem C12_view_only_own (S : Settings) (s : St) (e : Ev) (d : Nat) (a a' : Agent)
    (hne : sender e ≠ some d) (ha : s.agents d = some a) (ha' : (deliver S s e).1.agents d = some a') :
    a'.view = a.view ∨ a.resetReq = true := by
  cases hr : a.resetReq
  · exact Or.inl (C07_voluntary S s e d a a' hne ha hr ha').1
  · exact Or.inr rfl

/-- **No win from others.** If after another connection's event an attacker's status is `Success`,
it was `Success` before. -/
theorem C12_no_win_from_others (S : Settings) (s : St) (e : Ev) (d : Nat) (a a' : Agent)
    (hne : sender e ≠ some d) (ha : s.agents d = some a) (hrole : a.role = .attacker)
    (ha' : (deliver S s e).1.agents d = some a') (hw : a'.status = .success) : a.status = .success := by
  rcases deliver_trace S s e d a' ha' with ⟨a0, ha0, hb⟩ | ⟨hs, _⟩ | ⟨hs, _⟩
  · rw [ha] at ha0; cases ha0
    rcases bstep_attacker_status S a a' hb hrole with h | h
    · rw [← h]; exact hw
    · rw [h] at hw; cases hw
  · exact absurd hs hne
  · exact absurd hs hne

end NSG.Coord
