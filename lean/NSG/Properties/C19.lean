import NSG.Model.Config
/-! # C19 — the task configuration is honoured faithfully, with documented defaults -/
namespace NSG.Config

/-- **Listed networks** are in the parsed section ... -/
theorem C19_nets_listed (V : Val) (l : List Y) (s : String) (n : String × Int)
    (hl : Y.str s ∈ l) (hv : V.net s = true) (hs : V.split s = some n) : n ∈ readNets V (some (.list l)) := by
  simp only [readNets, List.mem_filterMap]
  exact ⟨.str s, hl, by simp [hv, hs]⟩

/-- **Listed hosts / controlled hosts** (addresses and wildcards) are in the parsed section. -/
theorem C19_hosts_listed (V : Val) (l : List Y) (s : String) (hl : Y.str s ∈ l) (hv : V.ip s = true) :
    HostItem.ip s ∈ readHosts V (some (.list l)) := by
  simp only [readHosts, List.mem_eraseDups, List.mem_filterMap]
  exact ⟨.str s, hl, by simp [hostItem, hv]⟩

theorem C19_wildcards_listed (V : Val) (l : List Y) (hr : V.ip "random" = false) (ha : V.ip "all_local" = false) :
    (Y.str "random" ∈ l → HostItem.random ∈ readHosts V (some (.list l))) ∧
    (Y.str "all_local" ∈ l → HostItem.allLocal ∈ readHosts V (some (.list l))) := by
  constructor <;> intro hl <;> simp only [readHosts, List.mem_eraseDups, List.mem_filterMap]
  · exact ⟨.str "random", hl, by simp [hostItem, hr]⟩
  · exact ⟨.str "all_local", hl, by simp [hostItem, ha]⟩

/-- **Listed datapoints**: with all host keys valid, every `[user, data]` pair listed for a host is in
the parsed entry of that host. -/
theorem readData_all_valid (V : Val) (m : List (String × Y)) (acc : List (String × List (String × String)))
    (hv : ∀ p ∈ m, V.ip p.1 = true) (h : String) (l : List Y) (hm : (h, Y.list l) ∈ m) :
    (h, l.filterMap readDatum) ∈ m.foldl (fun acc p =>
      if V.ip p.1 then
        match p.2 with
        | .list l => acc ++ [(p.1, l.filterMap readDatum)]
        | _ => acc
      else []) acc := by
  induction m generalizing acc with
  | nil => cases hm
  | cons p ps ih =>
    simp only [List.foldl_cons]
    have hp : V.ip p.1 = true := hv p List.mem_cons_self
    rcases List.mem_cons.1 hm with rfl | hm'
    · simp only [hp, if_true]
      -- once added, an entry stays (all later keys are valid, so the accumulator is never reset)
      have keep : ∀ (qs : List (String × Y)) (a : List (String × List (String × String))) x, x ∈ a →
          (∀ q ∈ qs, V.ip q.1 = true) → x ∈ qs.foldl (fun acc p =>
            if V.ip p.1 then
              match p.2 with
              | .list l => acc ++ [(p.1, l.filterMap readDatum)]
              | _ => acc
            else []) a := by
        intro qs
        induction qs with
        | nil => intro a x hx _; exact hx
        | cons q qs ihq =>
          intro a x hx hq
          simp only [List.foldl_cons, hq q List.mem_cons_self, if_true]
          apply ihq _ x _ (fun r hr => hq r (List.mem_cons_of_mem _ hr))
          split
          · exact List.mem_append_left _ hx
          · exact hx
      exact keep ps _ _ (by simp) (fun q hq => hv q (List.mem_cons_of_mem _ hq))
    · exact ih _ (fun q hq => hv q (List.mem_cons_of_mem _ hq)) hm'

theorem C19_data_listed (V : Val) (m : List (String × Y)) (hv : ∀ p ∈ m, V.ip p.1 = true)
    (h : String) (l : List Y) (hm : (h, Y.list l) ∈ m) (u d : String) (hd : Y.list [.str u, .str d] ∈ l) :
    ∃ e ∈ readData V (some (.map m)), e.1 = h ∧ (u, d) ∈ e.2 := by
  refine ⟨(h, l.filterMap readDatum), readData_all_valid V m [] hv h l hm, rfl, ?_⟩
  simp only [List.mem_filterMap]
  exact ⟨_, hd, rfl⟩

/-- **... and everything in the parsed start position is in the initial view**: listed networks, listed
known hosts, controlled hosts (which are also known hosts), listed data. -/
theorem C19_initial_view (W : WorldInfo) (s : Section) (picks : List String) :
    (∀ n ∈ s.nets, n ∈ (initialView W s picks).nets) ∧
    (∀ a, HostItem.ip a ∈ s.known → a ∈ (initialView W s picks).known) ∧
    (∀ a, HostItem.ip a ∈ s.controlled → a ∈ (initialView W s picks).controlled) ∧
    (∀ a ∈ (initialView W s picks).controlled, a ∈ (initialView W s picks).known) ∧
    (initialView W s picks).data = s.data := by
  have mem_listed : ∀ (l : List HostItem) a, HostItem.ip a ∈ l → a ∈ listedIPs l := by
    intro l; induction l with
    | nil => intro a h; cases h
    | cons x xs ih =>
      intro a h
      rcases List.mem_cons.1 h with rfl | h'
      · simp [listedIPs]
      · cases x <;> simp [listedIPs, ih a h']
  have mem_res : ∀ (l : List HostItem) (p : List String) a, HostItem.ip a ∈ l → a ∈ resolveControlled W l p := by
    intro l; induction l with
    | nil => intro p a h; cases h
    | cons x xs ih =>
      intro p a h
      rcases List.mem_cons.1 h with rfl | h'
      · simp [resolveControlled]
      · cases x with
        | ip b => simp [resolveControlled, ih p a h']
        | random => cases p <;> simp [resolveControlled, ih _ a h']
        | allLocal => simp [resolveControlled, ih p a h']
  refine ⟨fun n hn => ?_, fun a ha => ?_, fun a ha => mem_res _ _ a ha, fun a ha => ?_, rfl⟩
  · simp [initialView, hn]
  · simp [initialView, mem_listed _ a ha]
  · simp only [initialView] at ha ⊢; exact List.mem_append_right _ ha

/-- **Wildcards resolve to valid scenario hosts**: a controlled host of the initial view is a listed
address, one of the random picks (taken from the scenario's start hosts), or a local host. -/
theorem C19_wildcards_valid (W : WorldInfo) (l : List HostItem) (picks : List String) (a : String)
    (h : a ∈ resolveControlled W l picks) :
    HostItem.ip a ∈ l ∨ (HostItem.random ∈ l ∧ a ∈ picks) ∨ (HostItem.allLocal ∈ l ∧ a ∈ W.localHosts) := by
  induction l generalizing picks with
  | nil => simp [resolveControlled] at h
  | cons x xs ih =>
    cases x with
    | ip b =>
      simp only [resolveControlled, List.mem_cons] at h
      rcases h with rfl | h
      · left; simp
      · rcases ih picks h with h | ⟨h1, h2⟩ | ⟨h1, h2⟩
        · left; simp [h]
        · right; left; exact ⟨List.mem_cons_of_mem _ h1, h2⟩
        · right; right; exact ⟨List.mem_cons_of_mem _ h1, h2⟩
    | random =>
      cases picks with
      | nil =>
        simp only [resolveControlled] at h
        rcases ih [] h with h | ⟨h1, h2⟩ | ⟨h1, h2⟩
        · left; simp [h]
        · cases h2
        · right; right; exact ⟨List.mem_cons_of_mem _ h1, h2⟩
      | cons p ps =>
        simp only [resolveControlled, List.mem_cons] at h
        rcases h with rfl | h
        · right; left; simp
        · rcases ih ps h with h | ⟨h1, h2⟩ | ⟨h1, h2⟩
          · left; simp [h]
          · right; left; exact ⟨by simp, List.mem_cons_of_mem _ h2⟩
          · right; right; exact ⟨List.mem_cons_of_mem _ h1, h2⟩
    | allLocal =>
      simp only [resolveControlled, List.mem_append] at h
      rcases h with h | h
      · right; right; simp [h]
      · rcases ih picks h with h | ⟨h1, h2⟩ | ⟨h1, h2⟩
        · left; simp [h]
        · right; left; exact ⟨List.mem_cons_of_mem _ h1, h2⟩
        · right; right; exact ⟨List.mem_cons_of_mem _ h1, h2⟩

/-- **Scalars take the configured value ...** -/
theorem C19_values (cfg : Y) (n : Int) (b : Bool) (role name : String) :
    (path cfg ["coordinator", "agents", role, "max_steps"] = some (.int n) → readMaxSteps cfg role = some n) ∧
    (path cfg ["env", "rewards", name] = some (.int n) → readReward cfg name = n) ∧
    (path cfg ["env", "required_players"] = some (.int n) → readRequired cfg = n) ∧
    (path cfg ["env", name] = some (.bool b) → readSwitch cfg name = b) := by
  refine ⟨?_, ?_, ?_, ?_⟩ <;> intro h <;> simp [readMaxSteps, readReward, readRequired, readSwitch, h]

/-- **... and absent settings fall back to the documented defaults**: no step limit, zero rewards, one
player, switches off. -/
theorem C19_defaults (cfg : Y) (role name : String) :
    (path cfg ["coordinator", "agents", role, "max_steps"] = none → readMaxSteps cfg role = none) ∧
    (path cfg ["env", "rewards", name] = none → readReward cfg name = 0) ∧
    (path cfg ["env", "required_players"] = none → readRequired cfg = 1) ∧
    (path cfg ["env", name] = none → readSwitch cfg name = false) := by
  refine ⟨?_, ?_, ?_, ?_⟩ <;> intro h <;> simp [readMaxSteps, readReward, readRequired, readSwitch, h]

/-- an absent optional section (or the whole `rewards` / role block missing) is the same as absent keys -/
theorem C19_absent_block (cfg : Y) (a b : String) (rest : List String) (h : path cfg [a] = none) :
    path cfg (a :: b :: rest) = none := by
  cases cfg <;> simp_all [path]

end NSG.Config
