import NSG.Properties.C07
/-! # C04, history part — after the end nothing changes until a reset

Uses the trace theorem: whatever is delivered (any event of any connection), the record of an agent
whose episode has ended either keeps its view, step counter and ended flag, or is the fresh record
of a new episode (which only the reset task produces, and only for agents that asked). -/
namespace NSG.Coord
open NSG NSG.Defender

/-- `b` is `a` with the episode still ended and nothing counted -/
def Frozen (a b : Agent) : Prop := b.ended = true ∧ b.steps = a.steps ∧ b.view = a.view ∧ b.role = a.role

/-- `b` is at the start of a new episode -/
def FreshEp (b : Agent) : Prop := b.ended = false ∧ b.steps = 0 ∧ b.paid = false

theorem frozen_or_fresh_bstep (S : Settings) (a b c : Agent) (hs : BStep S b c) (h : Frozen a b ∨ FreshEp b) :
    Frozen a c ∨ FreshEp c := by
  induction hs with
  | refl x => exact h
  | pay x sa =>
    rcases h with ⟨h1, h2, h3, h4⟩ | ⟨h1, h2, h3⟩
    · left
      refine ⟨?_, ?_, ?_, ?_⟩ <;> (unfold payOne; split <;> (try simp_all); split <;> (try simp_all); split <;> simp_all)
    · right
      have : payOne S sa x = x := by simp [payOne, h1]
      rw [this]; exact ⟨h1, h2, h3⟩
  | record x act =>
    rcases h with ⟨h1, h2, h3, h4⟩ | ⟨h1, h2, h3⟩
    · exact Or.inl ⟨h1, h2, h3, h4⟩
    · exact Or.inr ⟨h1, h2, h3⟩
  | reset x v _ => exact Or.inr ⟨rfl, rfl, rfl⟩
  | restart x =>
    rcases h with ⟨h1, h2, h3, h4⟩ | ⟨h1, h2, h3⟩
    · exact Or.inl ⟨h1, h2, h3, h4⟩
    · exact Or.inr ⟨h1, h2, h3⟩
  | trans _ _ ih1 ih2 => exact ih2 (ih1 h)

/-- **Stays ended.** For every event whatsoever: an agent whose episode has ended keeps its view and
its step counter and stays ended - no action of its own can be executed (`OwnStep.play` needs
`ended = false`) - unless the delivery carried out a reset it had asked for, which gives it a fresh
episode (counter 0, not ended, not paid). -/
theorem C04_stays_ended (S : Settings) (s : St) (e : Ev) (d : Nat) (a a' : Agent)
    (ha : s.agents d = some a) (he : a.ended = true) (ha' : (deliver S s e).1.agents d = some a') :
    Frozen a a' ∨ FreshEp a' := by
  have h0 : Frozen a a ∨ FreshEp a := Or.inl ⟨he, rfl, rfl, rfl⟩
  rcases deliver_trace S s e d a' ha' with ⟨a0, ha0, hb⟩ | ⟨_, a0, a1, ha0, ho, hb⟩ | ⟨_, hnone, _⟩
  · rw [ha] at ha0; cases ha0
    exact frozen_or_fresh_bstep S a a a' hb h0
  · rw [ha] at ha0; cases ha0
    cases ho with
    | req => exact frozen_or_fresh_bstep S a _ a' hb (Or.inl ⟨he, rfl, rfl, rfl⟩)
    | play act v roll e' hne => rw [he] at hne; cases hne
  · rw [ha] at hnone; cases hnone

/-- and a fresh episode can only come from a reset the agent asked for: without a pending request the
first alternative holds -/
theorem C04_stays_ended_without_request (S : Settings) (s : St) (e : Ev) (d : Nat) (a a' : Agent)
    (hne : sender e ≠ some d) (ha : s.agents d = some a) (he : a.ended = true) (hr : a.resetReq = false)
    (ha' : (deliver S s e).1.agents d = some a') : a'.ended = true ∧ a'.steps = a.steps ∧ a'.view = a.view := by
  obtain ⟨h1, h2, h3, _⟩ := C07_voluntary S s e d a a' hne ha hr ha'
  exact ⟨h3.trans he, h2, h1⟩

end NSG.Coord
