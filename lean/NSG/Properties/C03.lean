import NSG.Lemmas.Maps
/-! # C03 — when the preconditions hold, an action has exactly its documented effect, completely.

Each theorem characterises the *whole* next view (and world) extensionally, so it gives both
"nothing else" and "all of it".  `agetD k m` is the set bound to key `k` (empty if absent). -/
namespace NSG
open World

/-- ScanNetwork: known hosts gain exactly the existing hosts of the target network the source may
connect to; nothing else in the view or the world changes. -/
theorem C03_scan (w : World) (v : View) (src : IP) (net : Net)
    (hpre : pre w v (.scan src net) = true) (hmask : net.mask ≤ 32) :
    ∃ v', step w v (.scan src net) = some (w, v') ∧
      (∀ x, x ∈ v'.known ↔ x ∈ v.known ∨ (x ∈ akeys w.hostname ∧ inNet x net = true ∧ w.allowed src x = true)) ∧
      v'.controlled = v.controlled ∧ v'.services = v.services ∧ v'.data = v.data ∧
      v'.nets = v.nets ∧ v'.blocks = v.blocks := by
  have hs : src ∈ v.controlled := by simpa [pre] using hpre
  refine ⟨{ v with known := v.known ++ (akeys w.hostname).filter (fun ip => inNet ip net && w.allowed src ip) }, ?_, ?_, rfl, rfl, rfl, rfl, rfl⟩
  · have : ¬ (net.mask > 32 ∧ w.hostname ≠ []) := by omega
    simp [step, hs, this]
  · intro x; simp [List.mem_append, List.mem_filter, and_assoc]

/-- Which services FindServices reports: all services of the node the address belongs to, local ones
only if the target is controlled. -/
theorem servicesOf_iff (w : World) (tgt : IP) (c : List IP) (s : Service) :
    s ∈ w.servicesOf tgt c ↔
      ∃ hn ss, alookup tgt w.hostname = some hn ∧ alookup hn w.services = some ss ∧ s ∈ ss ∧
        (tgt ∈ c ∨ s.isLocal = false) := by
  unfold servicesOf
  cases h1 : alookup tgt w.hostname with
  | none => simp
  | some hn =>
    cases h2 : alookup hn w.services with
    | none => simp [h2]
    | some ss =>
      by_cases hc : tgt ∈ c <;> simp [hc, h2, List.mem_filter]

/-- FindServices: the target's services are *set* to what was found (if anything was found); if the
target was not known it is added together with its networks; nothing else changes. -/
theorem C03_findServices (w : World) (v : View) (src tgt : IP)
    (hpre : pre w v (.findServices src tgt) = true) :
    ∃ v', step w v (.findServices src tgt) = some (w, v') ∧
      v'.controlled = v.controlled ∧ v'.data = v.data ∧ v'.blocks = v.blocks ∧
      (w.servicesOf tgt v.controlled = [] → v' = v) ∧
      (w.servicesOf tgt v.controlled ≠ [] →
        alookup tgt v'.services = some (w.servicesOf tgt v.controlled) ∧
        (∀ k, k ≠ tgt → alookup k v'.services = alookup k v.services) ∧
        (∀ x, x ∈ v'.known ↔ x ∈ v.known ∨ x = tgt) ∧
        (∀ n, n ∈ v'.nets ↔ n ∈ v.nets ∨ (tgt ∉ v.known ∧ n ∈ w.netsOf tgt))) := by
  simp only [pre, Bool.and_eq_true, decide_eq_true_eq] at hpre
  obtain ⟨hs, hfw⟩ := hpre
  by_cases hf : w.servicesOf tgt v.controlled = []
  · exact ⟨v, by simp [step, hs, hfw, hf], rfl, rfl, rfl, fun _ => rfl, fun h => absurd hf h⟩
  · by_cases hk : tgt ∈ v.known
    · refine ⟨{ v with services := aset tgt (w.servicesOf tgt v.controlled) v.services }, by simp [step, hs, hfw, hf, hk],
        rfl, rfl, rfl, fun h => absurd h hf, fun _ => ⟨by simp, ?_, ?_, ?_⟩⟩
      · intro k hk'; simp [alookup_aset_other k tgt _ _ (Ne.symm hk')]
      · intro x; constructor
        · intro h; exact Or.inl h
        · rintro (h | rfl) <;> assumption
      · intro n; simp [hk]
    · refine ⟨{ v with services := aset tgt (w.servicesOf tgt v.controlled) v.services,
                        known := v.known ++ [tgt], nets := v.nets ++ w.netsOf tgt },
        by simp [step, hs, hfw, hf, hk], rfl, rfl, rfl, fun h => absurd h hf, fun _ => ⟨by simp, ?_, ?_, ?_⟩⟩
      · intro k hk'; simp [alookup_aset_other k tgt _ _ (Ne.symm hk')]
      · intro x; simp [List.mem_append]
      · intro n; simp [List.mem_append, hk]

/-- FindData: the target's known data gain exactly the data located on the target in the world, the
known blocks gain the blocks applied to it; nothing else changes. -/
theorem C03_findData (w : World) (v : View) (src tgt : IP)
    (hpre : pre w v (.findData src tgt) = true) :
    ∃ v', step w v (.findData src tgt) = some (w, v') ∧
      v'.controlled = v.controlled ∧ v'.known = v.known ∧ v'.services = v.services ∧ v'.nets = v.nets ∧
      (∀ k d, d ∈ agetD k v'.data ↔ d ∈ agetD k v.data ∨ (k = tgt ∧ d ∈ w.dataIn tgt v.controlled)) ∧
      (∀ k b, b ∈ agetD k v'.blocks ↔ b ∈ agetD k v.blocks ∨ (k = tgt ∧ b ∈ w.blocksIn tgt v.controlled)) := by
  simp only [pre, Bool.and_eq_true, decide_eq_true_eq] at hpre
  obtain ⟨⟨hs, hfw⟩, _⟩ := hpre
  refine ⟨{ v with
      data := if w.dataIn tgt v.controlled ≠ [] then addTo tgt (w.dataIn tgt v.controlled) v.data else v.data,
      blocks := if w.blocksIn tgt v.controlled ≠ [] then addTo tgt (w.blocksIn tgt v.controlled) v.blocks else v.blocks },
    by simp [step, hs, hfw], rfl, rfl, rfl, rfl, ?_, ?_⟩
  · intro k d
    by_cases hn : w.dataIn tgt v.controlled = []
    · simp [hn]
    · simp only [hn, ne_eq, not_false_eq_true, if_true, mem_agetD_addTo]
      constructor <;> (rintro (h | ⟨rfl, h⟩) <;> simp_all)
  · intro k b
    by_cases hn : w.blocksIn tgt v.controlled = []
    · simp [hn]
    · simp only [hn, ne_eq, not_false_eq_true, if_true, mem_agetD_addTo]
      constructor <;> (rintro (h | ⟨rfl, h⟩) <;> simp_all)

/-- what "data located on the target" means for a controlled target -/
theorem dataIn_controlled (w : World) (tgt : IP) (c : List IP) (hc : tgt ∈ c) (hn : String)
    (hh : alookup tgt w.hostname = some hn) : w.dataIn tgt c = agetD hn w.data := by
  simp [dataIn, hc, hh, agetD]

/-- ExploitService: the target becomes controlled and its networks known; nothing else changes. -/
theorem C03_exploit (w : World) (v : View) (src tgt : IP) (svc : Service)
    (hpre : pre w v (.exploit src tgt svc) = true) :
    ∃ v', step w v (.exploit src tgt svc) = some (w, v') ∧
      (∀ x, x ∈ v'.controlled ↔ x ∈ v.controlled ∨ x = tgt) ∧
      (∀ n, n ∈ v'.nets ↔ n ∈ v.nets ∨ n ∈ w.netsOf tgt) ∧
      v'.known = v.known ∧ v'.services = v.services ∧ v'.data = v.data ∧ v'.blocks = v.blocks := by
  simp only [pre, Bool.and_eq_true, decide_eq_true_eq] at hpre
  obtain ⟨⟨⟨hs, hfw⟩, hex⟩, hkn⟩ := hpre
  rw [servicesOf_iff] at hex
  obtain ⟨hn, ss, hh, hss, hmem, _⟩ := hex
  cases hk : alookup tgt v.services with
  | none => simp [hk] at hkn
  | some ks =>
    have hkn' : svc ∈ ks := by simpa [hk] using hkn
    refine ⟨{ v with controlled := if tgt ∈ v.controlled then v.controlled else v.controlled ++ [tgt],
                      nets := v.nets ++ w.netsOf tgt },
      by simp [step, hs, hh, hfw, hss, hmem, hk, hkn'], ?_, ?_, rfl, rfl, rfl, rfl⟩
    · intro x
      by_cases hc : tgt ∈ v.controlled
      · simp only [hc, if_true]; constructor
        · intro h; exact Or.inl h
        · rintro (h | rfl) <;> assumption
      · simp [hc, List.mem_append]
    · intro n; simp [List.mem_append]

/-- ExfiltrateData (data present at the source in the world, which `Inv` of C11 guarantees for a
reachable view): the datum is copied to the target host in the view *and* in the world - so every
agent that later controls the target and looks there finds it - and nothing else changes. -/
theorem C03_exfil (w : World) (v : View) (src tgt : IP) (d : Data)
    (hpre : pre w v (.exfil src tgt d) = true)
    (shn thn : String) (hsh : alookup src w.hostname = some shn) (hth : alookup tgt w.hostname = some thn)
    (hpresent : d ∈ agetD shn w.data) :
    ∃ w' v', step w v (.exfil src tgt d) = some (w', v') ∧
      (∀ k x, x ∈ agetD k v'.data ↔ x ∈ agetD k v.data ∨ (k = tgt ∧ x = d)) ∧
      (∀ hn x, x ∈ agetD hn w'.data ↔ x ∈ agetD hn w.data ∨ (hn = thn ∧ x = d)) ∧
      (∀ c, tgt ∈ c → d ∈ w'.dataIn tgt c) ∧
      v'.controlled = v.controlled ∧ v'.known = v.known ∧ v'.services = v.services ∧
      v'.nets = v.nets ∧ v'.blocks = v.blocks ∧
      w'.fw = w.fw ∧ w'.blocks = w.blocks ∧ w'.hostname = w.hostname := by
  simp only [pre, Bool.and_eq_true, decide_eq_true_eq] at hpre
  obtain ⟨⟨⟨hs, ht⟩, hfw⟩, hkn⟩ := hpre
  cases hsd : alookup shn w.data with
  | none => simp [agetD, hsd] at hpresent
  | some sd =>
    have hp : d ∈ sd := by simpa [agetD, hsd] using hpresent
    refine ⟨{ w with data := addTo thn [d] w.data }, { v with data := addTo tgt [d] v.data },
      by simp [step, hs, ht, hfw, hkn, hsh, hsd, hp, hth], ?_, ?_, ?_, rfl, rfl, rfl, rfl, rfl, rfl, rfl, rfl⟩
    · intro k x; simp only [mem_agetD_addTo, List.mem_singleton]
      constructor <;> (rintro (h | ⟨rfl, h⟩) <;> simp_all)
    · intro hn x; simp only [mem_agetD_addTo, List.mem_singleton]
      constructor <;> (rintro (h | ⟨rfl, h⟩) <;> simp_all)
    · intro c hc
      simp only [dataIn, hc, if_true, hth]
      have := (mem_agetD_addTo thn thn [d] w.data d).2 (Or.inr ⟨rfl, by simp⟩)
      simpa [agetD] using this

/-- BlockIP: connectivity between target and blocked host is removed in both directions and nowhere
else; the block is recorded for both hosts in the world and in the view; nothing else changes. -/
theorem C03_block (w : World) (v : View) (src tgt blocked : IP)
    (hpre : pre w v (.block src tgt blocked) = true) :
    ∃ w' v', step w v (.block src tgt blocked) = some (w', v') ∧
      (∀ s d, w'.allowed s d = true ↔
        w.allowed s d = true ∧ ¬ (s = tgt ∧ d = blocked) ∧ ¬ (s = blocked ∧ d = tgt)) ∧
      (∀ k x, x ∈ agetD k w'.blocks ↔ x ∈ agetD k w.blocks ∨ (k = tgt ∧ x = blocked) ∨ (k = blocked ∧ x = tgt)) ∧
      (∀ k x, x ∈ agetD k v'.blocks ↔ x ∈ agetD k v.blocks ∨ (k = tgt ∧ x = blocked) ∨ (k = blocked ∧ x = tgt)) ∧
      v'.controlled = v.controlled ∧ v'.known = v.known ∧ v'.services = v.services ∧
      v'.nets = v.nets ∧ v'.data = v.data ∧ w'.data = w.data ∧ w'.hostname = w.hostname := by
  simp only [pre, Bool.and_eq_true, decide_eq_true_eq] at hpre
  obtain ⟨⟨⟨hs, ht⟩, hfw⟩, hne⟩ := hpre
  refine ⟨{ w with fw := discardFrom blocked tgt (discardFrom tgt blocked w.fw),
                    blocks := addTo blocked [tgt] (addTo tgt [blocked] w.blocks) },
    { v with blocks := addTo blocked [tgt] (addTo tgt [blocked] v.blocks) },
    by simp [step, hs, ht, hfw, hne], ?_, ?_, ?_, rfl, rfl, rfl, rfl, rfl, rfl, rfl⟩
  · intro s d
    simp only [allowed_iff]
    show d ∈ agetD s (discardFrom blocked tgt (discardFrom tgt blocked w.fw)) ↔ _
    simp only [mem_agetD_discardFrom]
    constructor
    · rintro ⟨⟨h1, h2⟩, h3⟩
      exact ⟨h1, fun ⟨a, b⟩ => h2 ⟨a.symm, b⟩, fun ⟨a, b⟩ => h3 ⟨a.symm, b⟩⟩
    · rintro ⟨h1, h2, h3⟩
      exact ⟨⟨h1, fun ⟨a, b⟩ => h2 ⟨a.symm, b⟩⟩, fun ⟨a, b⟩ => h3 ⟨a.symm, b⟩⟩
  · intro k x; simp only [mem_agetD_addTo, List.mem_singleton]
    constructor
    · rintro ((h | ⟨rfl, h⟩) | ⟨rfl, h⟩) <;> simp_all
    · rintro (h | ⟨rfl, h⟩ | ⟨rfl, h⟩) <;> simp_all
  · intro k x; simp only [mem_agetD_addTo, List.mem_singleton]
    constructor
    · rintro ((h | ⟨rfl, h⟩) | ⟨rfl, h⟩) <;> simp_all
    · rintro (h | ⟨rfl, h⟩ | ⟨rfl, h⟩) <;> simp_all

end NSG
