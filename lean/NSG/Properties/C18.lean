import NSG.Model.Coord
/-! # C18 (theorems under construction) -/
