import NSG.Model.Coord
/-! # C18 — connection slots are bounded and always given back -/
namespace NSG.Coord
open NSG NSG.Defender

/-- a connection that currently holds a slot: its handler is reading, parked at a barrier, or dead
(failed write, quit pending) -/
def Phase.live : Phase → Bool
  | .reading | .parked _ | .dead => true
  | _ => false

/-- slots unchanged, liveness of every connection unchanged -/
def SameSlots (s s' : St) : Prop := s'.slots = s.slots ∧ ∀ d, (s'.conn d).live = (s.conn d).live

theorem SameSlots.refl (s : St) : SameSlots s s := ⟨rfl, fun _ => rfl⟩
theorem SameSlots.trans {a b c : St} (h1 : SameSlots a b) (h2 : SameSlots b c) : SameSlots a c :=
  ⟨h2.1.trans h1.1, fun d => (h2.2 d).trans (h1.2 d)⟩

theorem sameSlots_setConn (s : St) (c : Nat) (p : Phase) (h : p.live = (s.conn c).live) : SameSlots s (s.setConn c p) := by
  refine ⟨rfl, fun d => ?_⟩
  simp only [St.setConn]; split <;> simp_all

theorem sameSlots_emit (s : St) (c : Nat) (r : Reply) (h : (s.conn c).live = true) : SameSlots s (emit s c r).1 := by
  unfold emit; split <;> exact sameSlots_setConn s c _ (by rw [h]; rfl)

theorem sameSlots_updAgent (s : St) (c : Nat) (f : Agent → Agent) : SameSlots s (s.updAgent c f) := ⟨rfl, fun _ => rfl⟩

theorem sameSlots_finishGame (s : St) (c : Nat) (a : Act) (h : (s.conn c).live = true) : SameSlots s (finishGame s c a).1 :=
  (sameSlots_updAgent s c _).trans (sameSlots_emit _ c _ h)

theorem sameSlots_finishReset (S : Settings) (s : St) (c : Nat) (t : Bool) (h : (s.conn c).live = true) : SameSlots s (finishReset S s c t).1 :=
  (sameSlots_updAgent s c _).trans (sameSlots_emit _ c _ h)

theorem sameSlots_releaseEnd (s : St) (l : List Nat) : SameSlots s (releaseEnd s l).1 := by
  induction l generalizing s with
  | nil => exact SameSlots.refl s
  | cons c cs ih =>
    simp only [releaseEnd]
    split
    · rename_i a hc; exact (sameSlots_finishGame s c a (by simp [hc, Phase.live])).trans (ih _)
    · exact ih s

theorem sameSlots_releaseStart (S : Settings) (s : St) (l : List Nat) : SameSlots s (releaseStart S s l).1 := by
  induction l generalizing s with
  | nil => exact SameSlots.refl s
  | cons c cs ih =>
    simp only [releaseStart]
    split
    · rename_i hc; exact (sameSlots_emit s c _ (by simp [hc, Phase.live])).trans (ih _)
    · rename_i t hc; exact (sameSlots_finishReset S s c t (by simp [hc, Phase.live])).trans (ih _)
    · exact ih s

theorem sameSlots_rewardTask (S : Settings) (s : St) : SameSlots s (rewardTask S s) := ⟨rfl, fun _ => rfl⟩

theorem sameSlots_resetTask (S : Settings) (s : St) (o : Oracle) : SameSlots s (resetTask S s o) := by
  refine ⟨rfl, fun d => ?_⟩
  simp only [resetTask]
  split <;> simp_all [Phase.live]

theorem sameSlots_settle (S : Settings) (s : St) (o : Oracle) (e r : Bool) : SameSlots s (settle S s o e r).1 := by
  unfold settle
  have h1 : SameSlots s (if e then releaseEnd (rewardTask S s) s.ids else (s, [])).1 := by
    cases e
    · exact SameSlots.refl s
    · exact (sameSlots_rewardTask S s).trans (sameSlots_releaseEnd _ _)
  generalize (if e then releaseEnd (rewardTask S s) s.ids else (s, [])) = p1 at h1
  obtain ⟨s1, o1⟩ := p1
  simp only at h1 ⊢
  have h2 : SameSlots s1 (if r then resetTask S s1 o else s1) := by
    cases r
    · exact SameSlots.refl s1
    · exact sameSlots_resetTask S s1 o
  generalize (if r then resetTask S s1 o else s1) = s2 at h2
  have h3 : SameSlots s2 (if s2.startEv then releaseStart S s2 s2.ids else (s2, [])).1 := by
    split
    · exact sameSlots_releaseStart S s2 _
    · exact SameSlots.refl s2
  generalize (if s2.startEv then releaseStart S s2 s2.ids else (s2, [])) = p3 at h3
  obtain ⟨s3, o3⟩ := p3
  exact h1.trans (h2.trans h3)

theorem sameSlots_removeAgent (s : St) (c : Nat) : SameSlots s (removeAgent s c).1 := by
  unfold removeAgent; split <;> exact ⟨rfl, fun _ => rfl⟩

/-- a departure: exactly one slot is returned, exactly that connection stops being live -/
theorem leave_slots (S : Settings) (s : St) (c : Nat) (o : Oracle) :
    let s' := (settle S (closeConn (removeAgent s c).1 c) o (removeAgent s c).2.1 (removeAgent s c).2.2).1
    s'.slots = s.slots - 1 ∧ (s'.conn c).live = false ∧ ∀ d, d ≠ c → (s'.conn d).live = (s.conn d).live := by
  intro s'
  have h1 := sameSlots_removeAgent s c
  have h2 := sameSlots_settle S (closeConn (removeAgent s c).1 c) o (removeAgent s c).2.1 (removeAgent s c).2.2
  refine ⟨?_, ?_, ?_⟩
  · rw [h2.1]; simp [closeConn, St.setConn, h1.1]
  · rw [h2.2 c]; simp [closeConn, St.setConn, Phase.live]
  · intro d hd; rw [h2.2 d]; simp [closeConn, St.setConn, hd, h1.2 d]

/-- how each event moves the slot counter and the set of live connections -/
inductive SlotMove (S : Settings) (s s' : St) : Prop
  | same : SameSlots s s' → SlotMove S s s'
  | taken (c : Nat) : s.slots < S.required → (s.conn c).live = false → (s'.conn c).live = true → s'.slots = s.slots + 1 →
      (∀ d, d ≠ c → (s'.conn d).live = (s.conn d).live) → SlotMove S s s'
  | freed (c : Nat) : (s.conn c).live = true → (s'.conn c).live = false → s'.slots = s.slots - 1 →
      (∀ d, d ≠ c → (s'.conn d).live = (s.conn d).live) → SlotMove S s s'

theorem sameSlots_handle_nonquit (S : Settings) (s : St) (c : Nat) (m : Msg) (o : Oracle)
    (hc : s.conn c = .reading) (hq : m ≠ .quit) : SameSlots s (handle S s c m o).1 := by
  have hl : (s.conn c).live = true := by simp [hc, Phase.live]
  cases m with
  | bad => exact sameSlots_emit s c _ hl
  | quit => exact absurd rfl hq
  | join n r =>
    simp only [handle]
    split
    · exact sameSlots_emit s c _ hl
    · cases r with
      | none => exact sameSlots_emit s c _ hl
      | some r =>
        simp only
        refine SameSlots.trans ?_ (sameSlots_settle S _ o false false)
        refine ⟨by split <;> rfl, fun d => ?_⟩
        split <;> (simp only [St.setConn, St.setAgent]; split <;> simp_all [Phase.live])
  | reset t =>
    simp only [handle]
    split
    · exact sameSlots_emit s c _ hl
    · refine SameSlots.trans ?_ (sameSlots_settle S _ o false _)
      exact (sameSlots_updAgent s c _).trans (sameSlots_setConn _ c _ (by simp [St.updAgent, hc, Phase.live]))
  | game a =>
    simp only [handle]
    split
    · exact sameSlots_emit s c _ hl
    · split
      · exact sameSlots_emit s c _ hl
      · split
        · exact sameSlots_emit s c _ hl
        · split
          · refine SameSlots.trans ?_ (sameSlots_settle S _ o _ false)
            exact (sameSlots_updAgent s c _).trans (sameSlots_setConn _ c _ (by simp [St.updAgent, hc, Phase.live]))
          · exact (sameSlots_updAgent s c _).trans (sameSlots_finishGame _ c a (by simp [St.updAgent, hl]))

theorem C18_slot_move (S : Settings) (s : St) (e : Ev) : SlotMove S s (deliver S s e).1 := by
  cases e with
  | connect c =>
    simp only [deliver]
    split
    · rename_i hc
      have hl : (s.conn c).live = false := by cases hcc : s.conn c <;> simp_all [Phase.isFree, Phase.live]
      split
      · exact .same (sameSlots_setConn s c _ (by rw [hl]; rfl))
      · rename_i hlt; refine .taken c (by omega) hl (by simp [St.setConn, Phase.live]) rfl (fun d hd => by simp [St.setConn, hd])
    · exact .same (SameSlots.refl s)
  | armWriteFault c => exact .same ⟨rfl, fun _ => rfl⟩
  | leave c o =>
    simp only [deliver]
    split
    · rename_i hc; obtain ⟨h1, h2, h3⟩ := leave_slots S s c o; exact .freed c (by simp [hc, Phase.live]) h2 h1 h3
    · rename_i hc; obtain ⟨h1, h2, h3⟩ := leave_slots S s c o; exact .freed c (by simp [hc, Phase.live]) h2 h1 h3
    · exact .same (SameSlots.refl s)
  | msg c m o =>
    simp only [deliver]
    split
    · rename_i hc
      by_cases hq : m = .quit
      · subst hq
        obtain ⟨h1, h2, h3⟩ := leave_slots S s c o
        exact .freed c (by simp [hc, Phase.live]) h2 h1 h3
      · exact .same (sameSlots_handle_nonquit S s c m o hc hq)
    · exact .same (SameSlots.refl s)

/-- number of live connections among the ids in `L` -/
def liveCount (s : St) (L : List Nat) : Nat := (L.filter (fun c => (s.conn c).live)).length

theorem liveCount_congr (s s' : St) (L : List Nat) (h : ∀ d ∈ L, (s'.conn d).live = (s.conn d).live) :
    liveCount s' L = liveCount s L := by
  unfold liveCount
  congr 1
  apply List.filter_congr
  intro d hd; exact h d hd

theorem liveCount_flip (s s' : St) (c : Nat) (L : List Nat) (hn : L.Nodup) (hc : c ∈ L)
    (h0 : (s.conn c).live = false) (h1 : (s'.conn c).live = true)
    (ho : ∀ d, d ≠ c → (s'.conn d).live = (s.conn d).live) : liveCount s' L = liveCount s L + 1 := by
  induction L with
  | nil => cases hc
  | cons x xs ih =>
    have hnx : x ∉ xs := (List.nodup_cons.1 hn).1
    have hnn : xs.Nodup := (List.nodup_cons.1 hn).2
    by_cases hx : x = c
    · subst hx
      have : liveCount s' xs = liveCount s xs := liveCount_congr s s' xs (fun d hd => ho d (fun e => hnx (e ▸ hd)))
      simp only [liveCount, List.filter_cons, h0, h1] at this ⊢
      simp [this]
    · have hc' : c ∈ xs := by cases hc with | head => exact absurd rfl hx | tail _ h => exact h
      have := ih hnn hc'
      simp only [liveCount, List.filter_cons, ho x hx] at this ⊢
      split <;> simp [this]

theorem liveCount_cons_dead (s : St) (c : Nat) (L : List Nat) (h : (s.conn c).live = false) : liveCount s (c :: L) = liveCount s L := by
  simp [liveCount, List.filter_cons, h]

theorem liveCount_cons_live (s : St) (c : Nat) (L : List Nat) (h : (s.conn c).live = true) : liveCount s (c :: L) = liveCount s L + 1 := by
  simp [liveCount, List.filter_cons, h]

/-- **Counting invariant.** The slot counter always equals the number of live connections (counted
over any duplicate-free list that contains all of them) and never exceeds the limit. -/
structure SlotInv (S : Settings) (s : St) : Prop where
  count : ∀ L : List Nat, L.Nodup → (∀ c, (s.conn c).live = true → c ∈ L) → s.slots = liveCount s L
  bound : s.slots ≤ S.required

theorem slotInv_init (S : Settings) : SlotInv S init :=
  ⟨fun L _ _ => by
    have : (L.filter (fun c => (init.conn c).live)) = [] := by
      apply List.filter_eq_nil_iff.2; intro a _; simp [init, Phase.live]
    show init.slots = (L.filter (fun c => (init.conn c).live)).length
    rw [this]; rfl, by simp [init]⟩

theorem slotInv_step (S : Settings) (s : St) (e : Ev) (h : SlotInv S s) : SlotInv S (deliver S s e).1 := by
  have hm := C18_slot_move S s e
  generalize (deliver S s e).1 = s' at hm
  cases hm with
  | same hs =>
    refine ⟨fun L hn hL => ?_, by rw [hs.1]; exact h.bound⟩
    rw [hs.1, h.count L hn (fun c hc => hL c (by rw [hs.2 c]; exact hc))]
    exact (liveCount_congr s s' L (fun d _ => hs.2 d)).symm
  | taken c hlt h0 h1 hsl ho =>
    refine ⟨fun L hn hL => ?_, by omega⟩
    have hcL : c ∈ L := hL c h1
    have hLs : ∀ d, (s.conn d).live = true → d ∈ L := by
      intro d hd
      by_cases hdc : d = c
      · subst hdc; exact hcL
      · exact hL d (by rw [ho d hdc]; exact hd)
    rw [hsl, h.count L hn hLs, liveCount_flip s s' c L hn hcL h0 h1 ho]
  | freed c h1 h0 hsl ho =>
    have hb := h.bound
    refine ⟨fun L hn hL => ?_, by omega⟩
    by_cases hcL : c ∈ L
    · have hLs : ∀ d, (s.conn d).live = true → d ∈ L := by
        intro d hd
        by_cases hdc : d = c
        · subst hdc; exact hcL
        · exact hL d (by rw [ho d hdc]; exact hd)
      have := liveCount_flip s' s c L hn hcL h0 h1 (fun d hd => (ho d hd).symm)
      rw [hsl, h.count L hn hLs, this]; omega
    · have hn' : (c :: L).Nodup := List.nodup_cons.2 ⟨hcL, hn⟩
      have hLs : ∀ d, (s.conn d).live = true → d ∈ c :: L := by
        intro d hd
        by_cases hdc : d = c
        · subst hdc; exact List.mem_cons_self
        · exact List.mem_cons_of_mem _ (hL d (by rw [ho d hdc]; exact hd))
      have hc1 := h.count (c :: L) hn' hLs
      rw [liveCount_cons_live s c L h1] at hc1
      have : liveCount s' L = liveCount s L := liveCount_congr s s' L (fun d hd => ho d (fun e => hcL (e ▸ hd)))
      rw [hsl, hc1, this]; omega

end NSG.Coord

namespace NSG.Coord

/-- **C18, bounded:** along every history the number of served connections equals the slot counter
and never exceeds the configured number of required players. -/
theorem C18_bound (S : Settings) (es : List Ev) : SlotInv S (run S init es).1 := by
  suffices H : ∀ s, SlotInv S s → SlotInv S (run S s es).1 from H init (slotInv_init S)
  induction es with
  | nil => intro s h; simpa [run] using h
  | cons e es ih => intro s h; simp only [run]; exact ih _ (slotInv_step S s e h)

/-- **refused beyond the limit:** a connection arriving when all slots are taken is closed at once,
receives nothing, and has no influence: nothing but its own (closed) phase changes. -/
theorem C18_refused (S : Settings) (s : St) (c : Nat) (hc : (s.conn c).isFree = true) (hfull : S.required ≤ s.slots) :
    (deliver S s (.connect c)).2 = [.refused c] ∧ (deliver S s (.connect c)).1.agents = s.agents ∧
    (deliver S s (.connect c)).1.ids = s.ids ∧ (deliver S s (.connect c)).1.slots = s.slots ∧
    (deliver S s (.connect c)).1.startEv = s.startEv ∧ ∀ d, d ≠ c → (deliver S s (.connect c)).1.conn d = s.conn d := by
  simp only [deliver, hc, hfull, if_true]
  exact ⟨trivial, rfl, rfl, rfl, rfl, fun d hd => by simp [St.setConn, hd]⟩

/-- **served below the limit:** once fewer than the limit are connected, a new connection is served -/
theorem C18_served (S : Settings) (s : St) (c : Nat) (hc : (s.conn c).isFree = true) (hfree : s.slots < S.required) :
    (deliver S s (.connect c)).1.conn c = .reading ∧ (deliver S s (.connect c)).2 = [] := by
  have : ¬ S.required ≤ s.slots := by omega
  simp [deliver, hc, this, St.setConn]

/-- **always given back:** every way a served connection can end - QuitGame, EOF, read error, the quit
after a failed write - returns exactly its slot. -/
theorem C18_freed (S : Settings) (s : St) (c : Nat) (o : Oracle) (hc : s.conn c = .reading ∨ s.conn c = .dead) :
    (deliver S s (.leave c o)).1.slots = s.slots - 1 ∧ ((deliver S s (.leave c o)).1.conn c).live = false := by
  obtain ⟨h1, h2, _⟩ := leave_slots S s c o
  rcases hc with hc | hc <;> (simp only [deliver, hc]; exact ⟨h1, h2⟩)

theorem C18_freed_quit (S : Settings) (s : St) (c : Nat) (o : Oracle) (hc : s.conn c = .reading) :
    (deliver S s (.msg c .quit o)).1.slots = s.slots - 1 ∧ ((deliver S s (.msg c .quit o)).1.conn c).live = false := by
  obtain ⟨h1, h2, _⟩ := leave_slots S s c o
  simp only [deliver, hc, handle]; exact ⟨h1, h2⟩

end NSG.Coord
