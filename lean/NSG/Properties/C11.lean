import NSG.Properties.C03
import NSG.Properties.C02
import NSG.Properties.C08
/-! # C11 — views are well-formed, only grow, and contain only what exists -/
namespace NSG
open World

/-- Well-formedness of a view w.r.t. a world. -/
structure Inv (w : World) (v : View) : Prop where
  ctrl_known : ∀ x, x ∈ v.controlled → x ∈ v.known
  svc_known  : ∀ k, k ∈ akeys v.services → k ∈ v.known
  data_ctrl  : ∀ k, k ∈ akeys v.data → k ∈ v.controlled
  host_exists : ∀ x, x ∈ v.known → x ∈ akeys w.hostname
  svc_exists : ∀ k s, s ∈ agetD k v.services →
      ∃ hn ss, alookup k w.hostname = some hn ∧ alookup hn w.services = some ss ∧ s ∈ ss
  data_exists : ∀ k d, d ∈ agetD k v.data → ∃ hn, alookup k w.hostname = some hn ∧ d ∈ agetD hn w.data

/-- `v ≤ v'`: nothing is lost from one observation to the next. -/
structure View.le (v v' : View) : Prop where
  nets : ∀ n, n ∈ v.nets → n ∈ v'.nets
  known : ∀ x, x ∈ v.known → x ∈ v'.known
  controlled : ∀ x, x ∈ v.controlled → x ∈ v'.controlled
  data : ∀ k d, d ∈ agetD k v.data → d ∈ agetD k v'.data
  blocks : ∀ k b, b ∈ agetD k v.blocks → b ∈ agetD k v'.blocks
  dataKeys : ∀ k, k ∈ akeys v.data → k ∈ akeys v'.data
  blockKeys : ∀ k, k ∈ akeys v.blocks → k ∈ akeys v'.blocks

theorem View.le_refl (v : View) : v.le v := ⟨fun _ h => h, fun _ h => h, fun _ h => h, fun _ _ h => h, fun _ _ h => h, fun _ h => h, fun _ h => h⟩

theorem mem_agetD_of_alookup {κ ν} [DecidableEq κ] {k : κ} {m : AMap κ (List ν)} {l : List ν} {x : ν}
    (h : alookup k m = some l) (hx : x ∈ l) : x ∈ agetD k m := by simp [agetD, h, hx]

theorem mem_keys_of_mem_agetD {κ ν} [DecidableEq κ] {k : κ} {m : AMap κ (List ν)} {x : ν}
    (hx : x ∈ agetD k m) : k ∈ akeys m := by
  rw [← alookup_isSome_iff_mem_keys]
  unfold agetD at hx
  cases h : alookup k m <;> simp_all

/-- The world's data only grows under any step of any agent; host names and services never change. -/
theorem world_data_mono (w : World) (v : View) (a : GAction) (w' : World) (v' : View)
    (h : step w v a = some (w', v')) : ∀ hn d, d ∈ agetD hn w.data → d ∈ agetD hn w'.data := by
  intro hn d hd
  cases a <;> simp only [step] at h <;> (repeat' split at h) <;> simp_all <;>
    (obtain ⟨rfl, _⟩ := h; simp_all [mem_agetD_addTo])

/-- Monotonicity: within an episode no part of the view ever shrinks. -/
theorem C11_mono (w : World) (v : View) (a : GAction) (w' : World) (v' : View)
    (h : step w v a = some (w', v')) : v.le v' := by
  cases a <;> simp only [step] at h <;> (repeat' split at h) <;>
    (first
      | (simp only [Option.some.injEq, Prod.mk.injEq] at h; obtain ⟨_, rfl⟩ := h; exact View.le_refl _)
      | (simp only [Option.some.injEq, Prod.mk.injEq] at h; obtain ⟨_, rfl⟩ := h
         constructor <;> intros <;>
           simp_all [mem_agetD_addTo, mem_keys_addTo, List.mem_append] <;> (try split) <;> simp_all [mem_agetD_addTo, mem_keys_addTo])
      | simp at h)

/-- A view of any *other* agent stays well-formed when somebody acts (the world only gains data). -/
theorem C11_inv_other (w : World) (v : View) (a : GAction) (w' : World) (v' : View)
    (h : step w v a = some (w', v')) (u : View) (hu : Inv w u) : Inv w' u := by
  obtain ⟨h1, _, h3, _, _⟩ := C02_world_frame w v a w' v' h
  have hm := world_data_mono w v a w' v' h
  refine ⟨hu.ctrl_known, hu.svc_known, hu.data_ctrl, ?_, ?_, ?_⟩
  · intro x hx; rw [h1]; exact hu.host_exists x hx
  · intro k s hs; rw [h1, h3]; exact hu.svc_exists k s hs
  · intro k d hd
    obtain ⟨hn, hh, hdd⟩ := hu.data_exists k d hd
    exact ⟨hn, by rw [h1]; exact hh, hm hn d hdd⟩

end NSG

namespace NSG
open World

theorem mem_keys_aset {κ ν} (k k' : κ) (x : ν) (m : AMap κ ν) : k' ∈ akeys (aset k x m) ↔ k' = k ∨ k' ∈ akeys m := by
  simp [aset, akeys]

theorem mem_agetD_aset {κ ν} [DecidableEq κ] (k k' : κ) (l : List ν) (m : AMap κ (List ν)) (x : ν) :
    x ∈ agetD k' (aset k l m) ↔ (k = k' ∧ x ∈ l) ∨ (k ≠ k' ∧ x ∈ agetD k' m) := by
  by_cases h : k = k'
  · subst h; simp [agetD]
  · simp [agetD, alookup_aset_other k' k l m h, h]

/-- The acting agent's next view is well-formed w.r.t. the next world. -/
theorem C11_inv (w : World) (v : View) (a : GAction) (w' : World) (v' : View)
    (hi : Inv w v) (h : step w v a = some (w', v')) : Inv w' v' := by
  by_cases hp : pre w v a = false
  · rw [C02_no_effect w v a hp] at h
    simp only [Option.some.injEq, Prod.mk.injEq] at h
    obtain ⟨rfl, rfl⟩ := h; exact hi
  · have hp' : pre w v a = true := by simpa using hp
    cases a with
    | scan src net =>
      have hs : src ∈ v.controlled := by simpa [pre] using hp'
      simp only [step, hs, if_true] at h
      split at h
      · simp at h
      · simp only [Option.some.injEq, Prod.mk.injEq] at h
        obtain ⟨rfl, rfl⟩ := h
        refine ⟨?_, ?_, hi.data_ctrl, ?_, hi.svc_exists, hi.data_exists⟩
        · intro x hx; exact List.mem_append_left _ (hi.ctrl_known x hx)
        · intro k hk; exact List.mem_append_left _ (hi.svc_known k hk)
        · intro x hx
          rcases List.mem_append.1 hx with hx | hx
          · exact hi.host_exists x hx
          · exact (List.mem_filter.1 hx).1
    | findServices src tgt =>
      obtain ⟨v'', hst, hc, hd, hb, hnil, hne⟩ := C03_findServices w v src tgt hp'
      rw [hst] at h
      simp only [Option.some.injEq, Prod.mk.injEq] at h
      obtain ⟨rfl, rfl⟩ := h
      by_cases hf : w.servicesOf tgt v.controlled = []
      · rw [hnil hf]; exact hi
      · obtain ⟨hl, hoth, hkn, _⟩ := hne hf
        refine ⟨?_, ?_, ?_, ?_, ?_, ?_⟩
        · intro x hx; rw [hc] at hx; exact (hkn x).2 (Or.inl (hi.ctrl_known x hx))
        · intro k hk
          by_cases hkt : k = tgt
          · exact (hkn k).2 (Or.inr hkt)
          · have : k ∈ akeys v.services := by
              rw [← alookup_isSome_iff_mem_keys] at hk ⊢
              rwa [hoth k hkt] at hk
            exact (hkn k).2 (Or.inl (hi.svc_known k this))
        · intro k hk; rw [hd] at hk; rw [hc]; exact hi.data_ctrl k hk
        · intro x hx
          rcases (hkn x).1 hx with hx | rfl
          · exact hi.host_exists x hx
          · -- the target exists because a service was found there
            cases hh : alookup x w.hostname with
            | none => simp [servicesOf, hh] at hf
            | some hn => rw [← alookup_isSome_iff_mem_keys]; simp [hh]
        · intro k s hs
          by_cases hkt : k = tgt
          · subst hkt
            have : s ∈ w.servicesOf k v.controlled := by simpa [agetD, hl] using hs
            obtain ⟨hn, ss, h1, h2, h3, _⟩ := (servicesOf_iff w k v.controlled s).1 this
            exact ⟨hn, ss, h1, h2, h3⟩
          · have : s ∈ agetD k v.services := by simpa [agetD, hoth k hkt] using hs
            exact hi.svc_exists k s this
        · intro k d hdd; rw [hd] at hdd; exact hi.data_exists k d hdd
    | findData src tgt =>
      obtain ⟨v'', hst, hc, hk, hs, _, hdat, _⟩ := C03_findData w v src tgt hp'
      rw [hst] at h
      simp only [Option.some.injEq, Prod.mk.injEq] at h
      obtain ⟨rfl, rfl⟩ := h
      have htc : tgt ∈ v.controlled := by
        simp only [pre, Bool.and_eq_true, decide_eq_true_eq] at hp'; exact hp'.2
      refine ⟨?_, ?_, ?_, ?_, ?_, ?_⟩
      · intro x hx; rw [hc] at hx; rw [hk]; exact hi.ctrl_known x hx
      · intro k hk'; rw [hs] at hk'; rw [hk]; exact hi.svc_known k hk'
      · intro k hk'
        rw [hc]
        -- a key of the new data map is an old key or the (controlled) target
        have hstep := hst
        simp only [step] at hstep
        have hsrc : src ∈ v.controlled := by
          simp only [pre, Bool.and_eq_true, decide_eq_true_eq] at hp'; exact hp'.1.1
        have hfw : w.allowed src tgt = true := by
          simp only [pre, Bool.and_eq_true, decide_eq_true_eq] at hp'; exact hp'.1.2
        simp only [hsrc, hfw, if_true, Option.some.injEq, Prod.mk.injEq, true_and] at hstep
        rw [← hstep] at hk'
        simp only at hk'
        split at hk'
        · rcases (mem_keys_addTo _ _ _ _).1 hk' with rfl | hk'
          · exact htc
          · exact hi.data_ctrl k hk'
        · exact hi.data_ctrl k hk'
      · intro x hx; rw [hk] at hx; exact hi.host_exists x hx
      · intro k s hs'; rw [hs] at hs'; exact hi.svc_exists k s hs'
      · intro k d hd
        rcases (hdat k d).1 hd with hd | ⟨rfl, hd⟩
        · exact hi.data_exists k d hd
        · simp only [dataIn, htc, if_true] at hd
          cases hh : alookup k w.hostname with
          | none => simp [hh] at hd
          | some hn => exact ⟨hn, rfl, by simpa [hh, agetD] using hd⟩
    | exploit src tgt svc =>
      obtain ⟨v'', hst, hc, _, hk, hs, hd, _⟩ := C03_exploit w v src tgt svc hp'
      rw [hst] at h
      simp only [Option.some.injEq, Prod.mk.injEq] at h
      obtain ⟨rfl, rfl⟩ := h
      have htk : tgt ∈ akeys v.services := by
        simp only [pre, Bool.and_eq_true, decide_eq_true_eq] at hp'
        have := hp'.2
        rw [← alookup_isSome_iff_mem_keys]
        cases hl : alookup tgt v.services <;> simp_all
      refine ⟨?_, ?_, ?_, ?_, ?_, ?_⟩
      · intro x hx; rw [hk]
        rcases (hc x).1 hx with hx | rfl
        · exact hi.ctrl_known x hx
        · exact hi.svc_known x htk
      · intro k hk'; rw [hs] at hk'; rw [hk]; exact hi.svc_known k hk'
      · intro k hk'; rw [hd] at hk'; exact (hc k).2 (Or.inl (hi.data_ctrl k hk'))
      · intro x hx; rw [hk] at hx; exact hi.host_exists x hx
      · intro k s hs'; rw [hs] at hs'; exact hi.svc_exists k s hs'
      · intro k d hd'; rw [hd] at hd'; exact hi.data_exists k d hd'
    | exfil src tgt d =>
      simp only [pre, Bool.and_eq_true, decide_eq_true_eq] at hp'
      obtain ⟨⟨⟨hs, ht⟩, hfw⟩, hkn⟩ := hp'
      simp only [step, hs, ht, hfw, hkn, if_true] at h
      split at h
      · simp at h
      · rename_i shn hsh
        split at h
        · simp only [Option.some.injEq, Prod.mk.injEq] at h; obtain ⟨rfl, rfl⟩ := h; exact hi
        · rename_i sd hsd
          split at h
          · split at h
            · simp at h
            · rename_i thn hth
              simp only [Option.some.injEq, Prod.mk.injEq] at h
              obtain ⟨rfl, rfl⟩ := h
              refine ⟨hi.ctrl_known, hi.svc_known, ?_, hi.host_exists, hi.svc_exists, ?_⟩
              · intro k hk
                rcases (mem_keys_addTo _ _ _ _).1 hk with rfl | hk
                · exact ht
                · exact hi.data_ctrl k hk
              · intro k x hx
                show ∃ hn, alookup k w.hostname = some hn ∧ x ∈ agetD hn (addTo thn [d] w.data)
                have hx : x ∈ agetD k (addTo tgt [d] v.data) := hx
                rcases (mem_agetD_addTo _ _ _ _ _).1 hx with hx1 | ⟨hk, hx2⟩
                · obtain ⟨hn, h1, h2⟩ := hi.data_exists k x hx1
                  exact ⟨hn, h1, (mem_agetD_addTo _ _ _ _ _).2 (Or.inl h2)⟩
                · subst hk
                  exact ⟨thn, hth, (mem_agetD_addTo _ _ _ _ _).2 (Or.inr ⟨rfl, hx2⟩)⟩
          · simp only [Option.some.injEq, Prod.mk.injEq] at h; obtain ⟨rfl, rfl⟩ := h; exact hi
    | block src tgt blocked =>
      simp only [pre, Bool.and_eq_true, decide_eq_true_eq] at hp'
      obtain ⟨⟨⟨hs, ht⟩, hfw⟩, hne⟩ := hp'
      simp only [step, hs, ht, hfw, hne, if_true, ne_eq, not_false_eq_true, Option.some.injEq, Prod.mk.injEq] at h
      obtain ⟨rfl, rfl⟩ := h
      exact ⟨hi.ctrl_known, hi.svc_known, hi.data_ctrl, hi.host_exists, hi.svc_exists, hi.data_exists⟩

/-- Along any trajectory (own steps interleaved with steps of other agents) the view stays
well-formed: combine `C11_inv` (own step) and `C11_inv_other` (others' steps). -/
theorem C11_trajectory (w : World) (v : View) (hi : Inv w v) :
    ∀ (others : List (View × GAction)), Inv (runWorld w others) v := by
  intro others
  induction others generalizing w with
  | nil => exact hi
  | cons p xs ih =>
    obtain ⟨u, a⟩ := p
    simp only [runWorld]
    cases hst : step w u a with
    | none => exact ih w hi
    | some r => obtain ⟨w', u'⟩ := r; exact ih w' (C11_inv_other w u a w' u' hst v hi)

/-- non-vacuity: the example view is well-formed in the example world -/
example : Inv exW exV := by
  refine ⟨by decide, by decide, by decide, by decide, ?_, ?_⟩
  · intro k s hs; simp [exV, agetD, alookup] at hs
  · intro k d hd
    by_cases hk : k = 1
    · subst hk; exact ⟨"a", by decide, by simpa [exV, exW, agetD, alookup] using hd⟩
    · simp [exV, agetD, alookup, Ne.symm hk] at hd

end NSG

namespace NSG
theorem invB_iff (w : World) (v : View) : invB w v = true ↔ Inv w v := by
  simp only [invB, Bool.and_eq_true, List.all_eq_true, decide_eq_true_eq]
  constructor
  · rintro ⟨⟨⟨⟨⟨h1, h2⟩, h3⟩, h4⟩, h5⟩, h6⟩
    refine ⟨h1, h2, h3, h4, ?_, ?_⟩
    · intro k s hs
      have := h5 k (mem_keys_of_mem_agetD hs) s hs
      cases hh : alookup k w.hostname with
      | none => simp [hh] at this
      | some hn =>
        cases hss : alookup hn w.services with
        | none => simp [hh, hss] at this
        | some ss => exact ⟨hn, ss, rfl, hss, by simpa [hh, hss] using this⟩
    · intro k d hd
      have := h6 k (mem_keys_of_mem_agetD hd) d hd
      cases hh : alookup k w.hostname with
      | none => simp [hh] at this
      | some hn => exact ⟨hn, rfl, by simpa [hh] using this⟩
  · intro hi
    refine ⟨⟨⟨⟨⟨hi.ctrl_known, hi.svc_known⟩, hi.data_ctrl⟩, hi.host_exists⟩, ?_⟩, ?_⟩
    · intro k _ s hs
      obtain ⟨hn, ss, h1, h2, h3⟩ := hi.svc_exists k s hs
      simp [h1, h2, h3]
    · intro k _ d hd
      obtain ⟨hn, h1, h2⟩ := hi.data_exists k d hd
      simp [h1, h2]

theorem leB_of_le (v v' : View) (h : v.le v') : leB v v' = true := by
  simp only [leB, Bool.and_eq_true, List.all_eq_true, decide_eq_true_eq]
  exact ⟨⟨⟨⟨h.nets, h.known⟩, h.controlled⟩, fun k hk => ⟨h.dataKeys k hk, fun d hd => h.data k d hd⟩⟩,
    fun k hk => ⟨h.blockKeys k hk, fun d hd => h.blocks k d hd⟩⟩
end NSG
