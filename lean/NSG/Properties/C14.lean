import NSG.Model.Codec
/-! # C14 — actions survive the wire unchanged and compare / hash consistently -/
namespace NSG.Codec

theorem ATy.ofString_name (t : ATy) : ATy.ofString ("ActionType." ++ t.name) = some t := by cases t <;> decide
theorem ATy.ofString_plain (t : ATy) : ATy.ofString t.name = some t := by cases t <;> decide
theorem PKey.ofString_name (k : PKey) : PKey.ofString k.name = some k := by cases k <;> decide

/-- every value of the kind its key carries decodes back to itself -/
theorem decVal_encVal (V : Val) (k : PKey) (v : PVal) (h : kindOK V k v = true) : decVal V k (encVal v) = some v := by
  cases k <;> cases v <;> simp_all [kindOK, decVal, encVal, decIP, decNet, decSvc, decData, decAgent, decFlag, keysOK, oget] <;>
    (try (rename_i b; cases b <;> simp [decFlag]))

theorem decParams_enc (V : Val) (ps : List (PKey × PVal)) (h : ∀ p ∈ ps, kindOK V p.1 p.2 = true) :
    decParams V (ps.map (fun p => (p.1.name, encVal p.2))) = some ps := by
  induction ps with
  | nil => rfl
  | cons p ps ih =>
    obtain ⟨k, v⟩ := p
    simp only [List.map_cons, decParams, PKey.ofString_name]
    rw [decVal_encVal V k v (h (k, v) List.mem_cons_self), ih (fun q hq => h q (List.mem_cons_of_mem _ hq))]

/-- **Round trip.** For every action type and every combination (subset, order) of the supported
parameters with values of their kinds - all valid addresses and masks, arbitrary strings for service
and data fields, any size, both booleans - decoding the encoding yields the same action. -/
theorem C14_roundtrip (V : Val) (a : Action) (h : WF V a) : decode V (encode a) = some a := by
  simp [decode, encode, oget, getStr, ATy.ofString_name, decParams_enc V a.params h]

/-- equality is independent of the order in which parameters were inserted ... -/
theorem plookup_perm (k : PKey) (l1 l2 : List (PKey × PVal)) (hp : l1.Perm l2) (hn : (l1.map (·.1)).Nodup) :
    plookup k l1 = plookup k l2 := by
  induction hp with
  | nil => rfl
  | cons x _ ih =>
    obtain ⟨k', v⟩ := x
    simp only [plookup]; split
    · rfl
    · exact ih (List.nodup_cons.1 hn).2
  | swap x y l =>
    obtain ⟨kx, vx⟩ := x; obtain ⟨ky, vy⟩ := y
    simp only [List.map_cons, List.nodup_cons, List.mem_cons, not_or] at hn
    simp only [plookup]
    by_cases h1 : ky = k <;> by_cases h2 : kx = k <;> simp_all
  | trans h1 _ ih1 ih2 =>
    rw [ih1 hn]
    exact ih2 ((h1.map _).nodup_iff.1 hn)

theorem C14_eq_perm (a b : Action) (ht : a.ty = b.ty) (hp : a.params.Perm b.params) (hn : (a.params.map (·.1)).Nodup) :
    actionEq a b := ⟨ht, fun k => plookup_perm k _ _ hp hn⟩

/-- ... equal actions have equal hashes, for any hash of the values ... -/
theorem C14_hash {H : Type} (h : PVal → H) (a b : Action) (he : actionEq a b) : hashA h a = hashA h b := by
  unfold hashA
  rw [he.1]
  congr 2
  funext k; rw [he.2 k]

/-- ... and actions that differ in type or in any parameter value are unequal. -/
theorem C14_neq (a b : Action) (h : a.ty ≠ b.ty ∨ ∃ k, plookup k a.params ≠ plookup k b.params) : ¬ actionEq a b := by
  rintro ⟨h1, h2⟩
  rcases h with h | ⟨k, hk⟩
  · exact h h1
  · exact hk (h2 k)

/-- **Refusal.** What the decoder accepts is a supported action: a known type, only supported keys,
each value of the kind its key carries with valid addresses - never "something else". -/
local macro "fin " h:ident : tactic => `(tactic|
  (first
   | (simp at $h:ident; done)
   | (simp at $h:ident; subst $h:ident; rfl)
   | (simp at $h:ident; subst $h:ident; simpa [kindOK])
   | (simp at $h:ident; subst $h:ident; simp_all [kindOK])))

theorem decVal_kind (V : Val) (k : PKey) (j : J) (v : PVal) (h : decVal V k j = some v) : kindOK V k v = true := by
  cases k <;> simp only [decVal] at h
  case agentInfo => unfold decAgent at h; (repeat' (split at h)) <;> fin h
  case blockedHost => unfold decIP at h; (repeat' (split at h)) <;> fin h
  case sourceHost => unfold decIP at h; (repeat' (split at h)) <;> fin h
  case targetHost => unfold decIP at h; (repeat' (split at h)) <;> fin h
  case targetNetwork => unfold decNet at h; (repeat' (split at h)) <;> fin h
  case targetService => unfold decSvc at h; (repeat' (split at h)) <;> fin h
  case data => unfold decData at h; (repeat' (split at h)) <;> fin h
  case requestTrajectory => unfold decFlag at h; (repeat' (split at h)) <;> fin h

theorem decParams_wf (V : Val) (o : List (String × J)) (ps : List (PKey × PVal)) (h : decParams V o = some ps) :
    ∀ p ∈ ps, kindOK V p.1 p.2 = true := by
  induction o generalizing ps with
  | nil => simp [decParams] at h; subst h; simp
  | cons x xs ih =>
    obtain ⟨k, j⟩ := x
    simp only [decParams] at h
    split at h
    · simp at h
    · rename_i pk hpk
      split at h
      · rename_i v ps' hv hps
        simp at h; subst h
        intro p hp
        rcases List.mem_cons.1 hp with rfl | hp
        · exact decVal_kind V pk j v hv
        · exact ih ps' hps p hp
      · simp at h

theorem C14_refuse (V : Val) (j : J) (a : Action) (h : decode V j = some a) : WF V a := by
  unfold decode at h
  split at h
  · split at h
    · split at h
      · simp at h; subst h; rename_i hps; exact decParams_wf V _ _ hps
      · simp at h
    · simp at h
  · simp at h

/-- whatever is decoded re-encodes and decodes to itself (decoding is idempotent through the wire) -/
theorem C14_stable (V : Val) (j : J) (a : Action) (h : decode V j = some a) : decode V (encode a) = some a :=
  C14_roundtrip V a (C14_refuse V j a h)

/-- unknown action types and unknown parameter keys are refused -/
theorem C14_unknown_type (V : Val) (o : List (String × J)) (t : String) (ht : ATy.ofString t = none)
    (h : oget "action_type" o = some (.str t)) : decode V (.obj o) = none := by
  unfold decode
  simp only [h, getStr]
  cases oget "parameters" o with
  | none => rfl
  | some p => cases p <;> simp [ht]

theorem C14_unknown_key (V : Val) (k : String) (j : J) (rest : List (String × J)) (hk : PKey.ofString k = none) :
    decParams V ((k, j) :: rest) = none := by simp [decParams, hk]

/-- non-vacuity: a well-formed action with three parameters in non-alphabetical order -/
example : WF ⟨fun _ => true, fun _ _ => true⟩
    ⟨.exfiltrateData, [(.targetHost, .ip "1.1.1.1"), (.data, .data ⟨"ü", "", 7, "t"⟩), (.sourceHost, .ip "2.2.2.2")]⟩ := by
  intro p hp; simp at hp; rcases hp with rfl | rfl | rfl <;> rfl

end NSG.Codec
