import NSG.Model.Codec
/-! # C15 — views and observations survive the wire unchanged -/
namespace NSG.Codec

theorem mapM'_map {α β} (f : α → J) (g : J → Option β) (h : α → β) (l : List α) (hf : ∀ x, g (f x) = some (h x)) :
    mapM' g (l.map f) = some (l.map h) := by
  induction l with
  | nil => rfl
  | cons x xs ih => simp [mapM', hf, ih]

theorem mapM'_id {α} (f : α → J) (g : J → Option α) (l : List α) (hf : ∀ x, g (f x) = some x) :
    mapM' g (l.map f) = some l := by
  have := mapM'_map f g id l (by simpa using hf); simpa using this

theorem dIP_enc (a : String) : dIP (encIP a) = some a := by simp [dIP, encIP, oget, getStr]
theorem dNet_enc (n : String × Int) : dNet (.obj [("ip", .str n.1), ("mask", .num n.2)]) = some n := by simp [dNet, oget]
theorem dSvc_enc (s : CService) : dSvc (encSvc s) = some s := by simp [dSvc, encSvc, encVal, oget]
theorem dData_enc (d : CData) : dData (encData d) = some d := by
  simp [dData, encData, encVal, decData, keysOK, oget]

theorem dArr_enc {α} (f : α → J) (g : J → Option α) (l : List α) (hf : ∀ x, g (f x) = some x) :
    dArr g (.arr (l.map f)) = some l := by simp [dArr, mapM'_id f g l hf]

theorem dObj_enc {α} (f : α → J) (g : J → Option α) (m : List (String × List α)) (hf : ∀ x, g (f x) = some x) :
    dObj g (.obj (m.map (fun p => (p.1, .arr (p.2.map f))))) = some m := by
  simp only [dObj]
  induction m with
  | nil => rfl
  | cons p ps ih => simp only [List.map_cons, mapM', dArr_enc f g p.2 hf, Option.map_some, ih]

section
variable (v : CView)
private abbrev F (v : CView) : List (String × J) :=
  [("known_networks", .arr (v.nets.map (fun n => .obj [("ip", .str n.1), ("mask", .num n.2)]))),
   ("known_hosts", .arr (v.known.map encIP)),
   ("controlled_hosts", .arr (v.controlled.map encIP)),
   ("known_services", .obj (v.services.map (fun p => (p.1, .arr (p.2.map encSvc))))),
   ("known_data", .obj (v.data.map (fun p => (p.1, .arr (p.2.map encData))))),
   ("known_blocks", .obj (v.blocks.map (fun p => (p.1, .arr (p.2.map encIP)))))]

theorem g1 : oget "known_networks" (F v) = some (.arr (v.nets.map (fun n => .obj [("ip", .str n.1), ("mask", .num n.2)]))) := by simp [oget]
theorem g2 : oget "known_hosts" (F v) = some (.arr (v.known.map encIP)) := by simp [oget]
theorem g3 : oget "controlled_hosts" (F v) = some (.arr (v.controlled.map encIP)) := by simp [oget]
theorem g4 : oget "known_services" (F v) = some (.obj (v.services.map (fun p => (p.1, .arr (p.2.map encSvc))))) := by simp [oget]
theorem g5 : oget "known_data" (F v) = some (.obj (v.data.map (fun p => (p.1, .arr (p.2.map encData))))) := by simp [oget]
theorem g6 : oget "known_blocks" (F v) = some (.obj (v.blocks.map (fun p => (p.1, .arr (p.2.map encIP))))) := by simp [oget]
end

/-- **Round trip.** For every view - all six parts, empty parts, any number of elements, data items
with non-default size and type, blocks - decoding the dictionary encoding gives back the view. -/
theorem C15_dict (v : CView) : viewFromDict (viewAsDict v) = some v := by
  show viewFromDict (.obj (F v)) = some v
  simp only [viewFromDict, g1, g2, g3, g4, g5, g6, Option.bind_some,
        dArr_enc _ dNet v.nets dNet_enc, dArr_enc encIP dIP v.known dIP_enc, dArr_enc encIP dIP v.controlled dIP_enc,
        dObj_enc encSvc dSvc v.services dSvc_enc, dObj_enc encData dData v.data dData_enc,
        dObj_enc encIP dIP v.blocks dIP_enc, Option.map_some]

/-- decoding is injective on encodings: two views with the same encoding are the same view -/
theorem C15_injective (v w : CView) (h : viewAsDict v = viewAsDict w) : v = w := by
  have h1 := C15_dict v; have h2 := C15_dict w
  rw [h] at h1; rw [h1] at h2; exact Option.some.inj h2

/-- non-vacuity -/
example : viewFromDict (viewAsDict ⟨[("10.0.0.0", 8)], ["10.0.0.1"], [], [("10.0.0.1", [⟨"ssh", "passive", "1", false⟩])],
    [("10.0.0.1", [⟨"u", "d", 7, "txt"⟩])], [("10.0.0.1", ["10.0.0.2"])]⟩) =
  some ⟨[("10.0.0.0", 8)], ["10.0.0.1"], [], [("10.0.0.1", [⟨"ssh", "passive", "1", false⟩])],
    [("10.0.0.1", [⟨"u", "d", 7, "txt"⟩])], [("10.0.0.1", ["10.0.0.2"])]⟩ := C15_dict _

/-- **C15, the response path:** the observation inside a response (view, reward, end flag, end reason)
decodes to exactly the observation that was encoded. -/
theorem C15_observation (o : CObs) : obsFromDict (obsAsDict o) = some o := by
  obtain ⟨v, r, e, rs⟩ := o
  cases rs with
  | none => simp [obsFromDict, obsAsDict, oget, C15_dict]
  | some s => simp [obsFromDict, obsAsDict, oget, C15_dict]

/-- two observations with the same encoding are the same observation -/
theorem C15_observation_injective (o p : CObs) (h : obsAsDict o = obsAsDict p) : o = p := by
  have h1 := C15_observation o; have h2 := C15_observation p
  rw [h] at h1; rw [h1] at h2; exact Option.some.inj h2

end NSG.Codec
