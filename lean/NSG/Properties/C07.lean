import NSG.Model.Coord
/-! # C07 (theorems under construction) -/
