import NSG.Lemmas.CoordTrace
/-! # C07 — reset is collective, voluntary and gives every agent a fresh episode -/
namespace NSG.Coord
open NSG NSG.Defender

/-- **Voluntary.** Background steps never reset an agent that has not asked: as long as its request
flag is down, view, step counter and ended flag stay exactly as they were (the `reset` micro-step
carries the guard `resetReq = true`, established in `bg_resetTask` from the consensus test). -/
theorem C07_frame_bstep (S : Settings) (a b : Agent) (hs : BStep S a b) (hr : a.resetReq = false) :
    b.view = a.view ∧ b.steps = a.steps ∧ b.ended = a.ended ∧ b.resetReq = false ∧ b.role = a.role ∧ b.name = a.name := by
  induction hs with
  | refl a => exact ⟨rfl, rfl, rfl, hr, rfl, rfl⟩
  | pay a sa =>
    refine ⟨?_, ?_, ?_, ?_, ?_, ?_⟩ <;> (unfold payOne; split <;> (try simp [hr]); split <;> (try simp [hr]); split <;> simp [hr])
  | record a act => exact ⟨rfl, rfl, rfl, hr, rfl, rfl⟩
  | reset a v hq => rw [hr] at hq; cases hq
  | restart a => exact ⟨rfl, rfl, rfl, hr, rfl, rfl⟩
  | trans _ _ ih1 ih2 =>
    obtain ⟨h1, h2, h3, h4, h5, h6⟩ := ih1 hr
    obtain ⟨g1, g2, g3, g4, g5, g6⟩ := ih2 h4
    exact ⟨g1.trans h1, g2.trans h2, g3.trans h3, g4, g5.trans h5, g6.trans h6⟩

/-- Whatever *another* connection sends or does (any message, a departure, a connect), an agent
that has not asked for a reset keeps its view, its step counter and its episode status. -/
theorem C07_voluntary (S : Settings) (s : St) (e : Ev) (d : Nat) (a a' : Agent)
    (hne : sender e ≠ some d) (ha : s.agents d = some a) (hr : a.resetReq = false)
    (ha' : (deliver S s e).1.agents d = some a') :
    a'.view = a.view ∧ a'.steps = a.steps ∧ a'.ended = a.ended ∧ a'.resetReq = false := by
  rcases deliver_trace S s e d a' ha' with ⟨a0, ha0, hb⟩ | ⟨hs, _⟩ | ⟨hs, _⟩
  · rw [ha] at ha0; cases ha0
    obtain ⟨h1, h2, h3, h4, _, _⟩ := C07_frame_bstep S a a' hb hr
    exact ⟨h1, h2, h3, h4⟩
  · exact absurd hs hne
  · exact absurd hs hne

/-- **Collective.** The reset task is started only on consensus: `settle` receives `resetEv = true`
only together with "every agent in the game has asked" - from the request handler ... -/
theorem C07_consensus_request (s : St) (c : Nat) :
    (s.updAgent c (fun ag => { ag with resetReq := true })).allReset = true →
    ∀ d ∈ s.ids, ((s.updAgent c (fun ag => { ag with resetReq := true })).agent d).resetReq = true := by
  intro h d hd; exact (allReset_iff _).1 h d hd

/-- ... and from the removal routine (a departure): only if somebody remains and all who remain asked. -/
theorem C07_consensus_departure (s : St) (c : Nat) (h : (removeAgent s c).2.2 = true) :
    (removeAgent s c).1.ids ≠ [] ∧ ∀ d ∈ (removeAgent s c).1.ids, ((removeAgent s c).1.agent d).resetReq = true := by
  unfold removeAgent at h ⊢
  split at h
  · simp only [Bool.and_eq_true, Bool.not_eq_true', List.isEmpty_eq_false_iff] at h
    rename_i hin
    simp only [hin, if_true]
    exact ⟨h.1, (allReset_iff _).1 h.2⟩
  · simp at h

/-- **Fresh.** What the reset gives each agent: the view the world built for its start position, zero
reward, end = false, counter 0 (so the whole step budget is available again), request flag cleared. -/
theorem C07_fresh (v : View) (a : Agent) :
    (resetOne v a).view = v ∧ (resetOne v a).obs = { view := v, reward := 0, ended := false, reason := none } ∧
    (resetOne v a).steps = 0 ∧ (resetOne v a).ended = false ∧ (resetOne v a).resetReq = false ∧
    (resetOne v a).status = startStatus a.role ∧ (resetOne v a).reward = 0 := by
  simp [resetOne]

/-- after a reset the agent can play exactly `max_steps` actions again before the step limit triggers -/
theorem C07_budget (S : Settings) (v : View) (a : Agent) (n : Nat) (hn : S.maxSteps a.role = some (n + 1)) (k : Nat) :
    isTimeout S (resetOne v a).role ((resetOne v a).steps + k) = decide (n + 1 ≤ k) := by
  simp [resetOne, isTimeout, hn]

/-- RESET_DONE: carries the stored (fresh) observation, the trajectory of the episode just finished
iff it was requested, and recording starts anew from the current view. -/
theorem C07_reset_done (S : Settings) (s : St) (c : Nat) (t : Bool) (ag : Agent) (hin : s.agents c = some ag) (hm : s.mute c = false) :
    (finishReset S s c t).2 = [.reply c { code := .resetDone, obs := some ag.obs, maxSteps := some (S.maxSteps ag.role),
                                            traj := if t then some (ag.trajInit, ag.traj) else none }] ∧
    (finishReset S s c t).1.agents c = some (restartTraj ag) ∧ (restartTraj ag).traj = [] ∧ (restartTraj ag).trajInit = ag.view := by
  simp [finishReset, emit, hm, St.agent, hin, St.updAgent, St.setConn, restartTraj]

end NSG.Coord
