import NSG.Model.Coord
/-!
# Queue-level view of the coordinator process

Between two quiescent points the real process does two kinds of things: a connection handler's
`reader.read()` completes and the message is put on the actions queue (`arrive`), and `run_game`
takes the oldest queued message and its handler runs up to its next suspension (`dispatch`, the
sequential `deliver`).  `Micro` schedules interleave the two arbitrarily.
-/
namespace NSG.Coord

inductive Micro where
  | arrive (e : Ev)
  | dispatch

structure SSt where
  core : St
  queue : List Ev
  outs : List Out

def SSt.init : SSt := { core := Coord.init, queue := [], outs := [] }

def microStep (S : Settings) (s : SSt) : Micro → SSt
  | .arrive e => { s with queue := s.queue ++ [e] }
  | .dispatch =>
    match s.queue with
    | [] => s
    | e :: q => { core := (deliver S s.core e).1, queue := q, outs := s.outs ++ (deliver S s.core e).2 }

def microRun (S : Settings) (s : SSt) (ms : List Micro) : SSt := ms.foldl (microStep S) s

/-- the events of a schedule in the order in which they entered the queue -/
def arrivals : List Micro → List Ev
  | [] => []
  | .arrive e :: ms => e :: arrivals ms
  | .dispatch :: ms => arrivals ms

end NSG.Coord
