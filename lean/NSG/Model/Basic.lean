/-
Basic value types of NetSecGame (game_components.py) and the list-based containers used by
all models.  Python sets are modelled by lists read through membership only; Python dicts by
association lists where the *first* binding of a key is the live one (`aset` shadows).
-/
namespace NSG

/-- IPv4 address as its 32-bit value (the implementation's identity is the dotted string). -/
abbrev IP := Nat

/-- `Network(ip, mask)`: kept un-normalised exactly like the Python dataclass. -/
structure Net where
  addr : Nat
  mask : Nat
  deriving DecidableEq, Repr, Inhabited

structure Service where
  name : String
  typ : String
  version : String
  isLocal : Bool
  deriving DecidableEq, Repr, Inhabited

structure Data where
  owner : String
  id : String
  size : Int
  typ : String
  deriving DecidableEq, Repr, Inhabited

/-- association list used for Python dicts -/
abbrev AMap (κ ν : Type) := List (κ × ν)

def alookup {κ ν} [DecidableEq κ] (k : κ) : AMap κ ν → Option ν
  | [] => none
  | (k', v) :: m => if k' = k then some v else alookup k m

def aset {κ ν} (k : κ) (v : ν) (m : AMap κ ν) : AMap κ ν := (k, v) :: m

def akeys {κ ν} (m : AMap κ ν) : List κ := m.map (·.1)

/-- value bound to `k`, empty list when absent (only used where the absent case is handled). -/
def agetD {κ ν} [DecidableEq κ] (k : κ) (m : AMap κ (List ν)) : List ν := (alookup k m).getD []

@[simp] theorem alookup_aset_same {κ ν} [DecidableEq κ] (k : κ) (v : ν) (m : AMap κ ν) :
    alookup k (aset k v m) = some v := by simp [aset, alookup]

@[simp] theorem alookup_aset_other {κ ν} [DecidableEq κ] (k k' : κ) (v : ν) (m : AMap κ ν) (h : k' ≠ k) :
    alookup k (aset k' v m) = alookup k m := by simp [aset, alookup, h]

theorem alookup_isSome_iff_mem_keys {κ ν} [DecidableEq κ] (k : κ) (m : AMap κ ν) :
    (alookup k m).isSome = true ↔ k ∈ akeys m := by
  induction m with
  | nil => simp [alookup, akeys]
  | cons p m ih =>
    obtain ⟨k', v⟩ := p
    by_cases h : k' = k
    · simp [alookup, akeys, h]
    · have h' : ¬ k = k' := fun e => h e.symm
      simp only [akeys] at ih
      simp [alookup, akeys, h, h', ih]

theorem alookup_none_iff {κ ν} [DecidableEq κ] (k : κ) (m : AMap κ ν) :
    alookup k m = none ↔ k ∉ akeys m := by
  rw [← alookup_isSome_iff_mem_keys]; cases alookup k m <;> simp

/-- netaddr membership `str(ip) in IPNetwork(str(net))` for masks 0..32. -/
def inNet (ip : IP) (n : Net) : Bool := ip >>> (32 - n.mask) == n.addr >>> (32 - n.mask)

/-- netaddr `is_ipv4_private_use()`: 10/8, 172.16/12, 192.168/16. -/
def isPrivate (a : Nat) : Bool :=
  a >>> 24 == 10 || a >>> 20 == 0xAC1 || a >>> 16 == 0xC0A8

end NSG
