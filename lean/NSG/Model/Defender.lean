/-
Model of `AIDojoCoordinator/global_defender.py` (GlobalDefender.stochastic_with_threshold).

An action is abstracted to its type and a key standing for its parameter dictionary:
two actions have equal `as_dict` iff type and key are equal.  Thresholds and probabilities
are exact fractions (num, den); the random roll is an exact fraction as well (a Python
float is a dyadic rational), so `roll < p` is decided exactly.
-/
namespace NSG.Defender

/-- Action types, in the order of `ActionType` in game_components.py. -/
inductive ATy where
  | scanNetwork | findServices | findData | exploitService | exfiltrateData | blockIP
  | joinGame | quitGame | resetGame
  deriving DecidableEq, Repr, Inhabited

structure Act where
  ty  : ATy
  key : Nat
  deriving DecidableEq, Repr, Inhabited

/-- Non-negative fraction `num/den` (den > 0 for well-formed tables). -/
structure Frac where
  num : Nat
  den : Nat
  deriving DecidableEq, Repr, Inhabited

def Frac.lt (a b : Frac) : Bool := a.num * b.den < b.num * a.den

/-- The four tables of `GlobalDefender.__init__`. -/
structure Tables where
  prob   : ATy → Option Frac      -- _DEFAULT_DETECTION_PROBS
  ratio  : ATy → Option Frac      -- _TW_TYPE_RATIOS_THRESHOLD
  consec : ATy → Option Nat       -- _TW_CONSECUTIVE_TYPE_THRESHOLD
  repeat_ : ATy → Option Nat      -- _EPISODE_REPEATED_ACTION_THRESHOLD

/-- last `n` elements of a list (Python `l[-n:]` for `0 < n`). -/
def lastN {α} (n : Nat) (l : List α) : List α := l.drop (l.length - n)

def countTy (t : ATy) (l : List Act) : Nat := (l.filter (fun a => a.ty = t)).length

def countAct (a : Act) (l : List Act) : Nat := (l.filter (fun b => b = a)).length

/-- Longest run of consecutive actions of type `t`: (current run, best so far). -/
def runAux (t : ATy) : List Act → Nat → Nat → Nat
  | [], cur, best => max cur best
  | a :: l, cur, best => if a.ty = t then runAux t l (cur + 1) best else runAux t l 0 (max cur best)

def maxRun (t : ATy) (l : List Act) : Nat := runAux t l 0 0

/-- `tw_ratio < threshold`, i.e. `count/tw < num/den`, cross-multiplied. -/
def ratioBelow (count tw : Nat) (thr : Frac) : Bool := count * thr.den < thr.num * tw

/-- The threshold condition of the property: given that the window is full and the type is
monitored, the detection draw is made iff this holds. -/
def trigger (T : Tables) (tw : Nat) (hist : List Act) (a : Act) : Bool :=
  let ep := hist ++ [a]
  let win := lastN tw ep
  match T.ratio a.ty with
  | none => false
  | some thr =>
    match T.consec a.ty with
    | some c => !(ratioBelow (countTy a.ty win) tw thr) || decide (c ≤ maxRun a.ty win)
    | none =>
      match T.repeat_ a.ty with
      | some r => !(ratioBelow (countTy a.ty win) tw thr) || decide (r ≤ countAct a ep)
      | none => false

def monitored (T : Tables) (t : ATy) : Bool := (T.consec t).isSome || (T.repeat_ t).isSome

/-- `stochastic`: roll < p (false when the type has no probability - the Python code would raise). -/
def draw (T : Tables) (t : ATy) (roll : Frac) : Bool :=
  match T.prob t with
  | some p => roll.lt p
  | none => false

/-- Transliteration of `stochastic_with_threshold` (same nesting of tests as the Python). -/
def detect (T : Tables) (tw : Nat) (hist : List Act) (a : Act) (roll : Frac) : Bool :=
  let ep := hist ++ [a]
  if tw ≤ ep.length then
    let win := lastN tw ep
    let count := countTy a.ty win
    let repeats := countAct a ep
    let run := maxRun a.ty win
    match T.consec a.ty with
    | some c =>
      match T.ratio a.ty with
      | some thr => if ratioBelow count tw thr && decide (run < c) then false else draw T a.ty roll
      | none => false
    | none =>
      match T.repeat_ a.ty with
      | some r =>
        match T.ratio a.ty with
        | some thr => if ratioBelow count tw thr && decide (repeats < r) then false else draw T a.ty roll
        | none => false
      | none => false
  else false

end NSG.Defender
