import NSG.Model.World
import NSG.Model.Defender
/-
Sequential model of the game coordinator `AIDojoCoordinator/coordinator.py`
(AgentServer.handle_new_agent, run_game, the four message handlers, the reward task, the reset
task, _remove_agent_from_game, goal_check / is_timeout / _update_agent_status /
_update_agent_episode_end, trajectory bookkeeping).

One `deliver` processes one external event *to quiescence*: the handler of the message runs to its
reply or to the barrier it parks at, then the background tasks run (reward task if the
episode-end event is set, reset task if the reset event is set) and every parked request whose
barrier is now met is answered.  This granularity is sound because no lock is held across a
suspension (generated obligation `gen_atomic_handlers`).

The world is a collaborator: the view an action leads to, the initial view of a joining agent,
the fresh views after a reset and the defender's random roll arrive with the event as `Oracle`
values.  Every theorem about this model holds for all oracle values.
-/
namespace NSG.Coord
open NSG NSG.Defender

inductive Role where
  | attacker | defender | benign
  deriving DecidableEq, Repr, Inhabited

inductive Status where
  | playing | playingWithTimeout | timeoutReached | success | fail
  deriving DecidableEq, Repr, Inhabited

/-- reply status codes (GameStatus) -/
inductive Code where
  | ok | created | resetDone | badRequest | forbidden
  deriving DecidableEq, Repr, Inhabited

/-- win condition of a role (`_win_conditions_per_role[role]`) -/
structure Goal where
  nets : List Net
  known : List IP
  controlled : List IP
  services : AMap IP (List Service)
  data : AMap IP (List Data)
  blocks : AMap IP (List IP)
  deriving Repr, Inhabited

structure Settings where
  required : Nat
  maxSteps : Role → Option Nat
  rStep : Int
  rSuccess : Int
  rFail : Int
  goal : Role → Goal
  defender : Option Tables      -- none: global defender disabled
  tw : Nat                      -- time window of the defender (5 in the code)
  storeTraj : Bool

/-- Observation(state, reward, end, info.end_reason) -/
structure Obs where
  view : View
  reward : Int
  ended : Bool
  reason : Option Status
  deriving Repr, Inhabited

/-- one recorded step of a trajectory: action, reward sent, view sent -/
structure TStep where
  act : Act
  reward : Int
  view : View
  deriving Repr, Inhabited

structure Agent where
  name : String
  role : Role
  view : View            -- _agent_states
  steps : Nat            -- _agent_steps
  status : Status        -- _agent_status
  ended : Bool           -- _episode_ends
  resetReq : Bool        -- _reset_requests
  reward : Int           -- _agent_rewards
  paid : Bool            -- addr ∈ _episode_rewards_assigned
  obs : Obs              -- _agent_observations
  trajInit : View        -- trajectory.states[0]
  traj : List TStep      -- trajectory steps, oldest first
  deriving Repr, Inhabited

/-- what a parked request waits for -/
inductive Park where
  | joinStart                      -- JoinGame waiting for the start event
  | gameEnd (a : Act)              -- final action waiting for the reward assignment
  | resetWait (wantTraj : Bool)    -- ResetGame waiting for the reset to be done
  | resetStart (wantTraj : Bool)   -- reset done, waiting for the start event
  deriving DecidableEq, Repr, Inhabited

inductive Phase where
  | absent                 -- never connected
  | reading                -- handler waits for the next message
  | parked (p : Park)      -- message consumed, answer postponed by a barrier
  | dead                   -- the write of the answer failed; QuitGame on the agent's behalf is pending
  | closed
  deriving DecidableEq, Repr, Inhabited

/-- no connection is using this peer address -/
def Phase.isFree : Phase → Bool
  | .absent | .closed => true
  | _ => false

structure St where
  conn : Nat → Phase
  mute : Nat → Bool               -- the next write to this connection fails
  slots : Nat                     -- AgentServer.current_connections
  agents : Nat → Option Agent     -- the per-agent tables, keyed by connection
  ids : List Nat                  -- agents in the game, in join order (dict order of self.agents)
  startEv : Bool                  -- _episode_start_event
  files : List (String × Role × View × List TStep)   -- abstract trajectory-file log (append only)

inductive Msg where
  | bad                                  -- not a well-formed supported request (decoder refuses / required parameter missing)
  | join (name : String) (role : Option Role)   -- role none: not one of the allowed roles
  | quit
  | reset (wantTraj : Bool)
  | game (a : Act)
  deriving Repr, Inhabited

/-- values supplied by the collaborators for one event -/
structure Oracle where
  stepView : Option View          -- result of world.step; none: it raised
  initView : View                 -- result of register_agent
  resetView : Nat → View          -- result of reset_agent per agent
  roll : Frac                     -- random() drawn by the defender

inductive Ev where
  | connect (c : Nat)
  | msg (c : Nat) (m : Msg) (o : Oracle)
  | leave (c : Nat) (o : Oracle)  -- EOF / read error noticed by a reading handler, or the quit after a failed write
  | armWriteFault (c : Nat)       -- test fault: the next write to c raises

/-- payload of a reply as far as the properties talk about it -/
structure Reply where
  code : Code
  obs : Option Obs := none
  maxSteps : Option (Option Nat) := none
  traj : Option (View × List TStep) := none     -- last_trajectory when attached
  deriving Repr, Inhabited

inductive Out where
  | reply (c : Nat) (r : Reply)
  | lost (c : Nat) (r : Reply)    -- the write failed: nothing reached the agent
  | closed (c : Nat)
  | refused (c : Nat)
  deriving Repr, Inhabited

-- ---------------------------------------------------------------- goal / status / end rules
/-- `goal_dict_satistfied` -/
def goalDict {α} [DecidableEq α] (g k : AMap IP (List α)) : Bool :=
  (akeys g).all (fun h => (alookup h k).isSome && (agetD h g).all (fun x => decide (x ∈ agetD h k)))

/-- `goal_check` -/
def goalCheck (g : Goal) (v : View) : Bool :=
  g.nets.all (fun n => decide (n ∈ v.nets)) && g.known.all (fun x => decide (x ∈ v.known)) &&
  g.controlled.all (fun x => decide (x ∈ v.controlled)) &&
  goalDict g.services v.services && goalDict g.data v.data && goalDict g.blocks v.blocks

/-- `is_timeout` (a limit of 0 or None means no limit) -/
def isTimeout (S : Settings) (r : Role) (steps : Nat) : Bool :=
  match S.maxSteps r with
  | none => false
  | some 0 => false
  | some n => decide (n ≤ steps)

/-- `is_detected` -/
def isDetected (S : Settings) (hist : List Act) (a : Act) (roll : Frac) : Bool :=
  match S.defender with
  | none => false
  | some T => detect T S.tw hist a roll

/-- `_update_agent_status`: goal > detection > timeout -/
def nextStatus (S : Settings) (ag : Agent) (a : Act) (roll : Frac) : Status :=
  if goalCheck (S.goal ag.role) ag.view then .success
  else if isDetected S (ag.traj.map (·.act)) a roll then .fail
  else if isTimeout S ag.role ag.steps then .timeoutReached
  else ag.status

def Status.terminal : Status → Bool
  | .timeoutReached | .success | .fail => true
  | _ => false

def startStatus : Role → Status
  | .attacker => .playingWithTimeout
  | _ => .playing

def St.agent (s : St) (c : Nat) : Agent := (s.agents c).getD default

def St.inGame (s : St) (c : Nat) : Bool := (s.agents c).isSome

/-- some agent in the game still has status PlayingWithTimeout -/
def St.attackerPlaying (s : St) : Bool := s.ids.any (fun c => (s.agent c).status = .playingWithTimeout)

def St.allEnded (s : St) : Bool := s.ids.all (fun c => (s.agent c).ended)

def St.allReset (s : St) : Bool := s.ids.all (fun c => (s.agent c).resetReq)

def St.setAgent (s : St) (c : Nat) (a : Agent) : St :=
  { s with agents := fun d => if d = c then some a else s.agents d }

/-- pointwise update of one agent record (never creates an entry) -/
def St.updAgent (s : St) (c : Nat) (f : Agent → Agent) : St :=
  { s with agents := fun d => if d = c then (s.agents d).map f else s.agents d }

def St.setConn (s : St) (c : Nat) (p : Phase) : St :=
  { s with conn := fun d => if d = c then p else s.conn d }

-- ---------------------------------------------------------------- replies
def finalReason (st : Status) : Option Status :=
  match st with
  | .playing | .playingWithTimeout => none
  | x => some x

/-- emit a reply to `c`: a muted connection loses it and dies -/
def emit (s : St) (c : Nat) (r : Reply) : St × List Out :=
  if s.mute c then (s.setConn c .dead, [.lost c r]) else (s.setConn c .reading, [.reply c r])

-- ---------------------------------------------------------------- background tasks
/-- reward task body for one agent -/
def payOne (S : Settings) (successfulAttack : Bool) (a : Agent) : Agent :=
  if a.paid || !a.ended then a else
  match a.role with
  | .attacker => { a with paid := true, reward := a.reward + (if a.status = .success then S.rSuccess else S.rFail) }
  | .defender =>
    if !successfulAttack then { a with paid := true, reward := a.reward + S.rSuccess, status := .success }
    else { a with paid := true, reward := a.reward + S.rFail, status := .fail }
  | .benign => a

def St.successfulAttack (s : St) : Bool :=
  s.ids.any (fun c => (s.agent c).role = .attacker && (s.agent c).status = .success)

/-- `_assign_rewards_episode_end` (one firing) -/
def rewardTask (S : Settings) (s : St) : St :=
  let sa := s.successfulAttack
  { s with agents := fun c => (s.agents c).map (payOne S sa) }

/-- second half of `_process_game_action` for a request released from the reward barrier (or not parked at all) -/
def obsOf (ag : Agent) : Obs :=
  { view := ag.view, reward := ag.reward, ended := ag.ended, reason := finalReason ag.status }

/-- `_add_step_to_trajectory` + the new stored observation -/
def recordStep (a : Act) (ag : Agent) : Agent :=
  { ag with traj := ag.traj ++ [{ act := a, reward := ag.reward, view := ag.view }], obs := obsOf ag }

def finishGame (s : St) (c : Nat) (a : Act) : St × List Out :=
  emit (s.updAgent c (recordStep a)) c { code := .ok, obs := some (obsOf (s.agent c)) }

/-- release every request parked at the reward barrier -/
def releaseEnd (s : St) : List Nat → St × List Out
  | [] => (s, [])
  | c :: cs =>
    match s.conn c with
    | .parked (.gameEnd a) =>
      let (s1, o1) := finishGame s c a
      let (s2, o2) := releaseEnd s1 cs
      (s2, o1 ++ o2)
    | _ => releaseEnd s cs

/-- `_reset_game` body for one agent -/
def resetOne (v : View) (a : Agent) : Agent :=
  { a with view := v, obs := { view := v, reward := 0, ended := false, reason := none }, ended := false,
           resetReq := false, reward := 0, paid := false, steps := 0, status := startStatus a.role }

def resetTask (S : Settings) (s : St) (o : Oracle) : St :=
  let files' := if S.storeTraj then s.files ++ s.ids.map (fun c => ((s.agent c).name, (s.agent c).role, (s.agent c).trajInit, (s.agent c).traj)) else s.files
  { s with agents := fun c => if c ∈ s.ids then (s.agents c).map (resetOne (o.resetView c)) else s.agents c,
           files := files',
           conn := fun c => match s.conn c with
             | .parked (.resetWait t) => .parked (.resetStart t)
             | p => p }

def createdReply (S : Settings) (ag : Agent) : Reply :=
  { code := .created, obs := some ag.obs, maxSteps := some (S.maxSteps ag.role) }

/-- `_reset_trajectory` -/
def restartTraj (ag : Agent) : Agent := { ag with trajInit := ag.view, traj := [] }

/-- tail of `_process_reset_game_action`: answer RESET_DONE and restart the trajectory -/
def finishReset (S : Settings) (s : St) (c : Nat) (wantTraj : Bool) : St × List Out :=
  let ag := s.agent c
  let r : Reply := { code := .resetDone, obs := some ag.obs, maxSteps := some (S.maxSteps ag.role),
                     traj := if wantTraj then some (ag.trajInit, ag.traj) else none }
  emit (s.updAgent c restartTraj) c r

/-- release the requests waiting for the start event -/
def releaseStart (S : Settings) (s : St) : List Nat → St × List Out
  | [] => (s, [])
  | c :: cs =>
    match s.conn c with
    | .parked .joinStart =>
      let (s1, o1) := emit s c (createdReply S (s.agent c))
      let (s2, o2) := releaseStart S s1 cs
      (s2, o1 ++ o2)
    | .parked (.resetStart t) =>
      let (s1, o1) := finishReset S s c t
      let (s2, o2) := releaseStart S s1 cs
      (s2, o1 ++ o2)
    | _ => releaseStart S s cs

/-- run the background tasks and release what can be released.  `endEv` / `resetEv`: whether the
handler that just ran set the episode-end / reset event. -/
def settle (S : Settings) (s : St) (o : Oracle) (endEv resetEv : Bool) : St × List Out :=
  let (s1, o1) := if endEv then releaseEnd (rewardTask S s) s.ids else (s, [])
  let s2 := if resetEv then resetTask S s1 o else s1
  let (s3, o3) := if s2.startEv then releaseStart S s2 s2.ids else (s2, [])
  (s3, o1 ++ o3)

-- ---------------------------------------------------------------- removal
/-- `_remove_agent_from_game` + the two event re-evaluations; returns the new state and which events it set -/
def removeAgent (s : St) (c : Nat) : St × Bool × Bool :=
  if s.inGame c then
    let ids' := s.ids.filter (fun d => d ≠ c)
    let s' : St := { s with agents := fun d => if d = c then none else s.agents d, ids := ids', startEv := false }
    let resetEv := !ids'.isEmpty && s'.allReset
    let endEv := s'.allEnded
    (s', endEv, resetEv)
  else (s, false, false)

/-- the connection handler's cleanup: slot returned, connection closed -/
def closeConn (s : St) (c : Nat) : St :=
  { (s.setConn c .closed) with slots := s.slots - 1 }

-- ---------------------------------------------------------------- handlers
def badRequest (s : St) (c : Nat) : St × List Out := emit s c { code := .badRequest }

def newAgent (name : String) (role : Role) (v : View) : Agent :=
  { name := name, role := role, view := v, steps := 0, status := startStatus role, ended := false,
    resetReq := false, reward := 0, paid := false,
    obs := { view := v, reward := 0, ended := false, reason := none }, trajInit := v, traj := [] }

/-- first half of `_process_game_action` for a playing agent: counter, new view, status, step reward -/
def playedAgent (S : Settings) (ag : Agent) (a : Act) (v' : View) (roll : Frac) : Agent :=
  let ag1 := { ag with steps := ag.steps + 1, view := v' }
  { ag1 with status := nextStatus S ag1 a roll, reward := S.rStep }

/-- `_update_agent_episode_end`, evaluated with the acting agent's new status in place -/
def episodeEnds (s : St) (c : Nat) (ag2 : Agent) : Bool :=
  ag2.status.terminal || !(s.setAgent c ag2).attackerPlaying

def handle (S : Settings) (s : St) (c : Nat) (m : Msg) (o : Oracle) : St × List Out :=
  match m with
  | .bad => badRequest s c
  | .join name role =>
    if s.inGame c then badRequest s c else
    match role with
    | none => badRequest s c
    | some r =>
      let s1 := s.setAgent c (newAgent name r o.initView)
      let s2 : St := { s1 with ids := s.ids ++ [c] }
      let s3 : St := if s2.ids.length = S.required then { s2 with startEv := true } else s2
      settle S (s3.setConn c (.parked .joinStart)) o false false
  | .quit =>
    let (s1, endEv, resetEv) := removeAgent s c
    let s2 := closeConn s1 c
    let (s3, outs) := settle S s2 o endEv resetEv
    (s3, .closed c :: outs)
  | .reset wantTraj =>
    if !s.inGame c then badRequest s c else
    let s1 := s.updAgent c (fun ag => { ag with resetReq := true })
    settle S (s1.setConn c (.parked (.resetWait wantTraj))) o false s1.allReset
  | .game a =>
    if !s.inGame c then badRequest s c else
    let ag := s.agent c
    if ag.ended then
      emit s c { code := .forbidden, obs := some { view := ag.obs.view, reward := ag.reward, ended := true, reason := some ag.status } }
    else
      match o.stepView with
      | none => badRequest s c
      | some v' =>
        let ag2 := playedAgent S ag a v' o.roll
        let ended := episodeEnds s c ag2
        let s2 := s.updAgent c (fun _ => { ag2 with ended := ended })
        if ended then
          settle S (s2.setConn c (.parked (.gameEnd a))) o s2.allEnded false
        else
          finishGame s2 c a

def deliver (S : Settings) (s : St) : Ev → St × List Out
  | .connect c =>
    -- a new connection (a peer address may be used again once its earlier connection is closed)
    if (s.conn c).isFree then
      if S.required ≤ s.slots then (s.setConn c .closed, [.refused c])
      else ({ (s.setConn c .reading) with slots := s.slots + 1, mute := fun d => if d = c then false else s.mute d }, [])
    else (s, [])
  | .msg c m o =>
    match s.conn c with
    | .reading => handle S s c m o
    | _ => (s, [])                      -- a handler that is not reading consumes nothing
  | .leave c o =>
    match s.conn c with
    | .reading | .dead =>
      let (s1, endEv, resetEv) := removeAgent s c
      let s2 := closeConn s1 c
      let (s3, outs) := settle S s2 o endEv resetEv
      (s3, .closed c :: outs)
    | _ => (s, [])
  | .armWriteFault c => ({ s with mute := fun d => if d = c then true else s.mute d }, [])

def init : St :=
  { conn := fun _ => .absent, mute := fun _ => false, slots := 0, agents := fun _ => none, ids := [],
    startEv := false, files := [] }

def run (S : Settings) : St → List Ev → St × List Out
  | s, [] => (s, [])
  | s, e :: es =>
    let (s1, o1) := deliver S s e
    let (s2, o2) := run S s1 es
    (s2, o1 ++ o2)

end NSG.Coord
