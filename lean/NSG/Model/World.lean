import NSG.Model.Basic
/-
Model of the rule-based world `AIDojoCoordinator/worlds/NSEGameCoordinator.py`:
tables, the six `_execute_*_action` methods (same order of guards as the Python), `reset`.
`step` returns `none` exactly where the Python code raises (the coordinator then answers
BAD_REQUEST and nothing changes).
-/
namespace NSG

structure World where
  hostname : AMap IP String             -- _ip_to_hostname
  nets     : AMap Net (List IP)         -- _networks
  services : AMap String (List Service) -- _services   (by node id)
  data     : AMap String (List Data)    -- _data       (by node id)
  fw       : AMap IP (List IP)          -- _firewall   (allowed destinations per source)
  blocks   : AMap IP (List IP)          -- _fw_blocks
  dataOrig : AMap String (List Data)    -- _data_original
  fwOrig   : AMap IP (List IP)          -- _firewall_original
  deriving Repr, Inhabited

/-- GameState -/
structure View where
  controlled : List IP
  known      : List IP
  services   : AMap IP (List Service)
  data       : AMap IP (List Data)
  nets       : List Net
  blocks     : AMap IP (List IP)
  deriving Repr, Inhabited

inductive GAction where
  | scan (src : IP) (net : Net)
  | findServices (src tgt : IP)
  | findData (src tgt : IP)
  | exploit (src tgt : IP) (svc : Service)
  | exfil (src tgt : IP) (d : Data)
  | block (src tgt blocked : IP)
  deriving Repr, Inhabited

namespace World

/-- `_firewall_check` -/
def allowed (w : World) (s d : IP) : Bool :=
  match alookup s w.fw with
  | some l => decide (d ∈ l)
  | none => false

def hostExists (w : World) (ip : IP) : Bool := (alookup ip w.hostname).isSome

/-- `_get_networks_from_host` -/
def netsOf (w : World) (ip : IP) : List Net := (w.nets.filter (fun p => decide (ip ∈ p.2))).map (·.1)

/-- `_get_services_from_host` -/
def servicesOf (w : World) (ip : IP) (controlled : List IP) : List Service :=
  match alookup ip w.hostname with
  | none => []
  | some hn =>
    match alookup hn w.services with
    | none => []
    | some ss => if ip ∈ controlled then ss else ss.filter (fun s => !s.isLocal)

/-- `_get_data_in_host` -/
def dataIn (w : World) (ip : IP) (controlled : List IP) : List Data :=
  if ip ∈ controlled then
    match alookup ip w.hostname with
    | none => []
    | some hn => (alookup hn w.data).getD []
  else []

/-- `_get_known_blocks_in_host` -/
def blocksIn (w : World) (ip : IP) (controlled : List IP) : List IP :=
  if ip ∈ controlled then
    if w.hostExists ip then (alookup ip w.blocks).getD [] else []
  else []

end World

/-- `d[k] = d[k] ∪ new` / `d[k] = new` when the key is absent -/
def addTo {κ ν} [DecidableEq κ] (k : κ) (new : List ν) (m : AMap κ (List ν)) : AMap κ (List ν) :=
  match alookup k m with
  | none => aset k new m
  | some old => aset k (old ++ new) m

/-- `d[k].discard(x)` guarded by `try/except KeyError` -/
def discardFrom {κ} [DecidableEq κ] (k : κ) (x : IP) (m : AMap κ (List IP)) : AMap κ (List IP) :=
  match alookup k m with
  | none => m
  | some old => aset k (old.filter (fun y => y ≠ x)) m

open World in
/-- `_execute_action`: one world step.  `none` = the Python code raises. -/
def step (w : World) (v : View) : GAction → Option (World × View)
  | .scan src net =>
    if src ∈ v.controlled then
      if net.mask > 32 ∧ w.hostname ≠ [] then none      -- netaddr rejects the network
      else
        let new := (akeys w.hostname).filter (fun ip => inNet ip net && w.allowed src ip)
        some (w, { v with known := v.known ++ new })
    else some (w, v)
  | .findServices src tgt =>
    if src ∈ v.controlled then
      if w.allowed src tgt then
        let found := w.servicesOf tgt v.controlled
        if found ≠ [] then
          let v1 := { v with services := aset tgt found v.services }
          if tgt ∉ v.known then
            some (w, { v1 with known := v.known ++ [tgt], nets := v.nets ++ w.netsOf tgt })
          else some (w, v1)
        else some (w, v)
      else some (w, v)
    else some (w, v)
  | .findData src tgt =>
    if src ∈ v.controlled then
      if w.allowed src tgt then
        let nd := w.dataIn tgt v.controlled
        let nb := w.blocksIn tgt v.controlled
        let d' := if nd ≠ [] then addTo tgt nd v.data else v.data
        let b' := if nb ≠ [] then addTo tgt nb v.blocks else v.blocks
        some (w, { v with data := d', blocks := b' })
      else some (w, v)
    else some (w, v)
  | .exfil src tgt d =>
    if tgt ∈ v.controlled then
      if src ∈ v.controlled then
        if w.allowed src tgt then
          if d ∈ (alookup src v.data).getD [] then
            match alookup src w.hostname with
            | none => none                                    -- KeyError in the Python code
            | some shn =>
              match alookup shn w.data with
              | none => some (w, v)
              | some sd =>
                if d ∈ sd then
                  match alookup tgt w.hostname with
                  | none => none                              -- KeyError in the Python code
                  | some thn =>
                    some ({ w with data := addTo thn [d] w.data }, { v with data := addTo tgt [d] v.data })
                else some (w, v)
          else some (w, v)
        else some (w, v)
      else some (w, v)
    else some (w, v)
  | .exploit src tgt svc =>
    if src ∈ v.controlled then
      match alookup tgt w.hostname with
      | none => some (w, v)
      | some hn =>
        if w.allowed src tgt then
          match alookup hn w.services with
          | none => some (w, v)
          | some ss =>
            if svc ∈ ss then
              match alookup tgt v.services with
              | none => some (w, v)
              | some ks =>
                if svc ∈ ks then
                  let c' := if tgt ∈ v.controlled then v.controlled else v.controlled ++ [tgt]
                  some (w, { v with controlled := c', nets := v.nets ++ w.netsOf tgt })
                else some (w, v)
            else some (w, v)
        else some (w, v)
    else some (w, v)
  | .block src tgt blocked =>
    if src ∈ v.controlled then
      if tgt ∈ v.controlled then
        if w.allowed src tgt then
          if tgt ≠ blocked then
            let fw' := discardFrom blocked tgt (discardFrom tgt blocked w.fw)
            let wb := addTo blocked [tgt] (addTo tgt [blocked] w.blocks)
            let vb := addTo blocked [tgt] (addTo tgt [blocked] v.blocks)
            some ({ w with fw := fw', blocks := wb }, { v with blocks := vb })
          else some (w, v)
        else some (w, v)
      else some (w, v)
    else some (w, v)

/-- `reset()` with static addresses. -/
def World.reset (w : World) : World := { w with data := w.dataOrig, fw := w.fwOrig, blocks := [] }

/-- The preconditions named in property C02 (written from the documentation, not from the code). -/
def pre (w : World) (v : View) : GAction → Bool
  | .scan src _ => decide (src ∈ v.controlled)
  | .findServices src tgt => decide (src ∈ v.controlled) && w.allowed src tgt
  | .findData src tgt => decide (src ∈ v.controlled) && w.allowed src tgt && decide (tgt ∈ v.controlled)
  | .exploit src tgt svc =>
      decide (src ∈ v.controlled) && w.allowed src tgt &&
      decide (svc ∈ w.servicesOf tgt (tgt :: v.controlled)) &&      -- the service exists on the target
      decide (svc ∈ (alookup tgt v.services).getD [])               -- and the agent has discovered it there
  | .exfil src tgt d =>
      decide (src ∈ v.controlled) && decide (tgt ∈ v.controlled) && w.allowed src tgt &&
      decide (d ∈ (alookup src v.data).getD [])
  | .block src tgt blocked =>
      decide (src ∈ v.controlled) && decide (tgt ∈ v.controlled) && w.allowed src tgt && decide (tgt ≠ blocked)

/-- the individual guards of `pre`, in the order of the property statement (used only to classify
test inputs: a case is non-trivial for C02 when exactly one guard is false) -/
def preGuards (w : World) (v : View) : GAction → List Bool
  | .scan src _ => [decide (src ∈ v.controlled)]
  | .findServices src tgt => [decide (src ∈ v.controlled), w.allowed src tgt]
  | .findData src tgt => [decide (src ∈ v.controlled), w.allowed src tgt, decide (tgt ∈ v.controlled)]
  | .exploit src tgt svc =>
      [decide (src ∈ v.controlled), w.allowed src tgt, decide (svc ∈ w.servicesOf tgt (tgt :: v.controlled)),
       decide (svc ∈ (alookup tgt v.services).getD [])]
  | .exfil src tgt d =>
      [decide (src ∈ v.controlled), decide (tgt ∈ v.controlled), w.allowed src tgt,
       decide (d ∈ (alookup src v.data).getD [])]
  | .block src tgt blocked =>
      [decide (src ∈ v.controlled), decide (tgt ∈ v.controlled), w.allowed src tgt, decide (tgt ≠ blocked)]

theorem pre_eq_all_guards (w : World) (v : View) (a : GAction) : pre w v a = (preGuards w v a).all id := by
  cases a <;> simp [pre, preGuards, Bool.and_assoc]

/-- executable form of `Inv`, used by the driver to evaluate the invariant on views returned by the
real implementation -/
def invB (w : World) (v : View) : Bool :=
  v.controlled.all (fun x => decide (x ∈ v.known)) &&
  (akeys v.services).all (fun k => decide (k ∈ v.known)) &&
  (akeys v.data).all (fun k => decide (k ∈ v.controlled)) &&
  v.known.all (fun x => decide (x ∈ akeys w.hostname)) &&
  (akeys v.services).all (fun k => (agetD k v.services).all (fun s =>
      match alookup k w.hostname with
      | none => false
      | some hn => match alookup hn w.services with
        | none => false
        | some ss => decide (s ∈ ss))) &&
  (akeys v.data).all (fun k => (agetD k v.data).all (fun d =>
      match alookup k w.hostname with
      | none => false
      | some hn => decide (d ∈ agetD hn w.data)))


/-- executable form of `View.le` -/
def leB (v v' : View) : Bool :=
  v.nets.all (fun n => decide (n ∈ v'.nets)) && v.known.all (fun x => decide (x ∈ v'.known)) &&
  v.controlled.all (fun x => decide (x ∈ v'.controlled)) &&
  (akeys v.data).all (fun k => decide (k ∈ akeys v'.data) && (agetD k v.data).all (fun d => decide (d ∈ agetD k v'.data))) &&
  (akeys v.blocks).all (fun k => decide (k ∈ akeys v'.blocks) && (agetD k v.blocks).all (fun d => decide (d ∈ agetD k v'.blocks)))


end NSG
