/-
Model of the wire codecs of `game_components.py`:
  Action.as_dict / Action.from_dict (+ ActionType.from_string), Action.__eq__ / __hash__,
  GameState.as_dict / GameState.from_dict (from_json delegates to from_dict).
JSON *text* <-> JSON *value* is json.dumps / json.loads (trusted, exercised by the tie); this model
starts at JSON values `J`.  Addresses are their canonical strings here (exactly what the Python
objects hold); `validIP` / `validNet` stand for ipaddress.ip_address / netaddr.IPNetwork accepting
the string and are parameters of the decoder.
-/
namespace NSG.Codec

inductive J where
  | null
  | bool (b : Bool)
  | num (n : Int)
  | str (s : String)
  | arr (l : List J)
  | obj (l : List (String × J))
  deriving Repr, Inhabited

/-- dict lookup in a JSON object (json.loads never yields duplicate keys) -/
def oget (k : String) : List (String × J) → Option J
  | [] => none
  | (k', v) :: m => if k' = k then some v else oget k m

structure Val where      -- validity oracles of the address libraries
  ip : String → Bool
  net : String → Int → Bool

structure CService where
  name : String
  typ : String
  version : String
  isLocal : Bool
  deriving DecidableEq, Repr

structure CData where
  owner : String
  id : String
  size : Int
  typ : String
  deriving DecidableEq, Repr

inductive ATy where
  | scanNetwork | findServices | findData | exploitService | exfiltrateData | blockIP
  | joinGame | quitGame | resetGame
  deriving DecidableEq, Repr

def ATy.name : ATy → String
  | .scanNetwork => "ScanNetwork" | .findServices => "FindServices" | .findData => "FindData"
  | .exploitService => "ExploitService" | .exfiltrateData => "ExfiltrateData" | .blockIP => "BlockIP"
  | .joinGame => "JoinGame" | .quitGame => "QuitGame" | .resetGame => "ResetGame"

def ATy.all : List ATy := [.scanNetwork, .findServices, .findData, .exploitService, .exfiltrateData, .blockIP, .joinGame, .quitGame, .resetGame]

/-- `ActionType.from_string`: optional "ActionType." prefix, then the member name -/
def ATy.ofString (s : String) : Option ATy :=
  ATy.all.find? (fun t => s = t.name || s = "ActionType." ++ t.name)

/-- the eight supported parameter keys, in alphabetical order of their wire names -/
inductive PKey where
  | agentInfo | blockedHost | data | requestTrajectory | sourceHost | targetHost | targetNetwork | targetService
  deriving DecidableEq, Repr

def PKey.name : PKey → String
  | .agentInfo => "agent_info" | .blockedHost => "blocked_host" | .data => "data"
  | .requestTrajectory => "request_trajectory" | .sourceHost => "source_host" | .targetHost => "target_host"
  | .targetNetwork => "target_network" | .targetService => "target_service"

def PKey.all : List PKey := [.agentInfo, .blockedHost, .data, .requestTrajectory, .sourceHost, .targetHost, .targetNetwork, .targetService]

def PKey.ofString (s : String) : Option PKey := PKey.all.find? (fun k => k.name = s)

inductive PVal where
  | ip (a : String)
  | net (a : String) (mask : Int)
  | svc (s : CService)
  | data (d : CData)
  | agent (name role : String)
  | flag (b : Bool)
  deriving DecidableEq, Repr

structure Action where
  ty : ATy
  params : List (PKey × PVal)
  deriving Repr

-- ------------------------------------------------------------------------------- encoding
def encVal : PVal → J
  | .ip a => .obj [("ip", .str a)]
  | .net a m => .obj [("ip", .str a), ("mask", .num m)]
  | .svc s => .obj [("name", .str s.name), ("type", .str s.typ), ("version", .str s.version), ("is_local", .bool s.isLocal)]
  | .data d => .obj [("owner", .str d.owner), ("id", .str d.id), ("size", .num d.size), ("type", .str d.typ)]
  | .agent n r => .obj [("name", .str n), ("role", .str r)]
  | .flag b => .str (if b then "True" else "False")      -- str(v) for non-dataclass values

/-- `Action.as_dict` -/
def encode (a : Action) : J :=
  .obj [("action_type", .str ("ActionType." ++ a.ty.name)),
        ("parameters", .obj (a.params.map (fun p => (p.1.name, encVal p.2))))]

-- ------------------------------------------------------------------------------- decoding
def getStr : Option J → Option String
  | some (.str s) => some s
  | _ => none

/-- `cls(**data)`: every key of the object must be a field, every required field present -/
def keysOK (fields required : List String) (o : List (String × J)) : Bool :=
  (o.map (·.1)).all (fun k => decide (k ∈ fields)) && required.all (fun k => (oget k o).isSome)

def decIP (V : Val) (j : J) : Option PVal :=
  match j with
  | .obj o =>
    if keysOK ["ip"] ["ip"] o then
      match oget "ip" o with
      | some (.str a) => if V.ip a then some (.ip a) else none
      | _ => none
    else none
  | _ => none

def decNet (V : Val) (j : J) : Option PVal :=
  match j with
  | .obj o =>
    if keysOK ["ip", "mask"] ["ip", "mask"] o then
      match oget "ip" o, oget "mask" o with
      | some (.str a), some (.num m) => if V.net a m then some (.net a m) else none
      | _, _ => none
    else none
  | _ => none

def decSvc (j : J) : Option PVal :=
  match j with
  | .obj o =>
    if keysOK ["name", "type", "version", "is_local"] ["name"] o then
      match oget "name" o with
      | some (.str n) =>
        let t := match oget "type" o with | some (.str x) => some x | none => some "unknown" | _ => none
        let v := match oget "version" o with | some (.str x) => some x | none => some "unknown" | _ => none
        let l := match oget "is_local" o with | some (.bool x) => some x | none => some true | _ => none
        match t, v, l with
        | some t, some v, some l => some (.svc ⟨n, t, v, l⟩)
        | _, _, _ => none
      | _ => none
    else none
  | _ => none

def decData (j : J) : Option PVal :=
  match j with
  | .obj o =>
    if keysOK ["owner", "id", "size", "type"] ["owner", "id"] o then
      match oget "owner" o, oget "id" o with
      | some (.str ow), some (.str i) =>
        let s := match oget "size" o with | some (.num x) => some x | none => some 0 | _ => none
        let t := match oget "type" o with | some (.str x) => some x | none => some "" | _ => none
        match s, t with
        | some s, some t => some (.data ⟨ow, i, s, t⟩)
        | _, _ => none
      | _, _ => none
    else none
  | _ => none

def decAgent (j : J) : Option PVal :=
  match j with
  | .obj o =>
    if keysOK ["name", "role"] ["name", "role"] o then
      match oget "name" o, oget "role" o with
      | some (.str n), some (.str r) => some (.agent n r)
      | _, _ => none
    else none
  | _ => none

/-- `ast.literal_eval(v)` restricted to the two literals the protocol uses -/
def decFlag (j : J) : Option PVal :=
  match j with
  | .str "True" => some (.flag true)
  | .str "False" => some (.flag false)
  | _ => none

def decVal (V : Val) (k : PKey) (j : J) : Option PVal :=
  match k with
  | .sourceHost | .targetHost | .blockedHost => decIP V j
  | .targetNetwork => decNet V j
  | .targetService => decSvc j
  | .data => decData j
  | .agentInfo => decAgent j
  | .requestTrajectory => decFlag j

def decParams (V : Val) : List (String × J) → Option (List (PKey × PVal))
  | [] => some []
  | (k, j) :: rest =>
    match PKey.ofString k with
    | none => none                      -- "Unsupported value in {k}"
    | some pk =>
      match decVal V pk j, decParams V rest with
      | some v, some ps => some ((pk, v) :: ps)
      | _, _ => none

/-- `Action.from_dict` -/
def decode (V : Val) (j : J) : Option Action :=
  match j with
  | .obj o =>
    match getStr (oget "action_type" o), oget "parameters" o with
    | some t, some (.obj ps) =>
      match ATy.ofString t, decParams V ps with
      | some ty, some params => some ⟨ty, params⟩
      | _, _ => none
    | _, _ => none
  | _ => none

-- ------------------------------------------------------------------------------- equality / hash
def plookup (k : PKey) : List (PKey × PVal) → Option PVal
  | [] => none
  | (k', v) :: m => if k' = k then some v else plookup k m

/-- `Action.__eq__`: same type and equal parameter dictionaries (order of insertion irrelevant) -/
def actionEq (a b : Action) : Prop := a.ty = b.ty ∧ ∀ k, plookup k a.params = plookup k b.params

instance (a b : Action) : Decidable (actionEq a b) := by
  unfold actionEq
  have : Decidable (∀ k, plookup k a.params = plookup k b.params) :=
    decidable_of_iff (∀ k ∈ PKey.all, plookup k a.params = plookup k b.params)
      ⟨fun h k => h k (by cases k <;> decide), fun h k _ => h k⟩
  exact inferInstance

/-- `Action.__hash__`: the type and the (key, hash value) pairs sorted by key - for an arbitrary value hash `h` -/
def hashA {H : Type} (h : PVal → H) (a : Action) : ATy × List (PKey × H) :=
  (a.ty, PKey.all.filterMap (fun k => (plookup k a.params).map (fun v => (k, h v))))

/-- well-formed action: what an agent can build - distinct keys, each value of the kind its key
carries, valid addresses -/
def kindOK (V : Val) : PKey → PVal → Bool
  | .sourceHost, .ip a | .targetHost, .ip a | .blockedHost, .ip a => V.ip a
  | .targetNetwork, .net a m => V.net a m
  | .targetService, .svc _ => true
  | .data, .data _ => true
  | .agentInfo, .agent _ _ => true
  | .requestTrajectory, .flag _ => true
  | _, _ => false

def WF (V : Val) (a : Action) : Prop := ∀ p ∈ a.params, kindOK V p.1 p.2 = true

-- ------------------------------------------------------------------------------- views (GameState)
structure CView where
  nets : List (String × Int)
  known : List String
  controlled : List String
  services : List (String × List CService)
  data : List (String × List CData)
  blocks : List (String × List String)
  deriving Repr

def encIP (a : String) : J := .obj [("ip", .str a)]
def encSvc (s : CService) : J := encVal (.svc s)
def encData (d : CData) : J := encVal (.data d)

/-- `GameState.as_dict` -/
def viewAsDict (v : CView) : J :=
  .obj [("known_networks", .arr (v.nets.map (fun n => .obj [("ip", .str n.1), ("mask", .num n.2)]))),
        ("known_hosts", .arr (v.known.map encIP)),
        ("controlled_hosts", .arr (v.controlled.map encIP)),
        ("known_services", .obj (v.services.map (fun p => (p.1, .arr (p.2.map encSvc))))),
        ("known_data", .obj (v.data.map (fun p => (p.1, .arr (p.2.map encData))))),
        ("known_blocks", .obj (v.blocks.map (fun p => (p.1, .arr (p.2.map encIP)))))]

def mapM' {α β} (f : α → Option β) : List α → Option (List β)
  | [] => some []
  | x :: xs => match f x, mapM' f xs with
    | some y, some ys => some (y :: ys)
    | _, _ => none

def dIP (j : J) : Option String := match j with
  | .obj o => getStr (oget "ip" o)
  | _ => none

def dNet (j : J) : Option (String × Int) := match j with
  | .obj o => match oget "ip" o, oget "mask" o with
    | some (.str a), some (.num m) => some (a, m)
    | _, _ => none
  | _ => none

def dSvc (j : J) : Option CService := match j with
  | .obj o => match oget "name" o, oget "type" o, oget "version" o, oget "is_local" o with
    | some (.str n), some (.str t), some (.str v), some (.bool l) => some ⟨n, t, v, l⟩
    | _, _, _, _ => none
  | _ => none

def dData (j : J) : Option CData := match decData j with
  | some (.data d) => some d
  | _ => none

def dArr {α} (f : J → Option α) (j : J) : Option (List α) := match j with
  | .arr l => mapM' f l
  | _ => none

def dObj {α} (f : J → Option α) (j : J) : Option (List (String × List α)) := match j with
  | .obj o => mapM' (fun p => (dArr f p.2).map (fun l => (p.1, l))) o
  | _ => none

/-- `GameState.from_dict` (known_blocks optional) -/
def viewFromDict (j : J) : Option CView := match j with
  | .obj o =>
    match (oget "known_networks" o).bind (dArr dNet), (oget "known_hosts" o).bind (dArr dIP),
          (oget "controlled_hosts" o).bind (dArr dIP), (oget "known_services" o).bind (dObj dSvc),
          (oget "known_data" o).bind (dObj dData) with
    | some n, some k, some c, some s, some d =>
      match oget "known_blocks" o with
      | none => some ⟨n, k, c, s, d, []⟩
      | some b => (dObj dIP b).map (fun b => ⟨n, k, c, s, d, b⟩)
    | _, _, _, _, _ => none
  | _ => none

/-- Observation(state, reward, end, info) as the coordinator puts it into a response (`observation_as_dict`) -/
structure CObs where
  view : CView
  reward : Int
  ended : Bool
  reason : Option String      -- info.end_reason (absent while the episode runs)
  deriving Repr

def obsAsDict (o : CObs) : J :=
  .obj [("state", viewAsDict o.view), ("reward", .num o.reward), ("end", .bool o.ended),
        ("info", .obj (match o.reason with | none => [] | some r => [("end_reason", .str r)]))]

def obsFromDict (j : J) : Option CObs := match j with
  | .obj m =>
    match (oget "state" m).bind viewFromDict, oget "reward" m, oget "end" m, oget "info" m with
    | some v, some (.num r), some (.bool e), some (.obj i) =>
      match oget "end_reason" i with
      | none => some ⟨v, r, e, none⟩
      | some (.str s) => some ⟨v, r, e, some s⟩
      | some _ => none
    | _, _, _, _ => none
  | _ => none

end NSG.Codec
