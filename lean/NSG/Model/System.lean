import NSG.Model.Coord
import NSG.Model.World
/-!
# The closed system: coordinator + world

In `Coord.lean` the world is a collaborator whose answers arrive as `Oracle` values.  Here the answers
are *computed*: the view a game action leads to is `World.step` applied to the view the coordinator
holds for the sender and to the shared tables; a joining or reset agent gets the start view of its
role; a completed reset puts the tables back (`World.reset`).  This mirrors the calls
`self.step`, `self.register_agent`, `self.reset_agent`, `self.reset` of `coordinator.py`.
-/
namespace NSG.Sys
open NSG NSG.Coord NSG.Defender

/-- what the closed system is given: the freshly loaded world, the meaning of the (opaque) action ids,
the view the world builds for each role's start position -/
structure Env where
  w0 : World
  sem : Act → Option GAction
  start : Role → View

structure SysSt where
  st : St
  w : World

/-- external events of the closed system (the only remaining oracle value is the defender's roll) -/
inductive SEv where
  | connect (c : Nat)
  | msg (c : Nat) (m : Msg) (roll : Frac)
  | leave (c : Nat)
  | armWriteFault (c : Nat)

/-- the world's answers for this event, computed from the system state -/
def oracle (E : Env) (sys : SysSt) (c : Nat) (m : Option Msg) (roll : Frac) : Oracle :=
  { stepView := match m with
      | some (.game a) => (E.sem a).bind (fun ga => (step sys.w (sys.st.agent c).view ga).map (·.2))
      | _ => none
    initView := match m with
      | some (.join _ (some r)) => E.start r
      | _ => default
    resetView := fun d => E.start (sys.st.agent d).role
    roll := roll }

def toEv (E : Env) (sys : SysSt) : SEv → Ev
  | .connect c => .connect c
  | .msg c m roll => .msg c m (oracle E sys c (some m) roll)
  | .leave c => .leave c (oracle E sys c none default)
  | .armWriteFault c => .armWriteFault c

/-- the coordinator really hands this action to the world (sender reading, in the game, episode not ended,
the action means something) and the world processes it -/
def executes (E : Env) (sys : SysSt) (c : Nat) (a : Act) : Option (World × View) :=
  if sys.st.conn c = .reading ∧ sys.st.inGame c = true ∧ (sys.st.agent c).ended = false then
    (E.sem a).bind (fun ga => step sys.w (sys.st.agent c).view ga)
  else none

/-- this delivery starts the reset task (`resetEv` of `settle`) -/
def resetFired (s : St) : Ev → Bool
  | .msg c (.reset _) _ =>
      decide (s.conn c = .reading) && s.inGame c && (s.updAgent c (fun ag => { ag with resetReq := true })).allReset
  | .msg c .quit _ => decide (s.conn c = .reading) && (removeAgent s c).2.2
  | .leave c _ => (decide (s.conn c = .reading) || decide (s.conn c = .dead)) && (removeAgent s c).2.2
  | _ => false

/-- the shared tables after the (possible) game step of this event -/
def stepWorld (E : Env) (sys : SysSt) : SEv → World
  | .msg c (.game a) _ => match executes E sys c a with
      | some (w', _) => w'
      | none => sys.w
  | _ => sys.w

/-- ... and after the (possible) reset it completes -/
def nextWorld (E : Env) (sys : SysSt) (ev : SEv) : World :=
  if resetFired sys.st (toEv E sys ev) then (stepWorld E sys ev).reset else stepWorld E sys ev

def sysDeliver (E : Env) (S : Settings) (sys : SysSt) (ev : SEv) : SysSt × List Out :=
  ({ st := (deliver S sys.st (toEv E sys ev)).1, w := nextWorld E sys ev }, (deliver S sys.st (toEv E sys ev)).2)

def sysInit (E : Env) : SysSt := { st := Coord.init, w := E.w0 }

def sysRun (E : Env) (S : Settings) : SysSt → List SEv → SysSt × List Out
  | sys, [] => (sys, [])
  | sys, e :: es =>
    let (s1, o1) := sysDeliver E S sys e
    let (s2, o2) := sysRun E S s1 es
    (s2, o1 ++ o2)

end NSG.Sys
