/-
Model of the task-configuration reader `AIDojoCoordinator/utils/utils.py` (class ConfigParser) and
of the construction of the initial view `_create_state_from_view` in the world.
A configuration is a YAML value tree `Y` (yaml.safe_load is trusted).  Address strings are kept as
strings; `validIP` / `validNet` stand for netaddr.IPAddress / netaddr.IPNetwork accepting them.
-/
namespace NSG.Config

inductive Y where
  | null
  | bool (b : Bool)
  | int (n : Int)
  | str (s : String)
  | list (l : List Y)
  | map (m : List (String × Y))
  deriving Repr, Inhabited

def yget (k : String) : List (String × Y) → Option Y
  | [] => none
  | (k', v) :: m => if k' = k then some v else yget k m

/-- `config[a][b]...`: none = KeyError somewhere on the path (a non-map on the path is a TypeError,
modelled as `none` too: both are the 'absent' case of the documented defaults) -/
def path (y : Y) : List String → Option Y
  | [] => some y
  | k :: ks => match y with
    | .map m => (yget k m).bind (fun v => path v ks)
    | _ => none

structure Val where
  ip : String → Bool
  net : String → Bool             -- "a.b.c.d/m" accepted by netaddr.IPNetwork
  split : String → Option (String × Int)   -- "a.b.c.d/m" -> (a.b.c.d, m)   (str.split('/') + int())

/-- entries of a host list: an address, or one of the two wildcards -/
inductive HostItem where
  | ip (a : String)
  | random
  | allLocal
  deriving DecidableEq, Repr

/-- `read_agents_known_networks`: items containing '/' that netaddr accepts -/
def readNets (V : Val) (y : Option Y) : List (String × Int) :=
  match y with
  | some (.list l) => l.filterMap (fun x => match x with
      | .str s => if V.net s then V.split s else none
      | _ => none)
  | _ => []

/-- `read_agents_known_hosts` / `read_agents_controlled_hosts` -/
def hostItem (V : Val) : Y → Option HostItem
  | .str s => if V.ip s then some (.ip s) else if s = "random" then some .random
              else if s = "all_local" then some .allLocal else none
  | _ => none

/-- the result is a Python set: duplicates collapse -/
def readHosts (V : Val) (y : Option Y) : List HostItem :=
  match y with
  | some (.list l) => (l.filterMap (hostItem V)).eraseDups
  | _ => []

/-- one datapoint `[user, data]` -/
def readDatum : Y → Option (String × String)
  | .list [.str u, .str d] => some (u, d)
  | _ => none

/-- `read_agents_known_data`: {ip: [[user, data], ...]}; an invalid host key empties everything read
so far (the code resets the whole dictionary) -/
def readData (V : Val) (y : Option Y) : List (String × List (String × String)) :=
  match y with
  | some (.map m) =>
    m.foldl (fun acc p =>
      if V.ip p.1 then
        match p.2 with
        | .list l => acc ++ [(p.1, l.filterMap readDatum)]
        | _ => acc
      else []) []
  | _ => []

structure Section where
  nets : List (String × Int)
  known : List HostItem
  controlled : List HostItem
  data : List (String × List (String × String))
  deriving Repr

def readSection (V : Val) (cfg : Y) (role kind : String) : Section :=
  let base := ["coordinator", "agents", role, kind]
  { nets := readNets V (path cfg (base ++ ["known_networks"])),
    known := readHosts V (path cfg (base ++ ["known_hosts"])),
    controlled := readHosts V (path cfg (base ++ ["controlled_hosts"])),
    data := readData V (path cfg (base ++ ["known_data"])) }

/-- `get_max_steps`: int(value); absent or null -> None (no step limit) -/
def readMaxSteps (cfg : Y) (role : String) : Option Int :=
  match path cfg ["coordinator", "agents", role, "max_steps"] with
  | some (.int n) => some n
  | _ => none

/-- `get_rewards`: absent -> 0 -/
def readReward (cfg : Y) (name : String) : Int :=
  match path cfg ["env", "rewards", name] with
  | some (.int n) => n
  | _ => 0

/-- `get_required_num_players`: absent -> 1 -/
def readRequired (cfg : Y) : Int :=
  match path cfg ["env", "required_players"] with
  | some (.int n) => n
  | _ => 1

/-- the switches use_firewall / use_dynamic_addresses / use_global_defender / save_trajectories: absent -> off -/
def readSwitch (cfg : Y) (name : String) : Bool :=
  match path cfg ["env", name] with
  | some (.bool b) => b
  | _ => false

structure Settings where
  maxStepsAttacker : Option Int
  maxStepsDefender : Option Int
  rStep : Int
  rSuccess : Int
  rFail : Int
  required : Int
  firewall : Bool
  dynamic : Bool
  defender : Bool
  saveTraj : Bool
  deriving Repr

def readSettings (cfg : Y) : Settings :=
  { maxStepsAttacker := readMaxSteps cfg "Attacker", maxStepsDefender := readMaxSteps cfg "Defender",
    rStep := readReward cfg "step", rSuccess := readReward cfg "success", rFail := readReward cfg "fail",
    required := readRequired cfg, firewall := readSwitch cfg "use_firewall", dynamic := readSwitch cfg "use_dynamic_addresses",
    defender := readSwitch cfg "use_global_defender", saveTraj := readSwitch cfg "save_trajectories" }

-- ------------------------------------------------------------------------------- initial view
/-- what `_create_state_from_view` needs from the world -/
structure WorldInfo where
  startHosts : List String                  -- hosts_to_start
  localHosts : List String                  -- _get_all_local_ips()
  netsOf : String → List (String × Int)     -- _get_networks_from_host
  isPrivate : String × Int → Bool
  neighbours : String × Int → List (String × Int)   -- the +-256 networks that are still private

structure IView where
  nets : List (String × Int)
  known : List String
  controlled : List String
  data : List (String × List (String × String))
  deriving Repr

/-- controlled hosts: addresses as listed, `random` replaced by the next pick, `all_local` by all local hosts -/
def resolveControlled (W : WorldInfo) : List HostItem → List String → List String
  | [], _ => []
  | .ip a :: rest, picks => a :: resolveControlled W rest picks
  | .random :: rest, p :: picks => p :: resolveControlled W rest picks
  | .random :: rest, [] => resolveControlled W rest []
  | .allLocal :: rest, picks => W.localHosts ++ resolveControlled W rest picks

/-- known hosts listed as addresses (the wildcards are meaningful for controlled hosts only; a wildcard
in known_hosts makes the real code raise KeyError - outside the documented use) -/
def listedIPs : List HostItem → List String
  | [] => []
  | .ip a :: rest => a :: listedIPs rest
  | _ :: rest => listedIPs rest

def initialView (W : WorldInfo) (s : Section) (picks : List String) : IView :=
  let controlled := resolveControlled W s.controlled picks
  let privNets := (controlled.flatMap W.netsOf).filter W.isPrivate
  { nets := s.nets ++ privNets ++ privNets.flatMap W.neighbours,
    known := listedIPs s.known ++ controlled,
    controlled := controlled,
    data := s.data }

end NSG.Config
