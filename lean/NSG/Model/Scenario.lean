import NSG.Model.World
/-
Model of the scenario loader `NSGCoordinator._process_cyst_config` (worlds/NSEGameCoordinator.py
124–292): nodes, routers (the router called 'internet' is skipped), the start-marker service, data
of services, and the three phases of the firewall table (or "everything allowed" when the firewall is
switched off).  A scenario here is the content of the CYST configuration objects the loader reads.
-/
namespace NSG

structure SIface where
  ip : IP
  net : Net
  deriving Repr, Inhabited

structure SService where
  name : String
  version : String
  isLocal : Bool
  data : List (String × String)      -- (owner, description) of every private datapoint
  deriving Repr, Inhabited

structure SNode where
  id : String
  ifaces : List SIface
  services : List SService
  deriving Repr, Inhabited

structure SRule where
  src : Net
  dst : Net
  allow : Bool
  deriving Repr, Inhabited

structure SRouter where
  id : String
  isInternet : Bool                  -- id.lower() == 'internet'
  ifaces : List SIface
  rules : List SRule
  deriving Repr, Inhabited

structure Scenario where
  nodes : List SNode
  routers : List SRouter
  deriving Repr, Inhabited

def startMarker : String := "can_attack_start_here"

/-- one interface: the address belongs to the node, and joins its network -/
def addIface (id : String) (w : World) (i : SIface) : World :=
  { w with hostname := aset i.ip id w.hostname, nets := addTo i.net [i.ip] w.nets }

def datumOf (d : String × String) : Data := { owner := d.1, id := d.2, size := 0, typ := "" }

/-- one passive service with all of its datapoints (the start marker is not a service) -/
def addService (id : String) (w : World) (s : SService) : World :=
  if s.name = startMarker then w else
  { w with services := addTo id [{ name := s.name, typ := "passive", version := s.version, isLocal := s.isLocal }] w.services,
           data := if s.data = [] then w.data else addTo id (s.data.map datumOf) w.data }

def addNode (w : World) (n : SNode) : World :=
  n.services.foldl (addService n.id) (n.ifaces.foldl (addIface n.id) w)

def addRouter (w : World) (r : SRouter) : World :=
  if r.isInternet then w else r.ifaces.foldl (addIface r.id) w

def emptyWorld : World :=
  { hostname := [], nets := [], services := [], data := [], fw := [], blocks := [], dataOrig := [], fwOrig := [] }

/-- tables before the firewall is computed: nodes first, then routers -/
def loadTables (sc : Scenario) : World := sc.routers.foldl addRouter (sc.nodes.foldl addNode emptyWorld)

def allRules (sc : Scenario) : List SRule := (sc.routers.filter (fun r => !r.isInternet)).flatMap (·.rules)

def allIps (w : World) : List IP := w.nets.flatMap (·.2)

/-- the live networks with their hosts -/
def liveNets (w : World) : List (Net × List IP) := (akeys w.nets).eraseDups.map (fun n => (n, agetD n w.nets))

def sameLocal (w : World) (s d : IP) : Bool :=
  (liveNets w).any (fun p => isPrivate p.1.addr && decide (s ∈ p.2) && decide (d ∈ p.2))

def localToPublic (w : World) (s d : IP) : Bool :=
  (liveNets w).any (fun p => isPrivate p.1.addr && decide (s ∈ p.2)) &&
  (liveNets w).any (fun q => !isPrivate q.1.addr && decide (d ∈ q.2))

/-- `firewall[dst].add(dst)` of the local-to-internet phase -/
def publicSelfLoop (w : World) (s d : IP) : Bool :=
  decide (s = d) && (liveNets w).any (fun q => !isPrivate q.1.addr && decide (d ∈ q.2)) &&
  (liveNets w).any (fun p => isPrivate p.1.addr && !p.2.isEmpty)

def ruleAllows (rules : List SRule) (s d : IP) : Bool :=
  rules.any (fun r => r.allow && inNet s r.src && inNet d r.dst)

def connAllowed (w : World) (rules : List SRule) (useFw : Bool) (s d : IP) : Bool :=
  if useFw then sameLocal w s d || localToPublic w s d || publicSelfLoop w s d || ruleAllows rules s d else true

def fwTable (w : World) (rules : List SRule) (useFw : Bool) : AMap IP (List IP) :=
  (allIps w).eraseDups.map (fun s => (s, (allIps w).eraseDups.filter (fun d => connAllowed w rules useFw s d)))

/-- `_process_cyst_config` + `_initialize` (pristine copies) -/
def load (sc : Scenario) (useFw : Bool) : World :=
  let w := loadTables sc
  let fw := fwTable w (allRules sc) useFw
  { w with fw := fw, fwOrig := fw, dataOrig := w.data }

end NSG
