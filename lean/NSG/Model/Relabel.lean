import NSG.Model.World
/-
Address re-labelling (use_dynamic_addresses): `σ` renames addresses, `τ` renames networks; every
table of the world, every part of a view and every action parameter is pushed through them, exactly
like `_create_new_network_mapping` does with the published maps `_ip_mapping` / `_network_mapping`.
-/
namespace NSG

def mapKV {κ κ' ν ν'} (f : κ → κ') (g : ν → ν') (m : AMap κ ν) : AMap κ' ν' := m.map (fun p => (f p.1, g p.2))

def World.relabel (σ : IP → IP) (τ : Net → Net) (w : World) : World :=
  { hostname := mapKV σ id w.hostname
    nets := mapKV τ (List.map σ) w.nets
    services := w.services
    data := w.data
    fw := mapKV σ (List.map σ) w.fw
    blocks := mapKV σ (List.map σ) w.blocks
    dataOrig := w.dataOrig
    fwOrig := mapKV σ (List.map σ) w.fwOrig }

def View.relabel (σ : IP → IP) (τ : Net → Net) (v : View) : View :=
  { controlled := v.controlled.map σ
    known := v.known.map σ
    services := mapKV σ id v.services
    data := mapKV σ id v.data
    nets := v.nets.map τ
    blocks := mapKV σ (List.map σ) v.blocks }

def GAction.relabel (σ : IP → IP) (τ : Net → Net) : GAction → GAction
  | .scan s n => .scan (σ s) (τ n)
  | .findServices s t => .findServices (σ s) (σ t)
  | .findData s t => .findData (σ s) (σ t)
  | .exploit s t svc => .exploit (σ s) (σ t) svc
  | .exfil s t d => .exfil (σ s) (σ t) d
  | .block s t b => .block (σ s) (σ t) (σ b)

/-- the generator's network arithmetic: the lowest private network gets a fresh base, every other
private network keeps its distance to it -/
def shiftNet (oldBase newBase : Nat) (n : Net) : Net := { addr := newBase + (n.addr - oldBase), mask := n.mask }

/-- number of addresses of a network with this prefix length -/
def blockSize (mask : Nat) : Nat := 2 ^ (32 - mask)

/-- `netaddr.IPNetwork(f"{a}/{mask}").network`: the address with its host bits cleared -/
def alignDown (a mask : Nat) : Nat := a / blockSize mask * blockSize mask

/-- the shortest prefix (= the largest network) among `first :: rest` -/
def widestMask (m0 : Nat) (nets : List Net) : Nat := nets.foldl (fun m n => min m n.mask) m0

/-- `_create_new_network_mapping`, private networks (sorted ascending, `first` the lowest), for the value `d` drawn by
`fake.ipv4_private()`: the block of the widest prefix around `d` is the new home of the block of the same size around
`first`; every network keeps its distance to `first`. -/
def relabelBase (d : Nat) (first : Net) (rest : List Net) : Nat :=
  let widest := widestMask first.mask rest
  alignDown d widest + (first.addr - alignDown first.addr widest)

def relabelPrivate (d : Nat) : List Net → List Net
  | [] => []
  | first :: rest => (first :: rest).map (shiftNet first.addr (relabelBase d first rest))

/-- the generator of the pinned tree before fix 9086a03: the new base was aligned to the prefix of the lowest network only -/
def relabelPrivateOld (d : Nat) : List Net → List Net
  | [] => []
  | first :: rest => (first :: rest).map (shiftNet first.addr (alignDown d first.mask))

/-- `sorted(private_nets)`: the private networks in ascending order of their addresses -/
def sortNets (nets : List Net) : List Net := nets.mergeSort (fun a b => decide (a.addr ≤ b.addr))

/-- `IPAddress.is_ipv4_private_use()`: the three RFC 1918 blocks -/
def isPrivateAddr (a : Nat) : Bool :=
  (167772160 ≤ a && a ≤ 184549375) ||        -- 10.0.0.0/8
  (2886729728 ≤ a && a ≤ 2887778303) ||      -- 172.16.0.0/12
  (3232235520 ≤ a && a ≤ 3232301055)         -- 192.168.0.0/16

def allPrivate (nets : List Net) : Bool := nets.all (fun n => isPrivateAddr n.addr)

/-- address arithmetic that leaves the IPv4 range raises `IndexError` in netaddr -/
def overflows (nets : List Net) : Bool := nets.any (fun n => decide (4294967296 ≤ n.addr))

/-- the retry loop of `_create_new_network_mapping` over the values drawn one after the other: a draw whose result leaves
the address space counts as a failed attempt (after more than ten of them the current networks are kept); a draw whose result
is not all private is simply repeated; the first draw whose result is all private is taken.  (`[]`: out of drawn values - the
loop has not ended; reported as "keep", never reached when the real loop ended.) -/
def relabelLoop : List Nat → Nat → List Net → List Net
  | [], _, nets => nets
  | d :: ds, errs, nets =>
    let r := relabelPrivate d nets
    if overflows r then (if 10 < errs + 1 then nets else relabelLoop ds (errs + 1) nets)
    else if allPrivate r then r else relabelLoop ds errs nets

/-- one network's part of the address draw: its hosts paired with the first entries of the shuffled address list of the new
network (`mapping_ips[ip] = ip_list[i]`) -/
def assignHosts (hosts addrs : List IP) : AMap IP IP := hosts.zip addrs

/-- the whole address map: the parts of all networks, in the order of the network table -/
def drawIPs (parts : List (List IP × List IP)) : AMap IP IP := parts.flatMap (fun p => assignHosts p.1 p.2)

end NSG
