import NSG.Model.World
/-
Address re-labelling (use_dynamic_addresses): `σ` renames addresses, `τ` renames networks; every
table of the world, every part of a view and every action parameter is pushed through them, exactly
like `_create_new_network_mapping` does with the published maps `_ip_mapping` / `_network_mapping`.
-/
namespace NSG

def mapKV {κ κ' ν ν'} (f : κ → κ') (g : ν → ν') (m : AMap κ ν) : AMap κ' ν' := m.map (fun p => (f p.1, g p.2))

def World.relabel (σ : IP → IP) (τ : Net → Net) (w : World) : World :=
  { hostname := mapKV σ id w.hostname
    nets := mapKV τ (List.map σ) w.nets
    services := w.services
    data := w.data
    fw := mapKV σ (List.map σ) w.fw
    blocks := mapKV σ (List.map σ) w.blocks
    dataOrig := w.dataOrig
    fwOrig := mapKV σ (List.map σ) w.fwOrig }

def View.relabel (σ : IP → IP) (τ : Net → Net) (v : View) : View :=
  { controlled := v.controlled.map σ
    known := v.known.map σ
    services := mapKV σ id v.services
    data := mapKV σ id v.data
    nets := v.nets.map τ
    blocks := mapKV σ (List.map σ) v.blocks }

def GAction.relabel (σ : IP → IP) (τ : Net → Net) : GAction → GAction
  | .scan s n => .scan (σ s) (τ n)
  | .findServices s t => .findServices (σ s) (σ t)
  | .findData s t => .findData (σ s) (σ t)
  | .exploit s t svc => .exploit (σ s) (σ t) svc
  | .exfil s t d => .exfil (σ s) (σ t) d
  | .block s t b => .block (σ s) (σ t) (σ b)

/-- the generator's network arithmetic: the lowest private network gets a fresh base, every other
private network keeps its distance to it -/
def shiftNet (oldBase newBase : Nat) (n : Net) : Net := { addr := newBase + (n.addr - oldBase), mask := n.mask }

/-- number of addresses of a network with this prefix length -/
def blockSize (mask : Nat) : Nat := 2 ^ (32 - mask)

/-- `netaddr.IPNetwork(f"{a}/{mask}").network`: the address with its host bits cleared -/
def alignDown (a mask : Nat) : Nat := a / blockSize mask * blockSize mask

/-- the shortest prefix (= the largest network) among `first :: rest` -/
def widestMask (m0 : Nat) (nets : List Net) : Nat := nets.foldl (fun m n => min m n.mask) m0

/-- `_create_new_network_mapping`, private networks (sorted ascending, `first` the lowest), for the value `d` drawn by
`fake.ipv4_private()`: the block of the widest prefix around `d` is the new home of the block of the same size around
`first`; every network keeps its distance to `first`. -/
def relabelBase (d : Nat) (first : Net) (rest : List Net) : Nat :=
  let widest := widestMask first.mask rest
  alignDown d widest + (first.addr - alignDown first.addr widest)

def relabelPrivate (d : Nat) : List Net → List Net
  | [] => []
  | first :: rest => (first :: rest).map (shiftNet first.addr (relabelBase d first rest))

/-- the generator of the pinned tree before fix 9086a03: the new base was aligned to the prefix of the lowest network only -/
def relabelPrivateOld (d : Nat) : List Net → List Net
  | [] => []
  | first :: rest => (first :: rest).map (shiftNet first.addr (alignDown d first.mask))

/-- one network's part of the address draw: its hosts paired with the first entries of the shuffled address list of the new
network (`mapping_ips[ip] = ip_list[i]`) -/
def assignHosts (hosts addrs : List IP) : AMap IP IP := hosts.zip addrs

/-- the whole address map: the parts of all networks, in the order of the network table -/
def drawIPs (parts : List (List IP × List IP)) : AMap IP IP := parts.flatMap (fun p => assignHosts p.1 p.2)

end NSG
