import NSG.Model.World
/-
Address re-labelling (use_dynamic_addresses): `σ` renames addresses, `τ` renames networks; every
table of the world, every part of a view and every action parameter is pushed through them, exactly
like `_create_new_network_mapping` does with the published maps `_ip_mapping` / `_network_mapping`.
-/
namespace NSG

def mapKV {κ κ' ν ν'} (f : κ → κ') (g : ν → ν') (m : AMap κ ν) : AMap κ' ν' := m.map (fun p => (f p.1, g p.2))

def World.relabel (σ : IP → IP) (τ : Net → Net) (w : World) : World :=
  { hostname := mapKV σ id w.hostname
    nets := mapKV τ (List.map σ) w.nets
    services := w.services
    data := w.data
    fw := mapKV σ (List.map σ) w.fw
    blocks := mapKV σ (List.map σ) w.blocks
    dataOrig := w.dataOrig
    fwOrig := mapKV σ (List.map σ) w.fwOrig }

def View.relabel (σ : IP → IP) (τ : Net → Net) (v : View) : View :=
  { controlled := v.controlled.map σ
    known := v.known.map σ
    services := mapKV σ id v.services
    data := mapKV σ id v.data
    nets := v.nets.map τ
    blocks := mapKV σ (List.map σ) v.blocks }

def GAction.relabel (σ : IP → IP) (τ : Net → Net) : GAction → GAction
  | .scan s n => .scan (σ s) (τ n)
  | .findServices s t => .findServices (σ s) (σ t)
  | .findData s t => .findData (σ s) (σ t)
  | .exploit s t svc => .exploit (σ s) (σ t) svc
  | .exfil s t d => .exfil (σ s) (σ t) d
  | .block s t b => .block (σ s) (σ t) (σ b)

/-- the generator's network arithmetic: the lowest private network gets a fresh base, every other
private network keeps its distance to it -/
def shiftNet (oldBase newBase : Nat) (n : Net) : Net := { addr := newBase + (n.addr - oldBase), mask := n.mask }

end NSG
