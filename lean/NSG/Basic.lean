def hello := "world"
